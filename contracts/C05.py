"""C05 - seq_num and num_events account for every event exactly.

Carriers: bluesky/bundlers.py: RunBundler._prepare_stream, save (event emission), record_interruption,
monitor.emit_event, reset_checkpoint_state, rewind, _pack_seq_nums_into_stream_datum, close_run (num_events).
Abstract view per stream s: next(s) = _sequence_counters[s] (shared with event_model's event_counters),
snap(s) = _sequence_counters_copy[s]; `never_replayed` = {interruptions} + monitor streams + streams fed by collect.
Step contracts (pre-state: an arbitrary open bundler with symbolic counters 1 <= snap <= next):
  new stream: next = snap = 1;  every emitted event carries seq_num = next(s) and then next'(s) = next(s) + 1
  reset_checkpoint_state: snap' = next for every stream
  rewind (from the statement): replayable streams next' = snap (1 if the stream did not exist at the checkpoint);
      never-replayed streams keep next' = next; bundling' = False
  _pack_seq_nums_into_stream_datum: seq_nums = [next, next + width), counters untouched; pre-filled seq_nums or a
      width different from the previous one raise EventModelValueError
  close_run: stop.num_events[s] = next(s) - 1
Lemma (z3, over the step contracts): the emitted seq_nums of a stream are always exactly 1..hi-1 with next <= hi, a
seq_num is re-emitted only after a rewind of a replayable stream, and for never-replayed streams next == hi (no
duplicates); at stop num_events = hi - 1 when next == hi.
"""
from .lib import *
from .bundler_lib import *

PROP = "C05"
Q = f"{MB}:RunBundler"
TRUSTED = EM_ASSUMPTIONS + ["stream names are used only as dictionary keys (concrete representatives 'primary', 'mon', 'interruptions', 'fly')"]
NOT_DECIDED = "old-style collect paths (_collect_events / _collect_event_pages); that every pause/suspension schedule reaches rewind with the right snapshot (T2, C04)"
KF = "C05-rewind-rolls-back-never-replayed-streams"


def symbolic_state(I, env, b, streams, with_copy=True):
    """overwrite the counters of an opened bundler by symbolic ones: 1 <= snap(s) <= next(s)"""
    w = I.w
    nxt, snap = {}, {}
    for s in streams:
        n = w.int(f"next_{s}")
        c = w.int(f"snap_{s}")
        w.add(And(n >= 1, c >= 1, c <= n))
        nxt[s], snap[s] = n, c
    b._sequence_counters.clear()
    b._sequence_counters.update(nxt)
    b._sequence_counters_copy.clear()
    if with_copy:
        b._sequence_counters_copy.update(snap)
    return nxt, snap


def declare(I, env, b, name, keys=("x",)):
    """compose a descriptor for stream `name` through the real _prepare_stream"""
    dev = Opaque(f"dev_{name}", {"token": "dev", "attrs": {"name": f"dev_{name}", "hints": {"fields": list(keys)}}, "truth": True,
                                 "isinstance_default": False, "hasattr": {"hints": True}})
    for cache in ("_config_values_cache", "_config_ts_cache", "_config_desc_cache"):
        b.attrs[cache][dev] = {}
    dks = {k: {"dtype": "number", "shape": [], "source": "dev"} for k in keys}
    b._describe_cache[dev] = dks
    r = call_async(I, I.getattr(b, "_prepare_stream"), name, {dev: dks})
    if r[0] != "ok":
        raise EngineError(f"_prepare_stream failed in harness: {r[1].attrs}")
    return dev, r[1]


@task("_prepare_stream", PROP, functions=[f"{Q}._prepare_stream", f"{Q}.open_run"],
      expect=[f"{Q}._prepare_stream#ensures[new stream starts at next = snap = 1; an existing stream keeps its counters]"])
def prepare_stream(I):
    w = I.w
    env = Env(I)
    b, uid = opened_bundler(I, env)
    declare(I, env, b, "primary")
    # (the snapshot entry may be absent until the next checkpoint: rewind treats an absent entry as 1)
    ok_new = And(Eq(b._sequence_counters["primary"], 1), Eq(b._sequence_counters_copy.get("primary", 1), 1))
    n = w.int("next")
    w.add(n >= 1)
    b._sequence_counters["primary"] = n
    b._sequence_counters_copy["primary"] = n
    declare(I, env, b, "primary")      # a second descriptor for the same stream (e.g. after configure)
    w.check(f"{Q}._prepare_stream#ensures[new stream starts at next = snap = 1; an existing stream keeps its counters]",
            And(ok_new, Eq(b._sequence_counters["primary"], n), Eq(b._sequence_counters_copy["primary"], n)),
            {"replay": "bundler.counters"})


@task("save.seq_num", PROP, functions=[f"{Q}.save", f"{Q}.create", f"{Q}.read"],
      expect=[f"{Q}.save#ensures[event seq_num == next(stream) and next' = next + 1; other streams untouched]"])
def save_seq(I):
    w = I.w
    env = Env(I)
    b, uid = opened_bundler(I, env)
    dev, _ = declare(I, env, b, "primary")
    declare(I, env, b, "other", keys=("y",))
    nxt, snap = symbolic_state(I, env, b, ["primary", "other"])
    w.stubs[(MB, "maybe_collect_asset_docs")] = native(lambda I_, a, k: [])
    call_async(I, I.getattr(b, "create"), MsgVal("create", None, (), {"name": "primary"}, None))
    reading = {"x": {"value": w.real("v"), "timestamp": w.real("ts")}}
    I.call_hooks[f"{Q}._ensure_cached"] = lambda I_, f, a, k: ret(Ready(None))
    r1 = call_async(I, I.getattr(b, "read"), MsgVal("read", dev, (), {}, None), reading)
    env.emitted.clear()
    r2 = call_async(I, I.getattr(b, "save"), MsgVal("save", None, (), {}, None))
    evs = events(env)
    ok = r1[0] == "ok" and r2[0] == "ok" and len(evs) == 1
    w.check(f"{Q}.save#ensures[event seq_num == next(stream) and next' = next + 1; other streams untouched]",
            And(ok, Eq(evs[0]["seq_num"], nxt["primary"]) if ok else False,
                Eq(b._sequence_counters["primary"], nxt["primary"] + 1), Eq(b._sequence_counters["other"], nxt["other"]),
                Eq(b._sequence_counters_copy["primary"], snap["primary"])), {"replay": "bundler.counters"})


@task("reset_checkpoint_state", PROP, functions=[f"{Q}.reset_checkpoint_state", f"{Q}.clear_checkpoint"],
      expect=[f"{Q}.reset_checkpoint_state#ensures[snap' = next for every stream, counters unchanged]"])
def reset_checkpoint(I):
    w = I.w
    env = Env(I)
    b, uid = opened_bundler(I, env)
    had_copy = w.choose([True, False], "a snapshot existed (no clear_checkpoint before)")
    nxt, snap = symbolic_state(I, env, b, ["primary", "mon"], with_copy=had_copy)
    call_method(I, b, "reset_checkpoint_state")
    w.check(f"{Q}.reset_checkpoint_state#ensures[snap' = next for every stream, counters unchanged]",
            And(set(b._sequence_counters_copy) == {"primary", "mon"}, *[Eq(b._sequence_counters_copy[s], nxt[s]) for s in nxt],
                *[Eq(b._sequence_counters[s], nxt[s]) for s in nxt]), {"replay": "bundler.counters"})
    call_async(I, I.getattr(b, "clear_checkpoint"), MsgVal("clear_checkpoint", None, (), {}, None))
    w.check(f"{Q}.clear_checkpoint#ensures[snapshot dropped, counters unchanged]",
            And(len(b._sequence_counters_copy) == 0, *[Eq(b._sequence_counters[s], nxt[s]) for s in nxt]))


@task("rewind", PROP, functions=[f"{Q}.rewind", f"{Q}.monitor", f"{Q}.record_interruption"],
      expect=[f"{Q}.rewind#ensures[replayable streams: next' = snap (1 if created after the checkpoint); bundling' = False]",
              f"{Q}.rewind#ensures[never-replayed streams (interruptions, monitors, collect) keep next' = next]"])
def rewind(I):
    w = I.w
    env = Env(I)
    b, uid = opened_bundler(I, env, record_interruptions=True)
    declare(I, env, b, "primary")
    # a monitor stream, created through the real monitor()
    sig = Opaque("sig", {"token": "dev", "attrs": {"name": "sig", "hints": {}}, "truth": True, "isinstance": {"Subscribable": True, "Readable": True, "Configurable": False},
                         "isinstance_default": False, "hasattr": {"hints": False},
                         "methods": {"subscribe": lambda I_, o, a, k: None, "describe": lambda I_, o, a, k: {"sig": {"dtype": "number", "shape": [], "source": "s"}}}})
    w.stubs[(MB, "check_supports")] = native(lambda I_, a, k: a[0])
    w.stubs[(MB, "maybe_await")] = native(lambda I_, a, k: Ready(a[0]))
    w.stubs[(MB, "maybe_update_hints")] = native(lambda I_, a, k: None)
    w.stubs["asyncio.gather"] = lambda I_, a, k: Ready([run_coro(I_, c) if isinstance(c, GenObj) else c for c in a])
    r = call_async(I, I.getattr(b, "monitor"), MsgVal("monitor", sig, (), {"name": "mon"}, None))
    if r[0] != "ok":
        raise EngineError(f"monitor failed in harness: {r[1].attrs}")
    created_after = w.choose([False, True], "primary created after the checkpoint")
    nxt, snap = symbolic_state(I, env, b, ["primary", "mon", "interruptions"])
    if created_after:
        del b._sequence_counters_copy["primary"]
    b.attrs["bundling"] = w.choose([True, False], "bundle open")
    call_method(I, b, "rewind")
    want_primary = 1 if created_after else snap["primary"]
    w.check(f"{Q}.rewind#ensures[replayable streams: next' = snap (1 if created after the checkpoint); bundling' = False]",
            And(Eq(b._sequence_counters["primary"], want_primary), b.bundling is False), {"replay": "bundler.rewind"})
    w.check_kf(f"{Q}.rewind#ensures[never-replayed streams (interruptions, monitors, collect) keep next' = next]",
               And(Eq(b._sequence_counters["mon"], nxt["mon"]), Eq(b._sequence_counters["interruptions"], nxt["interruptions"])),
               KF, True, {"replay": "bundler.rewind"})


@task("_pack_seq_nums_into_stream_datum", PROP, functions=[f"{Q}._pack_seq_nums_into_stream_datum"],
      expect=[f"{Q}._pack_seq_nums_into_stream_datum#ensures[seq_nums = [next, next + width); counters unchanged]",
              f"{Q}._pack_seq_nums_into_stream_datum#raises[EventModelValueError iff seq_nums pre-filled or width differs from the previous datum]"])
def pack_seq_nums(I):
    w = I.w
    env = Env(I)
    b, uid = opened_bundler(I, env)
    nxt, snap = symbolic_state(I, env, b, ["fly"])
    w.stubs[(MB, "StreamRange")] = native(lambda I_, a, k: dict(k))
    w.stubs[(MB, "EventModelValueError")] = env.value_error
    i0, i1 = w.int("idx_start"), w.int("idx_stop")
    s0, s1 = w.int("seq_start"), w.int("seq_stop")
    prev = w.int("previous_width")
    w.add(And(i0 <= i1, prev >= 0))
    known = w.choose([True, False], "stream resource known")
    b._stream_resource_data_keys.update({"sr1": "img"} if known else {})
    doc = {"uid": "sd1", "stream_resource": "sr1", "descriptor": "", "indices": {"start": i0, "stop": i1}, "seq_nums": {"start": s0, "stop": s1}}
    r = call_async(I, I.getattr(b, "_pack_seq_nums_into_stream_datum"), doc, "fly", prev)
    width = i1 - i0
    prefilled = Not(And(Eq(s0, 0), Eq(s1, 0)))
    mismatch = And(Not(Eq(prev, 0)), Not(Eq(prev, width)))
    name_r = f"{Q}._pack_seq_nums_into_stream_datum#raises[EventModelValueError iff seq_nums pre-filled or width differs from the previous datum]"
    if r[0] == "raise":
        if exc_is(I, r[1], "RuntimeError") and not isinstance(r[1].cls, type(None)) and not r[1].cls.issubclass(env.value_error):
            w.check(f"{Q}._pack_seq_nums_into_stream_datum#raises[RuntimeError only for an unknown stream resource]", not known)
            return
        w.check(name_r, And(r[1].cls.issubclass(env.value_error), Or(prefilled, mismatch)), {"replay": "bundler.counters"})
        return
    w.check(name_r, And(Not(prefilled), Not(mismatch), known), {"replay": "bundler.counters"})
    w.check(f"{Q}._pack_seq_nums_into_stream_datum#ensures[seq_nums = [next, next + width); counters unchanged]",
            And(Eq(doc["seq_nums"]["start"], nxt["fly"]), Eq(doc["seq_nums"]["stop"], nxt["fly"] + width), Eq(r[1], width),
                Eq(b._sequence_counters["fly"], nxt["fly"])), {"replay": "bundler.counters"})


@task("close_run.num_events", PROP, functions=[f"{Q}.close_run"],
      expect=[f"{Q}.close_run#ensures[stop.num_events[s] == next(s) - 1 for every stream]"])
def close_num_events(I):
    w = I.w
    env = Env(I)
    b, uid = opened_bundler(I, env)
    declare(I, env, b, "primary")
    nxt, snap = symbolic_state(I, env, b, ["primary", "mon"])
    env.emitted.clear()
    r = call_async(I, I.getattr(b, "close_run"), MsgVal("close_run", None, (), {"exit_status": None, "reason": None}, None))
    stops = [d for n, d in env.emitted if n == "stop"]
    ok = r[0] == "ok" and len(stops) == 1 and set(stops[0]["num_events"]) == {"primary", "mon"}
    w.check(f"{Q}.close_run#ensures[stop.num_events[s] == next(s) - 1 for every stream]",
            And(ok, *([Eq(stops[0]["num_events"][s], nxt[s] - 1) for s in nxt] if ok else [False])), {"replay": "bundler.counters"})


@task("lemma.numbering", PROP, expect=["lemma:C05.seq_nums are exactly 1..N, duplicates only after a rewind of a replayable stream"])
def lemma(I):
    """inductive invariant over the abstract transition system whose transitions are the step contracts above.
    State of one stream: next, snap, hi (ghost: 1 + largest seq_num emitted so far; emitted == [1, hi))."""
    import z3
    w = I.w
    nxt, snap, hi = z3.Ints("next snap hi")
    replayable = z3.Bool("replayable")
    inv = lambda n, s, h: z3.And(n >= 1, s >= 1, s <= n, n <= h, z3.Implies(z3.Not(replayable), n == h))
    n2, s2, h2 = z3.Ints("next2 snap2 hi2")
    emit = z3.And(n2 == nxt + 1, s2 == snap, h2 == z3.If(nxt == hi, hi + 1, hi))        # seq_num = next; fills [1,hi) or extends it
    checkpoint = z3.And(n2 == nxt, s2 == nxt, h2 == hi)
    rew = z3.And(n2 == z3.If(replayable, snap, nxt), s2 == snap, h2 == hi)
    step = z3.Or(emit, checkpoint, rew)
    init = z3.And(nxt == 1, snap == 1, hi == 1)
    no_gap = z3.Implies(emit, z3.And(nxt >= 1, nxt <= hi))                                # the emitted number is <= hi: never leaves a gap
    fresh_for_never_replayed = z3.Implies(z3.And(emit, z3.Not(replayable)), nxt == hi)     # always a fresh number
    w.check("lemma:C05.seq_nums are exactly 1..N, duplicates only after a rewind of a replayable stream",
            Sym(z3.And(z3.Implies(init, inv(nxt, snap, hi)),
                       z3.Implies(z3.And(inv(nxt, snap, hi), step), inv(n2, s2, h2)),
                       z3.Implies(inv(nxt, snap, hi), z3.And(no_gap, fresh_for_never_replayed)))))


# ------------------------------------------------------------------------------------------------ the engine side of a checkpoint
# The bundler contracts above speak of reset_checkpoint_state / rewind; that a 'checkpoint' message (and every implicit checkpoint)
# really reaches every open run's reset_checkpoint_state - from any state of the engine's message cache, an empty one included - is
# the handler contract proved under C04, re-used here: without it the snapshot used by a later rewind is stale and seq_nums repeat.
from . import C04 as _c04   # noqa: E402

for _h in ("_checkpoint", "_stage", "_close_run"):
    task(f"engine.handler{_h}", PROP, functions=[f"{_c04.RE}.{_h}", f"{_c04.RE}._reset_checkpoint_state_meth"])(_c04.HANDLER_TASKS[_h])
