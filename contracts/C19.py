"""C19 - callbacks see every document once, in order, and errors follow policy.

Carriers: bluesky/utils: CallbackRegistry.process (+ connect / disconnect / _remove_proxy, which callbacks may run re-entrantly);
bluesky/run_engine.py: Dispatcher.process / subscribe / unsubscribe, RunEngine.emit, emit_sync, ignore_callback_exceptions,
and - for the sentence about the plan and the run - RunEngine.__call__ / _run / _open_run / _close_run / _create / _read / _save
with bluesky/bundlers.py: RunBundler.open_run / save / close_run.

Clauses, from the statement (replay/c19_clause.py holds them as plain functions, shared with the native replay adapters):
  D  each callback subscribed to a document kind is invoked exactly once per document of that kind, with that document, in
     subscription order, documents in emission order - also when a callback, while it is being called, unsubscribes itself,
     unsubscribes another callback, subscribes a further one, or turns out to be a dead reference: the callbacks whose
     subscription was not touched are served as if nothing had happened, nothing of the registry's own reaches the caller,
     and the next document goes to exactly the subscriptions that are live then
  P  callback exceptions ignored: a raising callback stops neither the others nor the caller / the plan; not ignored: the
     delivery of that document ends at the first raising callback, its exception propagates out of emit and RE(plan) raises it
  R  (not ignored) every run that is open when the callback raises is closed as failed: one stop document, exit_status 'fail',
     delivered like any other document; runs closed earlier keep their status.  This includes the case that the callback
     raises on the start document (some callbacks have seen the start by then) and is *not* met when it raises on a stop
     document (known finding C19-stop-document-callback-error, see check_kf below).
Levels: T1 contracts of process / emit / the policy flag (callbacks abstract), and an end-to-end level: the real RunEngine,
RunBundler, Dispatcher and CallbackRegistry executed together on concrete plan shapes with callbacks raising / (un)subscribing
at an arbitrary document (quantifier of the property: 'plans with several callbacks, some raising at arbitrary documents,
both policies').
"""
from replay import c19_clause as CL

from .lib import *
from .re_lib import *
from .C18 import install, callback, new_dispatcher, delivered, D, MU
from .C16 import cfg_device
from .run_lib import Engine, TRUSTED_T2
from . import C01 as _c01

PROP = "C19"
BOUND = "number of callbacks subscribed to the document kind <= 3"
RUN_BOUND = ("three plan shapes (one run with two events; one run with interruption recording; two interleaved runs, one of them left "
             "for the engine to close), three callbacks, the raising / (un)subscribing one in the middle; it acts at an arbitrary document")
TRUSTED = ["see C18 (WeakKeyDictionary model, DocumentNames enumeration, plain-function callbacks)",
           "the number of subscribed callbacks is enumerated (0..3): the delivery loop is not cut by an invariant (labelled bounded)",
           "warn() is effect-free (A-LOG)",
           "a callback whose owner was garbage collected is represented by a callback raising ReferenceError (what _BoundMethodProxy.__call__ "
           "does then); the weak-reference destroy callbacks themselves are not modelled",
           "end-to-end tasks: " + RUN_BOUND] + TRUSTED_T2[:2] + TRUSTED_T2[3:4] + TRUSTED_T2[6:] + EM_ASSUMPTIONS
NOT_DECIDED = ("callbacks scheduled on other threads; weak-reference destroy callbacks firing in the middle of a delivery; plans that catch the "
               "callback's exception and carry on (the statement speaks of the exception ending the plan); plan shapes beyond the enumerated ones; "
               "inside the listed case of the known finding (exceptions not ignored, the first callback error happens on a stop document) only the "
               "delivery clause, the closing of the *other* runs and the engine's return to idle are proved")
KF = "C19-stop-document-callback-error"
CR = f"{MU}:CallbackRegistry"


# ------------------------------------------------------------------------------------------------ T1: CallbackRegistry.process
def _mk(n):
    @task(f"process[{n} callbacks]", PROP, bounded=BOUND,
          functions=[f"{CR}.process", f"{D}.process"],
          expect=[f"{CR}.process#ensures[every callback once, in subscription order; error policy] (n={n})"])
    def t(I):
        w = I.w
        names = install(I)
        log = []
        d = new_dispatcher(I)
        ignore = w.choose([False, True], "ignore_exceptions")
        I.setattr(d, "ignore_exceptions", ignore)
        # any subset of the callbacks raises, each its own exception ('some raising')
        raising = [i for i in range(n) if w.choose([False, True], f"callback {i} raises")]
        booms = [Obj(BUILTIN_CLASSES["ValueError"], {"args": (f"boom{i}",), "__cause__": None}, label=f"boom{i}") for i in range(n)]
        for i in range(n):
            def cb(I_, a, k, _i=i):
                log.append((_i, a))
                if _i in raising:
                    raise PyRaise(booms[_i])
            cb._canon_label = f"cb{i}"
            call_method(I, d, "subscribe", native(cb), "event")
        doc = Opaque("doc", {"token": "doc"})
        r = catch(I, I.getattr(d, "process"), names["event"], doc)
        called = [i for i, a in log]
        args_ok = all(a[0] == "event" and a[1] is doc for i, a in log)
        if not raising or ignore:
            ok = r[0] == "ok" and called == list(range(n)) and args_ok
        else:
            ok = r[0] == "raise" and r[1] is booms[raising[0]] and called == list(range(raising[0] + 1)) and args_ok
        w.check(f"{CR}.process#ensures[every callback once, in subscription order; error policy] (n={n})", ok,
                {"replay": "dispatcher.policy", "n": n, "raising": raising, "ignore": ignore})


for _n in (0, 1, 2, 3):
    _mk(_n)


# ------------------------------------------------------------------------------------------------ T1: re-entrant (un)subscription
RESUB = (f"{CR}.process#ensures[(un)subscribing from inside a callback: a callback that unsubscribes itself / another one, subscribes a further one "
         "or is a dead reference disturbs nobody: the others get the document once, in order; the next document goes to exactly the live subscriptions]")
ACTIONS = CL.ACTIONS


def _mk_resub(n):
    @task(f"process.resubscription[{n} callbacks]", PROP, bounded=BOUND,
          functions=[f"{CR}.process", f"{CR}.connect", f"{CR}.disconnect", f"{CR}._remove_proxy", f"{D}.process", f"{D}.subscribe", f"{D}.unsubscribe"],
          expect=[RESUB.replace("#ensures[", f"#ensures[n={n}: ")], covers=[f"{a} (n={n})" for a in ACTIONS if n > 1 or a != ACTIONS[1]])
    def t(I):
        w = I.w
        names = install(I)
        d = new_dispatcher(I)
        ignore = w.choose([False, True], "ignore_exceptions")
        I.setattr(d, "ignore_exceptions", ignore)
        actor = w.choose(list(range(n)), "acting callback")
        action = w.choose([a for a in ACTIONS if n > 1 or a != ACTIONS[1]], "what it does while it is being called")
        target = w.choose([i for i in range(n) if i != actor], "callback it unsubscribes") if action == ACTIONS[1] else None
        new_kind = w.choose(["event", "all"], "kind the further callback subscribes to") if action in (ACTIONS[2], ACTIONS[4]) else None
        raising = w.choose([None] + [i for i in range(n) if i not in (actor, target)], "raising callback")
        sc = {"n": n, "ignore": ignore, "actor": actor, "action": ACTIONS.index(action), "target": target, "new_kind": new_kind, "raising": raising}
        boom = Obj(BUILTIN_CLASSES["ValueError"], {"args": ("boom",), "__cause__": None}, label="boom")
        docs = [Opaque("doc0", {"token": "doc"}), Opaque("doc1", {"token": "doc"})]
        calls = ([], [])
        st = {"acted": None, "doc": 0, "error": None}
        tokens = {}

        def idx(doc):
            return [i for i, x in enumerate(docs) if x is doc][0] if any(x is doc for x in docs) else -1

        def newcb(I_, a, k):
            calls[st["doc"]].append(("new", a[0], idx(a[1])))
        newcb._canon_label = "new"
        for i in range(n):
            def cb(I_, a, k, _i=i):
                calls[st["doc"]].append((f"cb{_i}", a[0], idx(a[1])))
                if _i == actor:
                    if st["acted"] is None:
                        st["acted"] = st["doc"]
                        try:
                            if action in (ACTIONS[0], ACTIONS[4]):
                                call_method(I_, d, "unsubscribe", tokens[_i])
                            if action == ACTIONS[1]:
                                call_method(I_, d, "unsubscribe", tokens[target])
                            if action in (ACTIONS[2], ACTIONS[4]):
                                tokens["new"] = call_method(I_, d, "subscribe", native(newcb), new_kind)
                        except PyRaise as pr:
                            st["error"] = repr(pr.exc)
                    if action == ACTIONS[3]:
                        raise PyRaise(I_.mkexc("ReferenceError"))
                if _i == raising and st["doc"] == 0:
                    raise PyRaise(boom)
            cb._canon_label = f"cb{i}"
            tokens[i] = call_method(I, d, "subscribe", native(cb), "event")
        outs = []
        for t_ in (0, 1):
            st["doc"] = t_
            r = catch(I, I.getattr(d, "process"), names["event"], docs[t_])
            outs.append(("ok",) if r[0] == "ok" else ("raise", r[1] is boom, repr(r[1])))
        w.cover(f"{action} (n={n})")
        problems = CL.resubscription_problems(sc, st["acted"], st["error"], calls, outs)
        w.check(RESUB.replace("#ensures[", f"#ensures[n={n}: "), not problems, {"replay": "dispatcher.resubscription", "scenario": sc, "problems": problems[:4]})


for _n in (1, 2, 3):
    _mk_resub(_n)


@task("process.twin", PROP, twin="twin:exceptions not ignored: the callbacks after the raising one still receive the document",
      functions=[f"{CR}.process"])
def twin(I):
    w = I.w
    names = install(I)
    log = []
    d = new_dispatcher(I)
    I.setattr(d, "ignore_exceptions", False)
    boom = Obj(BUILTIN_CLASSES["ValueError"], {"args": ("boom",), "__cause__": None}, label="boom")

    def bad(I_, a, k):
        log.append("bad")
        raise PyRaise(boom)
    bad._canon_label = "bad"
    call_method(I, d, "subscribe", native(bad), "event")
    call_method(I, d, "subscribe", callback(log, "later"), "event")
    catch(I, I.getattr(d, "process"), names["event"], Opaque("doc", {"token": "doc"}))
    w.check("twin:exceptions not ignored: the callbacks after the raising one still receive the document", len(log) == 2)


# ------------------------------------------------------------------------------------------------ T1: emit, the policy flag
@task("emit", PROP, functions=[f"{RE}.emit", f"{RE}.emit_sync", f"{D}.process"],
      expect=[f"{RE}.emit#ensures[each document handed to the dispatcher exactly once, errors propagate to the caller]"])
def emit(I):
    w = I.w
    env = Env(I)
    calls = []
    boom = Obj(BUILTIN_CLASSES["ValueError"], {"args": ("boom",), "__cause__": None}, label="boom")
    fails = w.choose([False, True], "dispatcher raises")

    def process(I_, o, a, k):
        calls.append(tuple(a))
        if fails:
            raise PyRaise(boom)
    disp = Opaque("dispatcher", {"methods": {"process": process}})
    re_ = make_re(I, env, dispatcher=disp, _loop_for_kwargs={})
    w.stubs["asyncio.sleep"] = lambda I_, a, k: Ready(None)     # yielding to the loop inside emit would be no error (scheduling: end-to-end tasks)
    del re_.attrs["emit"], re_.attrs["emit_sync"]        # the real methods, not the harness recorders
    doc = Opaque("doc", {"token": "doc"})
    which = w.choose(["emit", "emit_sync"], "entry point")
    if which == "emit":
        r = call_async(I, I.getattr(re_, "emit"), "event", doc)
    else:
        r = catch(I, I.getattr(re_, "emit_sync"), "event", doc)
    w.check(f"{RE}.emit#ensures[each document handed to the dispatcher exactly once, errors propagate to the caller]",
            calls == [("event", doc)] and (r[0] == "raise" and r[1] is boom if fails else r[0] == "ok"), {"replay": "dispatcher.emit"})


@task("ignore_callback_exceptions", PROP, functions=[f"{RE}.ignore_callback_exceptions", f"{D}.ignore_exceptions"],
      expect=[f"{RE}.ignore_callback_exceptions#ensures[the policy flag reaches the callback registry]"])
def policy_flag(I):
    w = I.w
    install(I)
    env = Env(I)
    d = new_dispatcher(I)
    re_ = make_re(I, env, dispatcher=d)
    v = w.choose([True, False], "value")
    I.setattr(re_, "ignore_callback_exceptions", v)
    w.check(f"{RE}.ignore_callback_exceptions#ensures[the policy flag reaches the callback registry]",
            d.cb_registry.ignore_exceptions is v and I.getattr(re_, "ignore_callback_exceptions") is v)


# ------------------------------------------------------------------------------------------------ T1: a failed start delivery
# 'the run is closed as failed' needs the engine to know about a run as soon as one callback may have seen its start: the bundler
# contract proved under C01 (run_is_open is set before the start document goes out), re-used here because C19's clause R rests on it
task("bundler.open_run.emit_fails", PROP, functions=[f"{_c01.Q}.open_run"],
     expect=[f"{_c01.Q}.open_run#ensures[a run whose start document went out is reported open - also when delivering it (or the interruptions "
             "descriptor) fails - so the engine will close it]"],
     covers=["start delivery fails", "descriptor delivery fails"])(_c01.open_emit_fails)


# ------------------------------------------------------------------------------------------------ end to end: RE(plan) with callbacks
RUN_D = (f"{RE}.__call__#ensures[every callback receives every document of its kinds once, in emission order, callbacks in subscription order - "
         "whatever the callbacks raise, subscribe or unsubscribe meanwhile]")
RUN_P = (f"{RE}.__call__#ensures[callback exceptions ignored: the plan runs to its end; not ignored: RE(plan) raises the callback's exception; "
         "the engine is idle afterwards]")
RUN_R = f"{RE}.__call__#ensures[exceptions not ignored: every run open when the callback raises is closed as failed, earlier runs keep their status]"
RUN_K = f"{RE}.__call__#ensures[exceptions not ignored: also a callback raising on a stop document ends the call with its exception and that run is closed as failed]"


class Script(AbsGen):
    """a concrete plan: yields the given messages one after the other and handles nothing thrown into it"""

    def __init__(self, eng, msgs):
        self.eng, self.w, self.name = eng, eng.w, "plan"
        self.canon_name = "plan"
        self.frame = None
        self.msgs = msgs
        self.k = 0
        self.started = self.done = False
        self.last_msg = None

    def resume(self, tok):
        I = self.eng.I
        if tok[0] == "close":
            self.done = True
            return ("return", None)
        if self.done:
            if tok[0] == "throw":
                raise PyRaise(tok[1])
            raise PyRaise(I.mkexc("StopIteration"))
        if tok[0] == "throw":
            self.done = True
            raise PyRaise(tok[1])
        self.started = True
        if self.k >= len(self.msgs):
            self.done = True
            return ("return", None)
        self.last_msg = self.msgs[self.k]
        self.k += 1
        return ("yield", self.last_msg)

    def canon(self, cn):
        return ("script", self.k, self.done)


def _event(det, run):
    return [MsgVal("create", None, (), {"name": "primary"}, run), MsgVal("read", det, (), {}, run), MsgVal("save", None, (), {}, run)]


def shape_msgs(shape, det):
    """the plan of a shape (kept in step with replay/dispatcher.py: shape_plan) and the documents it produces when nothing fails"""
    M = MsgVal
    if shape == "one run":
        return ([M("open_run", None, (), {}, None)] + _event(det, None) + _event(det, None) + [M("close_run", None, (), {}, None)],
                [("start", 0), ("descriptor", 0), ("event", 0), ("event", 0), ("stop", 0)])
    if shape == "interruptions recorded":
        return ([M("open_run", None, (), {}, None)] + _event(det, None) + [M("close_run", None, (), {}, None)],
                [("start", 0), ("descriptor", 0), ("descriptor", 0), ("event", 0), ("stop", 0)])
    if shape == "two runs":
        return ([M("open_run", None, (), {}, "a"), M("open_run", None, (), {}, "b")] + _event(det, "b") + [M("close_run", None, (), {}, "b")] + _event(det, "a"),
                [("start", 0), ("start", 1), ("descriptor", 1), ("event", 1), ("stop", 1), ("descriptor", 0), ("event", 0), ("stop", 0)])
    raise EngineError(shape)


SHAPES = ["one run", "interruptions recorded", "two runs"]
RUN_FUNCTIONS = [f"{RE}.{n}" for n in ("__init__", "__call__", "_run", "_clear_call_cache", "_create_result", "_open_run", "_close_run", "_create", "_read",
                                       "_save", "subscribe", "unsubscribe", "emit", "emit_sync", "ignore_callback_exceptions", "_stop_movable_objects")] + \
    [f"{D}.process", f"{D}.subscribe", f"{D}.unsubscribe", f"{CR}.process", f"{CR}.connect", f"{CR}.disconnect"] + \
    [f"{_c01.Q}.{n}" for n in ("open_run", "close_run", "create", "read", "save", "_prepare_stream", "reset_checkpoint_state", "clear_monitors", "backstop_collect")]


def _mk_run(shape):
    @task(f"run[{shape}]", PROP, bounded=RUN_BOUND, functions=RUN_FUNCTIONS, expect=[RUN_D, RUN_P, RUN_R, RUN_K],
          covers=[f"{shape}: {c}" for c in ("exceptions ignored, a callback raises", "not ignored, raises on a start document",
                                            "not ignored, raises on a stop document", "one-shot callback", "callback subscribes another",
                                            "callback unsubscribes a later one")], timeout_s=900)
    def t(I):
        w = I.w
        install(I)
        eng = Engine(I)
        env = Env(I)
        # the real bundler class (the T2 harness installs an abstract one) on the event_model contract of contracts/bundler_lib.py
        w.stubs[(MR, "RunBundler")] = I.P.class_info(MB, "RunBundler")
        w.stubs[(MB, "DocumentNames")] = w.stubs[(MR, "DocumentNames")]
        w.stubs[(MB, "maybe_collect_asset_docs")] = native(lambda I_, a, k: [])
        w.stubs[(MB, "maybe_update_hints")] = native(lambda I_, a, k: None)
        w.stubs[(MB, "check_supports")] = native(lambda I_, a, k: a[0])
        w.stubs["asyncio.gather"] = lambda I_, a, k: Ready([run_coro(I_, c) if isinstance(c, GenObj) else c for c in a])
        re_ = eng.re
        det = cfg_device(I, w, None, "det", ["x"], {"gain": 1, "ts": 0})
        msgs, full = shape_msgs(shape, det)
        if shape == "interruptions recorded":
            I.setattr(re_, "record_interruptions", True)
        ignore = w.choose([False, True], "ignore_callback_exceptions")
        I.setattr(re_, "ignore_callback_exceptions", ignore)
        role = w.choose(["raises", "raises from then on", "raises and so does the last one", "one-shot", "subscribes another", "replaces itself by another", "unsubscribes the last one", "records"], "what the middle callback does")
        at = w.choose(list(range(len(full))), "at document #") if role != "records" else None
        last_kind = w.choose(["all", "stop"], "kind the last callback subscribed to")
        sc = {"shape": shape, "ignore": ignore, "role": role, "at": at, "last_kind": last_kind}
        # ghost: the documents handed to the dispatcher (wrapped around the real Dispatcher.process)
        E, En, calls, raises = [], [], [], {}
        disp = I.getattr(re_, "dispatcher")
        real_process = I.getattr(disp, "process")

        def ledger(I_, a, k):
            E.append(a[1])
            En.append(I_.getattr(a[0], "name") if isinstance(a[0], Opaque) else a[0])
            return I_.call_value(real_process, *a, **k)
        ledger._canon_label = "dispatcher.process"
        disp.attrs["process"] = native(ledger)
        boom = Obj(BUILTIN_CLASSES["ValueError"], {"args": ("boom",), "__cause__": None}, label="boom")
        tokens, st = {}, {"acted": None, "error": None}

        def idx(doc):
            hits = [i for i, x in enumerate(E) if x is doc]
            return hits[-1] if hits else -1

        def recorder(label):
            def cb(I_, a, k):
                t_ = idx(a[1])
                calls.append((label, a[0], t_))
                if label == "c" and role == "raises and so does the last one" and t_ == at:
                    raise PyRaise(Obj(BUILTIN_CLASSES["ValueError"], {"args": ("boom of the last callback",), "__cause__": None}, label="boom_c"))
            cb._canon_label = label
            return native(cb)

        def middle(I_, a, k):
            t_ = idx(a[1])
            calls.append(("x", a[0], t_))
            if role in ("one-shot", "subscribes another", "replaces itself by another", "unsubscribes the last one") and t_ == at and st["acted"] is None:
                st["acted"] = t_
                try:
                    if role in ("one-shot", "replaces itself by another"):
                        call_method(I_, re_, "unsubscribe", tokens["x"])
                    if role in ("subscribes another", "replaces itself by another"):
                        tokens["new"] = call_method(I_, re_, "subscribe", recorder("new"))
                    if role == "unsubscribes the last one":
                        call_method(I_, re_, "unsubscribe", tokens["c"])
                except PyRaise as pr:
                    st["error"] = repr(pr.exc)
            if (role in ("raises", "raises and so does the last one") and t_ == at and not raises) or (role == "raises from then on" and t_ >= at):
                raises[t_] = "x"
                raise PyRaise(boom)
        middle._canon_label = "x"
        tokens["a"] = call_method(I, re_, "subscribe", recorder("a"))
        tokens["x"] = call_method(I, re_, "subscribe", native(middle))
        tokens["c"] = call_method(I, re_, "subscribe", recorder("c"), last_kind)
        r = eng.call("__call__", Script(eng, msgs))
        j = st["acted"]
        subs = [("a", "all", -1, None, None), ("x", "all", -1, j if role in ("one-shot", "replaces itself by another") else None, None),
                ("c", last_kind, -1, j if role == "unsubscribes the last one" else None, j if role == "unsubscribes the last one" else None)]
        if role in ("subscribes another", "replaces itself by another") and j is not None:
            subs.append(("new", "all", j, None, j))
        docs = [{"name": nm, "uid": x.get("uid"), "run_start": x.get("run_start"), "exit_status": x.get("exit_status")} if isinstance(x, dict) else {"name": nm}
                for nm, x in zip(En, E)]
        outcome = ("ok",) if r[0] == "ok" else ("raise", r[1] is boom, repr(r[1]))
        delivery, out, closing, closing_at_stop = CL.run_problems(docs, calls, subs, raises, ignore, outcome, full)
        if eng.state != "idle":
            out.append(f"the engine is left in state {eng.state!r}")
        if st["error"]:
            delivery.append(f"(un)subscribing from inside the callback raised {st['error']}")
        if role in ("one-shot", "subscribes another", "replaces itself by another", "unsubscribes the last one") and j is None:
            delivery.append(f"the middle callback never saw document #{at}")
        first = None if ignore or not raises else min(raises)
        if ignore and raises:
            w.cover(f"{shape}: exceptions ignored, a callback raises")
        if first is not None and first < len(docs) and docs[first]["name"] == "start":
            w.cover(f"{shape}: not ignored, raises on a start document")
        at_stop = first is not None and first < len(docs) and docs[first]["name"] == "stop"      # the listed case of the known finding
        if at_stop:
            w.cover(f"{shape}: not ignored, raises on a stop document")
        for rl, cv in (("one-shot", "one-shot callback"), ("subscribes another", "callback subscribes another"), ("unsubscribes the last one", "callback unsubscribes a later one")):
            if role == rl:
                w.cover(f"{shape}: {cv}")
        rp = {"replay": "dispatcher.run_policy", "scenario": sc}
        w.check(RUN_D, not delivery, dict(rp, clause="delivery", problems=delivery[:4]))
        w.check(RUN_P, not out, dict(rp, clause="outcome", problems=out[:4]))
        w.check(RUN_R, not closing, dict(rp, clause="closing", problems=closing[:4]))
        w.check_kf(RUN_K, not closing_at_stop, KF, bool(at_stop), dict(rp, clause="at_stop", problems=closing_at_stop[:4]))


for _s in SHAPES:
    _mk_run(_s)
