"""C19 - callbacks see every document once, in order, and errors follow policy.

Carriers: bluesky/utils: CallbackRegistry.process; bluesky/run_engine.py: Dispatcher.process, RunEngine.emit, emit_sync,
ignore_callback_exceptions property.
Clauses: each callback subscribed to a document kind is invoked exactly once per document of that kind with that
document, in subscription order; with callback exceptions ignored a raising callback stops neither the others nor the
caller (the exceptions are returned / warned about); otherwise the first raising callback's exception propagates out of
emit (and from there, by C02, ends the plan as failed) and later callbacks are not invoked for that document.
emit / emit_sync forward each document exactly once to the dispatcher (so the emission order is the delivery order).
"""
from .lib import *
from .re_lib import *
from .C18 import install, callback, new_dispatcher, delivered, D, MU

PROP = "C19"
TRUSTED = ["see C18 (WeakKeyDictionary model, DocumentNames enumeration, plain-function callbacks)",
           "the number of subscribed callbacks is enumerated (0..3): the delivery loop is not cut by an invariant (labelled bounded)",
           "warn() is effect-free (A-LOG)"]
NOT_DECIDED = ("that a callback error raised while the *stop* document is being delivered still closes the run as failed: the stop "
               "document has been composed before the dispatcher is called (DESIGN C19 triage note); callbacks scheduled on other threads")
BOUND = "number of callbacks subscribed to the document kind <= 3"


def _mk(n):
    @task(f"process[{n} callbacks]", PROP, bounded=BOUND,
          functions=[f"{MU}:CallbackRegistry.process", f"{D}.process"],
          expect=[f"{MU}:CallbackRegistry.process#ensures[every callback once, in subscription order; error policy] (n={n})"])
    def t(I):
        w = I.w
        names = install(I)
        log = []
        d = new_dispatcher(I)
        ignore = w.choose([False, True], "ignore_exceptions")
        I.setattr(d, "ignore_exceptions", ignore)
        raising = w.choose([None] + list(range(n)), "raising callback") if n else None
        boom = Obj(BUILTIN_CLASSES["ValueError"], {"args": ("boom",), "__cause__": None}, label="boom")
        for i in range(n):
            def cb(I_, a, k, _i=i):
                log.append((_i, a))
                if _i == raising:
                    raise PyRaise(boom)
            cb._canon_label = f"cb{i}"
            call_method(I, d, "subscribe", native(cb), "event")
        doc = Opaque("doc", {"token": "doc"})
        r = catch(I, I.getattr(d, "process"), names["event"], doc)
        called = [i for i, a in log]
        args_ok = all(a[0] == "event" and a[1] is doc for i, a in log)
        if raising is None or ignore:
            ok = r[0] == "ok" and called == list(range(n)) and args_ok
        else:
            ok = r[0] == "raise" and r[1] is boom and called == list(range(raising + 1)) and args_ok
        w.check(f"{MU}:CallbackRegistry.process#ensures[every callback once, in subscription order; error policy] (n={n})", ok,
                {"replay": "dispatcher.policy"})


for _n in (0, 1, 2, 3):
    _mk(_n)


@task("emit", PROP, functions=[f"{RE}.emit", f"{RE}.emit_sync", f"{D}.process"],
      expect=[f"{RE}.emit#ensures[each document handed to the dispatcher exactly once, errors propagate to the caller]"])
def emit(I):
    w = I.w
    env = Env(I)
    calls = []
    boom = Obj(BUILTIN_CLASSES["ValueError"], {"args": ("boom",), "__cause__": None}, label="boom")
    fails = w.choose([False, True], "dispatcher raises")

    def process(I_, o, a, k):
        calls.append(tuple(a))
        if fails:
            raise PyRaise(boom)
    disp = Opaque("dispatcher", {"methods": {"process": process}})
    re_ = make_re(I, env, dispatcher=disp)
    del re_.attrs["emit"], re_.attrs["emit_sync"]        # the real methods, not the harness recorders
    doc = Opaque("doc", {"token": "doc"})
    which = w.choose(["emit", "emit_sync"], "entry point")
    if which == "emit":
        r = call_async(I, I.getattr(re_, "emit"), "event", doc)
    else:
        r = catch(I, I.getattr(re_, "emit_sync"), "event", doc)
    w.check(f"{RE}.emit#ensures[each document handed to the dispatcher exactly once, errors propagate to the caller]",
            calls == [("event", doc)] and (r[0] == "raise" and r[1] is boom if fails else r[0] == "ok"), {"replay": "dispatcher.policy"})


@task("ignore_callback_exceptions", PROP, functions=[f"{RE}.ignore_callback_exceptions", f"{D}.ignore_exceptions"],
      expect=[f"{RE}.ignore_callback_exceptions#ensures[the policy flag reaches the callback registry]"])
def policy_flag(I):
    w = I.w
    install(I)
    env = Env(I)
    d = new_dispatcher(I)
    re_ = make_re(I, env, dispatcher=d)
    v = w.choose([True, False], "value")
    I.setattr(re_, "ignore_callback_exceptions", v)
    w.check(f"{RE}.ignore_callback_exceptions#ensures[the policy flag reaches the callback registry]",
            d.cb_registry.ignore_exceptions is v and I.getattr(re_, "ignore_callback_exceptions") is v)
