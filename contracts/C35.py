"""C35 - document normalization never alters its inputs and loses nothing.

Carriers: bluesky/callbacks/tiled_writer.py: RunNormalizer.__init__ / start / stop / descriptor / event / resource /
stream_resource / stream_datum / datum / datum_page / event_page / emit, _convert_resource_to_stream_resource,
_convert_datum_to_stream_datum; _ConditionalBackup.__init__ / __call__.

RunNormalizer.  The real method bodies are executed symbolically (numbers in the documents are SMT terms: seq_num, frame,
carry/index counters, data values, time stamps) from an *arbitrary* state of the normalizer: the real constructor is run and
its caches are then replaced by generic contents (the entries the call touches plus one unrelated entry in every cache).
Every call is judged by these clauses (text shared with the native replay: contracts/refs/c35.py):
  frame      no received document - the argument of this call and every document received earlier - is modified, nested
             dictionaries and lists included (deep snapshot before == value after)
  invariant  afterwards no container reachable from the normalizer's state is reachable from a received document, so a
             *later* call cannot modify an earlier input either (induction over the document sequence: the invariant holds
             for the constructed object, every method preserves it, and a method reaches earlier inputs only through its state)
  validated  every document handed to dispatcher.process was validated by schema_validators[<same name>] immediately before
  raises / emits / state   the call refines the abstract transition `step` of the reference (written from the statement):
             the emitted documents, in order, the exception, and the new abstract state (which also frames the state:
             unrelated cache entries stay)
  datum      statement level, read off the emitted documents: every datum referenced by the event (or by a pending reference
             at stop) whose document is available becomes exactly one stream datum with seq_nums = indices + 1 and
             indices = [seq_num - 1, seq_num) (frame-indexed datums: contiguous ranges, see reference); a datum that has not
             arrived is remembered and converted by stop
Lemma (whole runs from the constructed object, both arrival orders of datum and event): every referenced datum yields
exactly one stream datum, its stream resource is emitted once and before it, nothing received is modified.

_ConditionalBackup.__call__ is a step contract over the abstract state (received documents, pushed flag); the flush loop
over a buffer of arbitrary length is cut with the loop invariant "the backups have been called, in order and once each,
for exactly the buffered documents before position i" (LoopSpec below), so the proof is unbounded in the run length:
  inv:  not pushed: buffer == received, backups not called;  pushed: buffer empty, backups called once per received
        document, in order (each backup for each document; a failing backup does not stop the others).
"""
import ast
import collections
import os
import posixpath
import types

from .lib import *
from pyvc.interp import BreakSig, ContinueSig

PROP = "C35"
MT = "bluesky.callbacks.tiled_writer"
Q = f"{MT}:RunNormalizer"
QB = f"{MT}:_ConditionalBackup"
REF_FILE = "contracts/refs/c35.py"
ROOT = os.path.dirname(os.path.dirname(os.path.abspath(__file__)))
TRUSTED = [
    "event_model: schema_validators[name].validate(doc) does not modify doc and has no effect on the normalizer (whether a document is "
    "schema-valid is decided by that external validator; in the step contracts it accepts); DocumentNames.<name> names the document",
    "event_model.unpack_datum_page / unpack_event_page yield one fresh document per row sharing no container with the page (reference: "
    "contracts/refs/c35.py unpack_*); StreamDatum / StreamRange (TypedDicts) build plain dicts; collections.namedtuple builds tuples",
    "copy.copy = new top-level container sharing the children, copy.deepcopy = disjoint clone; Dispatcher.process(name, doc) hands the "
    "document on and is otherwise opaque; subscribers and user patch functions do not modify what they are given",
    "pathlib: str(Path(a).joinpath(b)) is the posix join; root and resource_path are concrete strings in the scenarios",
    "standard library per pyvc/stdstubs + builtins_: collections.defaultdict (incl. defaultdict | dict keeps the default_factory), deque "
    "(append at the right end, iteration in insertion order, clear), itertools.chain, typing.cast; logging calls are effect-free (A-LOG)",
    "shape bound (enumerated shapes, symbolic numbers): an event has one internal key (+ optionally one with a reserved name) and up to "
    "two external keys in every fill / arrival state; stop sees up to two pending references; pages have two rows; each cache holds "
    "the entries the call touches plus one unrelated entry; uids, data-key names and specs are concrete representatives (used as "
    "dictionary keys only)",
    "well-formed input: every data key of an event was announced by a descriptor of the run as internal or as external (the same in "
    "all descriptors), 'filled' only mentions external keys, a datum is referenced by at most one event key, a Resource precedes its datums",
    "_ConditionalBackup: the run has at most maxlen (default 1,000,000) documents before the primary's first failure - a longer "
    "buffer drops its oldest documents by design (deque maxlen); a failing callback raises an Exception (not a bare BaseException); "
    "1 or 2 backup callbacks",
]
NOT_DECIDED = ("schema validity itself (external jsonschema validators) and what is emitted when validation fails midway through a call; "
               "documents of several runs interleaved into one normalizer (the RunRouter gives each run its own); the tiled client side (C46); "
               "buffers longer than maxlen; backup callbacks that modify the documents; subscribers that modify what they get (start / stop / "
               "stream_datum are handed on as shallow copies, so the emitted document shares its nested dictionaries with the received one); "
               "a data key announced as internal by one descriptor and as external by another one of the same run (then an unfilled value "
               "without an explicit filled=False flag is treated as internal and its datum is never converted)")
_ns = {"Eq": Eq, "And": And, "ite": ite}
exec(compile(open(os.path.join(ROOT, REF_FILE)).read(), REF_FILE, "exec"), _ns)
R = types.SimpleNamespace(**_ns)
HDF5 = R.HDF5

TEXT = {
    "frame": "frame[no received document is modified, nested dictionaries included: this argument and every earlier document]",
    "separate": "invariant[afterwards the normalizer's state shares no container with any received document]",
    "validated": "ensures[every dispatched document was validated under its own name immediately before]",
    "patchcopy": "ensures[a patch function is applied to a copy, never to the received document]",
    "raises": "raises[only the documented exception, exactly when the reference says so]",
    "emits": "ensures[emitted documents equal the reference: kind, order and content]",
    "state": "ensures[state afterwards equals the reference; unrelated cache entries untouched]",
    "datum": "ensures[every available referenced datum becomes exactly one stream datum, seq_nums = indices + 1, indices = [seq_num - 1, seq_num) unless frame-indexed; missing ones wait]",
}


EMITS = {
    "start": "exactly the received document, once, as 'start'",
    "stream_datum": "exactly the received document, once, as 'stream_datum'",
    "descriptor": "one descriptor keeping every field and every data key (reserved names prefixed with _), only the dtype spelling / object_name normalised",
    "event": "first one event keeping every internal or filled value and time stamp (reserved names prefixed with _); then, per available referenced "
             "datum in order, its stream resource (only if not emitted before) and one stream datum with the reference's ranges",
    "stop": "per pending reference in order: its stream resource (only if not emitted before) and one stream datum with the reference's ranges; "
            "then the received stop document, last",
    "resource": "nothing (the converted stream resource is only cached)",
    "stream_resource": "one latest-schema stream resource keeping uid / uri / data_key / every parameter (hdf5: 'path' renamed to 'dataset')",
    "datum": "nothing (the datum waits for its event)",
    "datum_page": "nothing (every row is cached like a datum)",
    "event_page": "what the rows emit as single events, in row order",
}


def ob(m, key):
    if key == "emits":
        return f"{Q}.{m}#ensures[emits {EMITS[m]} (equal to the reference in kind, order and content)]"
    return f"{Q}.{m}#{TEXT[key]}"


def expected(m, keys=("frame", "separate", "validated", "raises", "emits", "state")):
    return [ob(m, k) for k in keys]


def docname(x):
    return x.dotted.split(".")[-1] if hasattr(x, "dotted") else x


def S(name, kind="int"):
    return {"$": name, "k": kind}


# ----------------------------------------------------------------------------- assumed contracts (stubs)
def install(I, log, validation=None):
    """`log` receives ('validate', name, doc) / ('process', name, doc)"""
    w = I.w
    for dotted in ("event_model.documents.stream_datum.StreamRange", "event_model.documents.StreamDatum",
                   "event_model.documents.stream_datum.StreamDatum"):
        w.stubs[dotted] = lambda I_, a, k: dict(k)

    def validator(I_, o, name):
        n = docname(name)

        def validate(I2, o2, a, k):
            log.append(("validate", n, a[0]))
            if validation is not None:
                return validation(I2, n, a[0])
            return None
        return Opaque(f"validator[{n}]", {"methods": {"validate": validate}, "isinstance_default": False})
    w.stubs[(MT, "schema_validators")] = Opaque("schema_validators", {"getitem": validator})

    def namedtuple(I_, a, k):
        fields = list(a[1])

        def mk(I2, a2, k2):
            vals = list(a2) + [k2[f] for f in fields[len(a2):]]
            if len(vals) != len(fields):
                raise EngineError("namedtuple arity")
            return tuple(vals)
        return native(mk)
    w.stubs["collections.namedtuple"] = namedtuple

    def path(I_, a, k):
        if not isinstance(a[0], str):
            raise EngineError("Path of a non-concrete string")

        def mk(s_):
            p_ = Opaque(f"Path({s_})", {"methods": {"joinpath": lambda I2, o2, a2, k2: mk(posixpath.join(s_, *a2))},
                                        "isinstance_default": False})
            p_.attrs["$repr"] = s_          # str(path)
            return p_
        return mk(a[0])
    w.stubs["pathlib.Path"] = path
    w.stubs["event_model.unpack_datum_page"] = lambda I_, a, k: R.unpack_datum_page(a[0])
    w.stubs["event_model.unpack_event_page"] = lambda I_, a, k: R.unpack_event_page(a[0])
    disp = Opaque("dispatcher", {"methods": {"process": lambda I_, o, a, k: log.append(("process", docname(a[0]), a[1]))},
                                  "isinstance_default": False})
    w.stubs[(MT, "Dispatcher")] = native(lambda I_, a, k: disp)
    return disp


def mimetypes(I, extra):
    m = dict(I.global_lookup(I.P.module(MT), "MIMETYPE_LOOKUP"))
    m.update(extra or {})
    return m


# ----------------------------------------------------------------------------- generic runner of a scenario
def play(I, desc, final=None, quiet=False):
    """run the calls of the scenario `desc` (pure data, see refs/c35.py decode) on the real code and check every clause after
    every call"""
    w = I.w
    log, patch_args, syms = [], [], {}
    install(I, log)

    def sym(name, kind):
        if name not in syms:
            syms[name] = w.int(name) if kind == "int" else w.real(name)
        return syms[name]

    def patch(I_, a, k):
        patch_args.append(a[0])
        return dict(a[0], patched=True)
    patches = {m: native(patch) for m in desc.get("patches", [])}
    o = construct(I, Q, patches or None, desc.get("spec_to_mimetype"))
    for attr, val in desc.get("pre", {}).items():
        v = R.decode(val, sym)
        if attr == "_next_frame_index":
            o.attrs[attr].update(v)
        else:
            o.attrs[attr] = v
    cfg = {"patches": list(patches), "mimetypes": mimetypes(I, desc.get("spec_to_mimetype"))}
    received, history = [], []

    def call(m, doc):
        r = catch(I, I.getattr(o, m), doc)
        return None if r[0] == "ok" else r[1].cls.name
    for idx, (m, d) in enumerate(desc["calls"]):
        doc = R.decode(d, sym)
        if m == "event" and not R.event_precondition(R.view(lambda a: o.attrs[a]), R._patched(cfg, m, doc)):
            raise EngineError(f"scenario violates the stated precondition of event: {d}")
        rec = R.run_call(lambda a: o.attrs[a], call, m, doc, cfg, received, log, patch_args)
        for key, cond in ([] if quiet else R.all_clauses(rec).items()):
            w.check(ob(m, key), cond, {"replay": "normalizer.step", "scenario": desc, "step": idx, "clause": key})
        history.append(rec)
        w.cover(f"{m}: {'raises ' + rec['exc'] if rec['exc'] else 'returns'}")
    if final is not None:
        final(w, desc, history)
    return history


# ----------------------------------------------------------------------------- scenario pieces
def sres_doc(uid, mimetype, params):
    return {"uid": uid, "mimetype": mimetype, "parameters": params, "uri": f"file://localhost/data/{uid}.bin", "data_key": ""}


def base_pre():
    """an arbitrary state as far as a call can tell: one unrelated entry in every cache"""
    return {
        "_int_keys": {"$set": ["x", "other_int"]}, "_ext_keys": {"$set": ["img", "img2", "other_ext"]},
        "_desc_name_by_uid": {"d1": "primary", "d0": "baseline"},
        "_datum_cache": {"rother/0": {"datum_id": "rother/0", "resource": "rother", "datum_kwargs": {"frame": S("other_frame")}}},
        "_sres_cache": {"rother": sres_doc("rother", HDF5, {"dataset": "/entry/other", "chunk": [1, S("other_chunk")]})},
        "_emitted": {"$set": ["rother-other_ext"]},
        "_ext_ref_cache": [],
        "_next_frame_index": {"$items": [[{"$tuple": ["baseline", "other_ext"]}, {"carry": S("other_carry"), "index": S("other_index")}]]},
    }


def add_datum(pre, w, datum_id, res, key, how, stream="primary"):
    """put the datum `datum_id` of resource `res` into the cache; how: 'cached' (no frame) | 'frame'"""
    kw = {"point": S(f"point_{key}")}
    if how == "frame":
        kw = {"frame": S(f"frame_{key}"), "gain": [S(f"gain_{key}", "real"), 2]}
        if w.choose([True, False], f"an earlier frame-indexed datum of {key} was converted"):
            pre["_next_frame_index"]["$items"].append([{"$tuple": [stream, key]}, {"carry": S(f"carry_{key}"), "index": S(f"index_{key}")}])
    pre["_datum_cache"][datum_id] = {"datum_id": datum_id, "resource": res, "datum_kwargs": kw}


def add_resource(pre, w, res, keys):
    how = w.choose(["fresh", "emitted", "unknown"], f"stream resource of {res}")
    if how != "unknown":
        mt = w.choose([HDF5, "multipart/related;type=image/tiff"], "mimetype")
        pre["_sres_cache"][res] = sres_doc(res, mt, {"dataset": "/entry/data", "shape": [S("ny"), S("nx")]} if mt == HDF5 else {"template": "img_%d.tiff"})
    if how == "emitted":
        pre["_emitted"]["$set"].extend(f"{res}-{k}" for k in keys)


# ----------------------------------------------------------------------------- tasks: emit
@task("emit", PROP, functions=[f"{Q}.emit"],
      expect=[f"{Q}.emit#ensures[validated by schema_validators[name] first, then dispatched: same name, same document; nothing dispatched when validation fails]"],
      covers=["emit: valid", "emit: invalid"])
def emit(I):
    w = I.w
    log = []
    valid = w.choose([True, False], "document is schema-valid")
    err = I.mkexc("Exception", "ValidationError")

    def validation(I_, n, d):
        if not valid:
            raise PyRaise(err)
    install(I, log, validation)
    o = construct(I, Q)
    name = w.choose(list(R.DOC_METHODS[:8]), "document name")
    doc = {"uid": "u1", "time": w.real("t"), "nested": {"a": [w.int("a")]}}
    snap = R.freeze(doc)
    r = catch(I, I.getattr(o, "emit"), ExternalRefName(name), doc)
    if valid:
        ok = r[0] == "ok" and len(log) == 2 and log[0][0] == "validate" and log[1][0] == "process" and log[0][1] == log[1][1] == name \
            and log[0][2] is doc and log[1][2] is doc
    else:
        ok = r[0] == "raise" and r[1] is err and len(log) == 1 and log[0] == ("validate", name, doc) and log[0][2] is doc
    w.cover("emit: valid" if valid else "emit: invalid")
    w.check(f"{Q}.emit#ensures[validated by schema_validators[name] first, then dispatched: same name, same document; nothing dispatched when validation fails]",
            And(ok, R.same(snap, doc)), {"replay": "normalizer.emit", "valid": valid, "name": name})


def ExternalRefName(name):
    from pyvc.vals import ExternalRef
    return ExternalRef(f"event_model.DocumentNames.{name}")


# ----------------------------------------------------------------------------- tasks: documents passed through
@task("passthrough", PROP, functions=[f"{Q}.start", f"{Q}.stream_datum", f"{Q}.__init__", f"{Q}.emit"],
      expect=expected("start") + expected("stream_datum") + [ob("start", "patchcopy")], covers=["start: returns", "stream_datum: returns"])
def passthrough(I):
    w = I.w
    m = w.choose(["start", "stream_datum"], "method")
    pre = base_pre()
    if m == "start":
        doc = {"uid": "s1", "time": S("t", "real"), "scan_id": S("scan_id"), "hints": {"dimensions": [[["x"], "primary"]]},
               "plan_args": {"num": S("num"), "detectors": ["det"]}}
    else:
        doc = {"uid": "sd1", "stream_resource": "sr1", "descriptor": "d1", "indices": {"start": S("i0"), "stop": S("i1")},
               "seq_nums": {"start": S("s0"), "stop": S("s1")}}
    desc = {"pre": pre, "calls": [[m, doc]]}
    if w.choose([False, True], "patched"):
        desc["patches"] = [m]
    play(I, desc)


# ----------------------------------------------------------------------------- tasks: descriptor
@task("descriptor", PROP, functions=[f"{Q}.descriptor", f"{Q}.emit"], expect=expected("descriptor"),
      covers=["descriptor: returns", "descriptor: raises ValueError"])
def descriptor(I):
    w = I.w
    pre = base_pre()
    style = w.choose(["plain", "dtype_numpy", "dtype_str", "dtype_descr", "unknown dtype"], "dtype spelling of x")
    x = {"dtype": "number", "shape": [], "source": "PV:x", "limits": {"control": {"low": S("lo", "real"), "high": S("hi", "real")}}}
    if style == "dtype_numpy":
        x["dtype_numpy"] = "<i4"
    elif style == "dtype_str":
        x["dtype_str"] = "<u2"
    elif style == "dtype_descr":
        x["dtype_descr"] = [["a", "<f8"], ["b", "<i8"]]
    elif style == "unknown dtype":
        x["dtype"] = "weird"
    dk = {"x": x}
    ok = {"det": ["x"]}
    reserved = w.choose(["none", "time", "seq_num", "time and _time"], "reserved data key names")
    if reserved != "none":
        name = reserved.split()[0]
        dk[name] = {"dtype": "integer", "shape": [], "source": "PV:t"}
        ok["det"].append(name)
        ok["clock"] = [name]
        if reserved.endswith("_time"):
            dk["_time"] = {"dtype": "integer", "shape": [], "source": "PV:t2"}
    if w.choose([True, False], "an external key"):
        dk["img"] = {"dtype": "array", "shape": [S("ny"), S("nx")], "source": "PV:img", "external": "FILESTORE:"}
        ok["det"].append("img")
    conf = {}
    if w.choose([False, True], "configuration"):
        conf = {"det": {"data": {"exposure": S("exposure", "real")}, "timestamps": {"exposure": S("texp", "real")},
                        "data_keys": {"exposure": {"dtype": "number", "shape": [], "source": "PV:e", "dtype_str": "<f4"}}}}
    doc = {"uid": "d2", "run_start": "s1", "time": S("t", "real"), "name": "primary", "data_keys": dk, "object_keys": ok,
           "configuration": conf, "hints": {"det": {"fields": ["x"]}}}
    desc = {"pre": pre, "calls": [["descriptor", doc]]}
    if w.choose([False, True], "patched"):
        desc["patches"] = ["descriptor"]
    play(I, desc)


# ----------------------------------------------------------------------------- tasks: event
IMG_STATES = ["absent", "cached", "frame", "missing", "filled"]


def event_scenario(w, img, page=False):
    pre = base_pre()
    data = {"x": S("x", "real")}
    ts = {"x": S("tx", "real")}
    flags = {}
    reserved = w.choose(["none", "time", "seq_num"], "an internal key with a reserved name")
    if reserved != "none":
        pre["_int_keys"]["$set"].append("_" + reserved)
        data[reserved] = S("rv")
        ts[reserved] = S("trv", "real")
    img2 = w.choose(["absent", "cached", "missing"], "second external key") if img != "absent" else "absent"
    keys = []
    for key, how, datum_id in (("img", img, "r1/0"), ("img2", img2, "r1/1")):
        if how == "absent":
            continue
        ts[key] = S(f"t_{key}", "real")
        if how == "filled":
            data[key] = S(f"v_{key}", "real")
            flags[key] = True
            continue
        keys.append(key)
        data[key] = datum_id
        flags[key] = False
        if how in ("cached", "frame"):
            add_datum(pre, w, datum_id, "r1", key, how)
    if any(h in ("cached", "frame") for h in (img, img2)):
        add_resource(pre, w, "r1", keys)
    if img != "frame" and w.choose([False, True], "a reference of an earlier event is still pending"):
        pre["_ext_ref_cache"].append({"$tuple": ["rlate/3", "other_ext", "d0", S("late_seq")]})
    style = w.choose(["full", "sparse", "no filled key"] if True not in flags.values() else ["full", "sparse"], "filled")
    doc = {"uid": "e1", "descriptor": "d1", "time": S("t", "real"), "seq_num": S("seq"), "data": data, "timestamps": ts}
    if style == "full":
        doc["filled"] = flags
    elif style == "sparse":
        doc["filled"] = {k: v for k, v in flags.items() if v}
    return pre, doc


def _mk_event(img):
    @task(f"event[img {img}]", PROP, functions=[f"{Q}.event", f"{Q}._convert_datum_to_stream_datum", f"{Q}.emit"],
          expect=expected("event") + [ob("event", "datum")], covers=["event: returns"])
    def t(I):
        w = I.w
        pre, doc = event_scenario(w, img)
        desc = {"pre": pre, "calls": [["event", doc]]}
        if img in ("absent", "cached", "missing") and w.choose([False, True], "patched"):
            desc["patches"] = ["event"]
        play(I, desc)
    return t


for _img in IMG_STATES:
    _mk_event(_img)


# ----------------------------------------------------------------------------- tasks: stop
@task("stop", PROP, functions=[f"{Q}.stop", f"{Q}._convert_datum_to_stream_datum", f"{Q}.emit"],
      expect=expected("stop") + [ob("stop", "datum")], covers=["stop: returns", "stop: raises RuntimeError"])
def stop(I):
    w = I.w
    pre = base_pre()
    n = w.choose([0, 1, 2], "pending references")
    keys = []
    for i in range(n):
        key, datum_id = ("img", "r1/0") if i == 0 else ("img2", "r1/1")
        how = w.choose(["cached", "frame", "missing"], f"datum of reference {i}")
        pre["_ext_ref_cache"].append({"$tuple": [datum_id, key, "d1", S(f"seq{i}")]})
        keys.append(key)
        if how != "missing":
            add_datum(pre, w, datum_id, "r1", key, how)
    if n:
        add_resource(pre, w, "r1", keys[:1] if n == 2 and w.choose([False, True], "only the first stream resource was emitted") else keys)
    doc = {"uid": "stop1", "run_start": "s1", "time": S("t", "real"), "exit_status": "success", "reason": "", "num_events": {"primary": S("n")}}
    desc = {"pre": pre, "calls": [["stop", doc]]}
    if w.choose([False, True], "patched"):
        desc["patches"] = ["stop"]
    play(I, desc)


# ----------------------------------------------------------------------------- tasks: resource / stream_resource
KWARGS = {"path": {"path": "/entry/data/data", "frame_per_point": S("fpp")}, "dataset": {"dataset": "/entry/d", "swmr": True},
          "path and dataset": {"path": "/p", "dataset": "/d", "chunks": [S("c0"), S("c1")]}, "empty": {}, "other": {"template": "%s_%d.tif", "nested": {"a": [S("a")]}}}


def resource_cases(I):
    specs = sorted(mimetypes(I, None)) + ["NOT_IN_THE_TABLE"]
    cases = [(s, "path and dataset", None, None) for s in specs]
    cases += [(s, k, None, None) for s in ("AD_HDF5_SWMR_STREAM", "AD_TIFF") for k in KWARGS if k != "path and dataset"]
    cases += [("AD_TIFF", "other", miss, None) for miss in ("spec", "root", "resource_path", "resource_kwargs")]
    cases += [("MY_SPEC", "path", None, {"MY_SPEC": HDF5}), ("AD_TIFF", "path", None, {"AD_TIFF": HDF5})]
    return cases


def legacy_resource(uid, spec, kwargs, missing):
    doc = {"uid": uid, "spec": spec, "root": "/data/raw/", "resource_path": "/2026/scan_7.h5", "resource_kwargs": R.freeze(KWARGS[kwargs]),
           "path_semantics": "posix", "run_start": "s1"}
    if missing:
        del doc[missing]
    return doc


@task("resource", PROP, functions=[f"{Q}.resource", f"{Q}._convert_resource_to_stream_resource", f"{Q}.__init__"], expect=expected("resource"),
      covers=["resource: returns", "resource: raises RuntimeError"])
def resource(I):
    w = I.w
    cases = resource_cases(I)
    spec, kwargs, missing, stm = cases[w.choose(list(range(len(cases))), "case")]
    w.decisions[-1] = ("case", f"{spec} / {kwargs} / missing {missing} / spec_to_mimetype {stm}")
    desc = {"pre": base_pre(), "calls": [["resource", legacy_resource("r7", spec, kwargs, missing)]]}
    if stm:
        desc["spec_to_mimetype"] = stm
    if spec in ("AD_HDF5_SWMR_STREAM", "AD_TIFF") and not missing and w.choose([False, True], "patched"):
        desc["patches"] = ["resource"]
    play(I, desc)


@task("stream_resource", PROP, functions=[f"{Q}.stream_resource", f"{Q}._convert_resource_to_stream_resource", f"{Q}.emit"],
      expect=expected("stream_resource"), covers=["stream_resource: returns", "stream_resource: raises RuntimeError"])
def stream_resource(I):
    w = I.w
    style = w.choose(["current", "legacy"], "schema")
    if style == "current":
        mt = w.choose([HDF5, "multipart/related;type=image/tiff"], "mimetype")
        params = w.choose(list(KWARGS), "parameters")
        doc = {"uid": "sr7", "mimetype": mt, "uri": "file://localhost/data/a.h5", "parameters": R.freeze(KWARGS[params]), "run_start": "s1"}
        if w.choose([True, False], "data_key present"):
            doc["data_key"] = "img"
    else:
        spec = w.choose(["AD_HDF5_SWMR_STREAM", "AD_TIFF", "NOT_IN_THE_TABLE"], "spec")
        kwargs = w.choose(list(KWARGS), "resource_kwargs")
        missing = w.choose([None, "root", "resource_kwargs"], "missing key")
        doc = legacy_resource("sr7", spec, kwargs, missing)
        doc["data_key"] = "img"
    desc = {"pre": base_pre(), "calls": [["stream_resource", doc]]}
    if w.choose([False, True], "patched"):
        desc["patches"] = ["stream_resource"]
    play(I, desc)


# ----------------------------------------------------------------------------- tasks: datum (and what later calls do to it)
def datum_doc(w, datum_id, res, tag):
    kw = w.choose(["frame", "frame and more", "plain", "empty", "no datum_kwargs"], "datum_kwargs")
    doc = {"datum_id": datum_id, "resource": res}
    if kw == "frame":
        doc["datum_kwargs"] = {"frame": S(f"frame_{tag}")}
    elif kw == "frame and more":
        doc["datum_kwargs"] = {"frame": S(f"frame_{tag}"), "roi": [S("r0"), S("r1")], "opts": {"gain": S("gain", "real")}}
    elif kw == "plain":
        doc["datum_kwargs"] = {"point_number": S(f"pn_{tag}")}
    elif kw == "empty":
        doc["datum_kwargs"] = {}
    return doc


@task("datum", PROP, functions=[f"{Q}.datum", f"{Q}.event", f"{Q}.stop", f"{Q}._convert_datum_to_stream_datum"],
      expect=expected("datum") + [ob("event", "frame"), ob("stop", "frame"), ob("event", "datum"), ob("stop", "datum")],
      covers=["datum: returns", "event: returns", "stop: returns"])
def datum(I):
    w = I.w
    pre = base_pre()
    add_resource(pre, w, "r1", ["img"])
    d = datum_doc(w, "r1/0", "r1", "img")
    ev = {"uid": "e1", "descriptor": "d1", "time": S("t", "real"), "seq_num": S("seq"), "data": {"x": S("x", "real"), "img": "r1/0"},
          "timestamps": {"x": S("tx", "real"), "img": S("ti", "real")}, "filled": {"img": False}}
    stop_doc = {"uid": "stop1", "run_start": "s1", "time": S("t9", "real"), "exit_status": "success"}
    order = w.choose(["datum, event, stop", "event, datum, stop"], "arrival order")
    calls = [["datum", d], ["event", ev]] if order.startswith("datum") else [["event", ev], ["datum", d]]
    desc = {"pre": pre, "calls": calls + [["stop", stop_doc]]}
    if w.choose([False, True], "patched"):
        desc["patches"] = ["datum"]
    play(I, desc)


# ----------------------------------------------------------------------------- tasks: pages
@task("pages", PROP, functions=[f"{Q}.datum_page", f"{Q}.event_page", f"{Q}.datum", f"{Q}.event"],
      expect=expected("datum_page") + expected("event_page") + [ob("event_page", "datum")], covers=["datum_page: returns", "event_page: returns"])
def pages(I):
    w = I.w
    pre = base_pre()
    add_resource(pre, w, "r1", ["img"])
    cols = w.choose(["frame", "plain", "none"], "datum_kwargs columns")
    dk = {"frame": {"frame": [S("f0"), S("f1")], "gain": [S("g0", "real"), S("g1", "real")]}, "plain": {"point": [S("p0"), S("p1")]}, "none": {}}[cols]
    dpage = {"resource": "r1", "datum_id": ["r1/0", "r1/1"], "datum_kwargs": dk}
    second = w.choose(["r1/1", "r1/9"], "datum referenced by the second row")
    epage = {"descriptor": "d1", "uid": ["e1", "e2"], "time": [S("t1", "real"), S("t2", "real")], "seq_num": [S("seq1"), S("seq2")],
             "data": {"x": [S("x1", "real"), S("x2", "real")], "img": ["r1/0", second]},
             "timestamps": {"x": [S("tx1", "real"), S("tx2", "real")], "img": [S("ti1", "real"), S("ti2", "real")]},
             "filled": {"img": [False, False]}}
    order = w.choose(["datum_page first", "event_page first"], "order")
    calls = [["datum_page", dpage], ["event_page", epage]]
    play(I, {"pre": pre, "calls": calls if order.startswith("datum") else calls[::-1]})


# ----------------------------------------------------------------------------- lemma: whole runs from the constructed object
def run_lemma(w, desc, history):
    w.check("lemma:C35.run[each referenced datum -> exactly one stream datum, its stream resource once and before it; every event re-emitted; no input modified]",
            R.run_lemma(history, desc["lemma"]["referenced"], desc["lemma"]["events"]),
            {"replay": "normalizer.step", "scenario": desc, "step": len(history) - 1, "clause": "lemma"})


@task("run", PROP, functions=[f"{Q}.__init__", f"{Q}.start", f"{Q}.descriptor", f"{Q}.resource", f"{Q}.datum", f"{Q}.event", f"{Q}.stop"],
      expect=["lemma:C35.run[each referenced datum -> exactly one stream datum, its stream resource once and before it; every event re-emitted; no input modified]",
              ob("datum", "separate"), ob("resource", "separate")])
def run(I):
    w = I.w
    spec = w.choose(["AD_HDF5_SWMR_STREAM", "AD_TIFF"], "spec")
    framed = w.choose([False, True], "frame-indexed datums")
    start = {"uid": "s1", "time": S("t0", "real"), "scan_id": S("scan_id")}
    desc_doc = {"uid": "d1", "run_start": "s1", "time": S("t1", "real"), "name": "primary",
                "data_keys": {"x": {"dtype": "number", "shape": [], "source": "PV:x"},
                              "img": {"dtype": "array", "shape": [S("ny"), S("nx")], "source": "PV:img", "external": "FILESTORE:"}},
                "object_keys": {"det": ["x", "img"]}, "configuration": {}, "hints": {}}
    res = legacy_resource("r1", spec, "path", None)
    dat = [{"datum_id": f"r1/{i}", "resource": "r1", "datum_kwargs": ({"frame": S(f"frame{i}")} if framed else {"point_number": S(f"pn{i}")})} for i in range(2)]
    evs = [{"uid": f"e{i}", "descriptor": "d1", "time": S(f"te{i}", "real"), "seq_num": S(f"seq{i}"), "data": {"x": S(f"x{i}", "real"), "img": f"r1/{i}"},
            "timestamps": {"x": S(f"tx{i}", "real"), "img": S(f"ti{i}", "real")}, "filled": {"img": False}} for i in range(2)]
    order = w.choose(["datums first", "events first", "interleaved", "event, datum, datum, event"], "arrival order")
    D, E = [["datum", d] for d in dat], [["event", e] for e in evs]
    mid = {"datums first": D + E, "events first": E + D, "interleaved": [D[0], E[0], D[1], E[1]], "event, datum, datum, event": [E[0], D[0], D[1], E[1]]}[order]
    calls = [["start", start], ["descriptor", desc_doc], ["resource", res]] + mid + [["stop", {"uid": "stop1", "run_start": "s1", "time": S("t9", "real"), "exit_status": "success"}]]
    play(I, {"calls": calls, "lemma": {"referenced": ["r1/0", "r1/1"], "events": 2}}, final=run_lemma)


# ----------------------------------------------------------------------------- must-fail twin
@task("twin", PROP, twin="twin:seq_nums equal indices", functions=[f"{Q}.event"])
def twin(I):
    w = I.w
    pre = base_pre()
    add_datum(pre, w, "r1/0", "r1", "img", "cached")
    doc = {"uid": "e1", "descriptor": "d1", "time": S("t", "real"), "seq_num": S("seq"), "data": {"x": S("x", "real"), "img": "r1/0"},
           "timestamps": {"x": S("tx", "real"), "img": S("ti", "real")}, "filled": {"img": False}}
    h = play(I, {"pre": pre, "calls": [["event", doc]]}, quiet=True)
    sd = [d for n, d in R.emitted_docs(h[0]["log"]) if n == "stream_datum"]
    w.check("twin:seq_nums equal indices", And(len(sd) == 1, Eq(sd[0]["seq_nums"]["start"], sd[0]["indices"]["start"])))


# ============================================================================= _ConditionalBackup
BQ = f"{QB}.__call__"
B_OB = {
    "init": f"{QB}.__init__#ensures[starts not pushed, with an empty buffer bounded by maxlen]",
    "quiet": f"{BQ}#ensures[not pushed and the primary succeeds: the document is buffered after the earlier ones; the backups are not called]",
    "flush": f"{BQ}#ensures[the primary fails for the first time: every buffered document, then the new one, goes to every backup exactly once, in order; buffer emptied; pushed]",
    "pushed": f"{BQ}#ensures[once pushed: the new document goes to every backup exactly once (whatever the primary does); nothing is buffered]",
    "raises": f"{BQ}#raises[nothing: failures of the primary and of backup callbacks are contained]",
    "primary": f"{BQ}#ensures[the primary is called exactly once, with the received name and the very same document]",
    "establish": f"{BQ}#loop1.establish[backups were called once each, in order, for exactly the buffered documents before position i]",
    "preserve": f"{BQ}#loop1.preserve[backups were called once each, in order, for exactly the buffered documents before position i]",
    "lemma": "lemma:C35.backup[inv: (not pushed, buffer == received, backups idle) or (pushed, buffer empty, backups got every received document once, in order) - holds initially, preserved by every call]",
}


class FlushLoop:
    """cut of the loop `for name, doc in self._buffer:` of _ConditionalBackup.__call__ at its invariant (DESIGN 2.4): establish at
    entry, assume at a generic position i of the abstract part of the buffer, execute the body once, prove it again for i + 1,
    continue after the loop with the invariant at the end; the concrete tail of the buffer is unrolled."""

    def __init__(self, h):
        self.h = h

    def run_for(self, I, st, fr):
        h, w = self.h, I.w
        it = yield from I.ev(st.iter, fr)
        if it is h["buf"]:
            items = h["tail"]
            n = h["n"]
            w.ok(B_OB["establish"])               # position 0: no call for buffered documents yet (the log is extended, never rewritten)
            if w.branch(n > 0, "earlier documents are buffered"):
                i = w.int("i", fresh=True)
                w.add(And(i >= 0, i < n))
                elem = (Opaque("name[i]", {"isinstance_default": False}), Opaque("doc[i]", {"isinstance_default": False}))
                pre_log = list(h["blog"])
                h["blog"][:] = pre_log + [("seg", 0, i)]
                obj = fr.vars["self"]
                vars0, attrs0, tail0, clears0 = dict(fr.vars), dict(obj.attrs), list(h["tail"]), h["clears"]
                early = None
                yield from I.assign(st.target, elem, fr)
                try:
                    yield from I.ex_block(st.body, fr)
                except ContinueSig:
                    pass
                except BreakSig:
                    early = "break"
                want = pre_log + [("seg", 0, i)] + [(j, elem[0], elem[1]) for j in range(h["nb"])]
                got = h["blog"]
                ok = (early is None and len(got) == len(want) and all(a == b and all(x is y for x, y in zip(a, b)) for a, b in zip(got, want))
                      and all(obj.attrs.get(k) is v for k, v in attrs0.items()) and set(obj.attrs) == set(attrs0)
                      and h["clears"] == clears0 and len(h["tail"]) == len(tail0) and all(a is b for a, b in zip(h["tail"], tail0)))
                w.check(B_OB["preserve"], ok, h["info"]())
                for k in list(fr.vars):
                    if k not in vars0 or vars0[k] is not fr.vars[k]:
                        fr.vars[k] = Opaque(f"havoc:{k}", {"isinstance_default": False})      # locals written by the body: unknown after the cut
                h["blog"][:] = pre_log + [("seg", 0, n)]
        elif isinstance(it, collections.deque):
            items = list(it)
        else:
            raise EngineError(f"flush loop iterates over {it!r}, not over the buffer")
        for x in list(items):
            yield from I.assign(st.target, x, fr)
            try:
                yield from I.ex_block(st.body, fr)
            except BreakSig:
                return
            except ContinueSig:
                pass
        yield from I.ex_block(st.orelse, fr)


def flush_loop_line(I):
    m, chain, node = I.P.find_function(BQ)
    loops = [s for s in ast.walk(node) if isinstance(s, ast.For) and ast.unparse(s.iter) == "self._buffer"]
    if len(loops) != 1:
        raise EngineError(f"{BQ}: expected exactly one loop over self._buffer, found {len(loops)} (contract no longer matches the code)")
    return loops[0].lineno


def backup_harness(I, nb):
    """-> (h, primary, backups): opaque callbacks whose calls are logged; every call either returns or raises an Exception"""
    w = I.w
    h = {"blog": [], "plog": [], "nb": nb, "tail": [], "n": 0, "clears": 0, "buf": None, "failed_backups": set(), "info": lambda: None}

    def mk(j):
        def fn(I_, o, a, k):
            h["blog"].append((j, a[0], a[1]))
            if len(a) != 2 or k:
                raise EngineError("backup called with other arguments than (name, doc)")
            if w.choose([False, True], f"backup {j} raises"):
                h["failed_backups"].add(j)
                raise PyRaise(I_.mkexc("RuntimeError", "backup failed"))
        return Opaque(f"backup{j}", {"methods": {"__call__": fn}, "isinstance_default": False, "type": BUILTIN_CLASSES["object"],
                                     "attrs": {"__class__": BUILTIN_CLASSES["object"]}})
    return h, [mk(j) for j in range(nb)]


def primary_cb(I, h, fails):
    def fn(I_, o, a, k):
        h["plog"].append((tuple(a), dict(k)))
        if fails:
            raise PyRaise(I_.mkexc("RuntimeError", "primary failed"))
    return Opaque("primary", {"methods": {"__call__": fn}, "isinstance_default": False, "type": BUILTIN_CLASSES["object"],
                              "attrs": {"__class__": BUILTIN_CLASSES["object"]}})


def same_calls(got, want):
    return len(got) == len(want) and all(len(a) == len(b) and all(x is y or (isinstance(x, (int, str)) and x == y) for x, y in zip(a, b)) for a, b in zip(got, want))


@task("backup.init", PROP, functions=[f"{QB}.__init__"], expect=[B_OB["init"]])
def backup_init(I):
    w = I.w
    h, backups = backup_harness(I, 1)
    maxlen = w.choose([None, 7], "maxlen given")
    o = construct(I, QB, primary_cb(I, h, False), backups, *([maxlen] if maxlen else []))
    buf = o.attrs.get("_buffer")
    ok = (isinstance(buf, collections.deque) and len(buf) == 0 and buf.maxlen == (maxlen or 1_000_000) and o.attrs.get("_push_to_backup") is False
          and o.attrs.get("backup_callbacks") is backups and not h["blog"] and not h["plog"])
    w.check(B_OB["init"], ok, {"replay": "normalizer.backup", "fail_at": "never", "backups": 1})


@task("backup.step", PROP, functions=[BQ, f"{QB}.__init__"],
      expect=[B_OB[k] for k in ("quiet", "flush", "pushed", "raises", "primary", "establish", "preserve", "lemma")],
      covers=["backup: buffering", "backup: first failure with earlier documents buffered", "backup: first failure on the first document",
              "backup: already pushed", "backup: a backup callback fails"])
def backup_step(I):
    w = I.w
    nb = w.choose([1, 2], "number of backup callbacks")
    h, backups = backup_harness(I, nb)
    pushed = w.choose([False, True], "already pushed")
    fails = w.choose([False, True], "primary fails")
    primary = primary_cb(I, h, fails)
    o = construct(I, QB, primary, backups)
    n = w.int("n")                      # number of documents received before this call
    w.add(n >= 0)
    w.add(n < 1_000_000)                # stated precondition: the buffer is not full (deque maxlen)
    I.loop_specs[(BQ, flush_loop_line(I))] = FlushLoop(h)
    if pushed:
        # inv, pushed: buffer empty (the real deque of the constructor), backups hold the calls for all n received documents
        o.attrs["_push_to_backup"] = True
        h["blog"].append(("seg", 0, n))
    else:
        # inv, not pushed: the buffer holds the n received documents (abstract), backups idle
        def append(I_, ob_, a, k):
            h["tail"].append(a[0])

        def clear(I_, ob_, a, k):
            h["n"], h["tail"], h["clears"] = 0, [], h["clears"] + 1
        h["n"] = n
        h["buf"] = Opaque("buffer[n documents]", {"methods": {"append": append, "clear": clear}, "isinstance_default": False})
        o.attrs["_buffer"] = h["buf"]
    h["info"] = lambda: {"replay": "normalizer.backup", "fail_at": "already" if pushed else "last" if fails else "never", "backups": nb,
                         "failing_backups": sorted(h["failed_backups"])}
    name, doc = "event", {"uid": "new", "data": {"x": w.real("x")}}
    snap = R.freeze(doc)
    r = catch(I, o, name, doc)
    info = h["info"]()
    w.check(B_OB["raises"], r[0] == "ok", info)
    if r[0] != "ok":
        return
    w.check(B_OB["primary"], same_calls([a for a, k in h["plog"]], [(name, doc)]) and not any(k for a, k in h["plog"]) and R.same(snap, doc) is True, info)
    new_calls = [(j, name, doc) for j in range(nb)]
    if h["failed_backups"]:
        w.cover("backup: a backup callback fails")
    if pushed:
        w.cover("backup: already pushed")
        buf = o.attrs["_buffer"]
        ok = (same_calls(h["blog"], [("seg", 0, n)] + new_calls) and o.attrs["_push_to_backup"] is True
              and isinstance(buf, collections.deque) and len(buf) == 0)
        w.check(B_OB["pushed"], ok, info)
        inv = ok
    elif not fails:
        w.cover("backup: buffering")
        ok = (h["blog"] == [] and o.attrs["_push_to_backup"] is False and o.attrs["_buffer"] is h["buf"] and h["clears"] == 0 and h["n"] is n
              and len(h["tail"]) == 1 and isinstance(h["tail"][0], tuple) and same_calls([h["tail"][0]], [(name, doc)]))
        w.check(B_OB["quiet"], ok, info)
        inv = ok
    else:
        w.cover("backup: first failure with earlier documents buffered" if any(e == ("seg", 0, n) for e in h["blog"]) else "backup: first failure on the first document")
        seg = [("seg", 0, n)] if any(e[0] == "seg" for e in h["blog"]) else []       # n == 0: no earlier document, no segment
        ok = (same_calls(h["blog"], seg + new_calls) and o.attrs["_push_to_backup"] is True and o.attrs["_buffer"] is h["buf"] and h["clears"] == 1
              and h["n"] == 0 and h["tail"] == [])
        w.check(B_OB["flush"], ok, info)
        inv = ok
    # inductive step of the lemma: the post-state is again one of the two shapes of the invariant, for n + 1 received documents
    w.check(B_OB["lemma"], inv, info)


@task("backup.twin", PROP, twin="twin:a failing backup stops the flush", functions=[BQ])
def backup_twin(I):
    w = I.w
    h, backups = backup_harness(I, 2)
    o = construct(I, QB, primary_cb(I, h, True), backups)
    I.loop_specs[(BQ, flush_loop_line(I))] = FlushLoop(h)
    h["info"] = lambda: None
    catch(I, o, "start", {"uid": "s"})
    w.check("twin:a failing backup stops the flush", not (0 in h["failed_backups"] and len(h["blog"]) == 2))
