"""C46 - TiledWriter stores exactly the run it was given.

Carriers: bluesky/callbacks/tiled_writer.py: _RunWriter.__init__ / start / descriptor / event / event_page / stream_resource /
stream_datum / stop / _write_internal_data / _write_external_data / _update_data_source_for_node / get_sres_node,
TiledWriter.__init__ / _factory / __call__ (+ concatenate_stream_datums, executed for the two-document case).

tiled and pyarrow are outside the verifier's language.  The client calls the carriers make get *assumed contracts* as
recording stubs over an abstract store (class Store below): a tree of nodes (containers, tables, arrays), per node its
metadata, per table its rows in order, per array node its registered data source.  What is proved is what the bluesky code
contributes: which calls reach the client, with which arguments, in which order, from an arbitrary state of the writer.

Abstract state of one _RunWriter (representation invariant RI, re-established by every step):
  root_node         the run's container (None before start)
  _desc_nodes       descriptor uid -> stream node and stream name -> stream node, for every descriptor received
  _internal_tables  stream name -> client of the stream's 'internal' table, present iff the table has been created
  _internal_data_cache[s]   rows of stream s received and not yet written (cache(s))
  _sres_nodes / _consolidators   stream resource uid and '<stream>_<data_key>' -> array node / its consolidator
  _external_data_cache[r]   at most one (concatenated) stream datum per stream resource r, not yet consumed
Ghost: table(s) = rows of the stream's internal table in the store; recv(s) = rows of the events received for s, in
arrival order; W(r) = sum of (indices.stop - indices.start) over the stream datums received for r.
Invariants (lemma tasks, by induction over the document sequence from the step contracts):
  table(s) ++ cache(s) == recv(s)                                     -> after stop: table(s) == recv(s)
  rows(consolidator of r's node) + sum of cached widths of the node's resources == sum of W over the node's resources,
  and the data source registered at the node shows rows(consolidator) after every _write_external_data
                                                                      -> after stop: registered rows == W
A list of symbolic length (the cache in the pre-state of a step) is the abstract value AbsList: an arbitrary block of
n >= 1 rows followed by the rows appended concretely.
"""
from .lib import *

PROP = "C46"
MT = "bluesky.callbacks.tiled_writer"
Q = f"{MT}:_RunWriter"
QT = f"{MT}:TiledWriter"
RP = "tiled_writer.step"

TRUSTED = [
    "tiled client (assumed contracts, the abstract store): create_container(key, metadata, specs, access_tags) creates one child container "
    "with that key and metadata and returns its client; .base is the plain container client of the same node; .item['id'] is the node's key; "
    ".metadata reads the stored metadata; update_metadata(metadata=m) is a dict.update of the stored metadata with m (tiled docstring); "
    "create_appendable_table(schema, key, metadata, access_tags) creates one empty table child and returns its client; "
    "append_partition(table, 0) appends the table's rows, in order, after the rows already stored; "
    "new(key, structure_family, data_sources, ...) creates one array child holding the given data source and returns its client; "
    "data_sources()[0].id is the id the server gave to that data source; PUT <uri with /metadata/ replaced by /data_source/> with "
    "{'data_source': ds} replaces the stored data source that has ds.id; include_data_sources() returns a client of the same tree",
    "pyarrow: Table.from_pylist(rows) is a table with exactly those rows in that order (one column per key, DESIGN 3); table.column_names "
    "are the table's columns (keys of the rows; for an abstract block of rows an uninterpreted membership predicate); "
    "schema.set(i, f) replaces field i, field.with_type(t) changes only the type; types.is_null / is_list are predicates of the type",
    "callee contract (C38): truncate_json_overflow(x) is the JSON-safe image of x - same structure and keys, safe values unchanged (kept abstract as Trunc(x))",
    "callee contracts (C36): consolidator.consume_stream_datum(doc) adds indices.stop - indices.start rows; get_data_source() describes the "
    "rows consumed so far (shape = rows x datum shape); consolidator_factory(sres, descriptor) returns a consolidator with no rows whose "
    "data_key is the resource's; update_from_stream_resource keeps the rows",
    "event_model: unpack_event_page(page) yields the page's events in order; RunRouter([factory]) calls factory('start', doc) once per run "
    "and passes each document of a run to the callbacks returned for that run only; StreamDatum / StreamRange constructors build plain dicts",
    "tiled.utils.safe_json_dump / tiled.client.utils.handle_error are transparent for this purpose (payload passed on, response returned)",
    "abstract list (AbsList): a Python list of symbolic length n >= 1 is an arbitrary block of n rows followed by concretely appended rows; "
    "append / len / clear / truth value have the built-in semantics",
    "stream names, descriptor uids, stream resource uids and data keys are used only as dictionary keys and in f-strings: concrete "
    "representatives ('a', 'b', 'desc-a', 'x', 'y', ...) stand for any pairwise distinct names; representatives for data keys include the "
    "collision class 'ts_' + another key",
    "precondition of _RunWriter (from the code: RESERVED_DATA_KEYS, renamed upstream by RunNormalizer, C35): no data key is called 'seq_num' or 'time'",
    "bounds (enumerated shapes, contents symbolic): at most 2 streams and 2 cached stream datums in stop's loops; 2 schema fields in "
    "_write_internal_data; 2 events per event page; 2 stream resources per data key",
    "arrival order of the events of a stream is their seq_num order (documents as emitted by a RunEngine: C05 / C01); the writer does not reorder",
]
NOT_DECIDED = (
    "everything behind the client calls: that the Tiled server stores what create_container / create_appendable_table / append_partition / "
    "new / update_metadata / PUT data_source are assumed to store (checked natively by the replay adapter against a real in-process Tiled "
    "catalog on the witnesses only); pyarrow's column inference (columns come from the first row of a batch: rows of one batch with "
    "different key sets, e.g. two descriptors of one stream with different data keys, are not decided) and type inference; "
    "the consolidators' asset / chunk bookkeeping and validate() (C36 covers shape, chunks, consume); RunRouter's routing itself; "
    "a StreamResource that never receives a StreamDatum creates no array node; metadata of the internal table is taken from the union "
    "of the data_keys of all streams received so far (same key in two streams: last descriptor wins) - not part of the statement; "
    "failures of client calls (exceptions from the server) and the _ConditionalBackup path")


# ===================================================================================================== abstract store
class Trunc:
    """truncate_json_overflow(value): the JSON-safe image (C38), kept abstract"""

    def __init__(self, value):
        self.value = value

    def __repr__(self):
        return f"Trunc({self.value!r})"


class Json:
    """safe_json_dump(value)"""

    def __init__(self, value):
        self.value = value


class Table:
    """pyarrow.Table.from_pylist(rows): segs is a list of ('abs', token, n) blocks and ('row', dict) rows"""

    def __init__(self, segs):
        self.segs = segs


def norm(x, t=False):
    """push Trunc down to the numeric leaves (C38: mappings keep their keys, sequences their length, non-numeric leaves
    are returned unchanged, truncation is idempotent)"""
    if isinstance(x, Trunc):
        return norm(x.value, True)
    if isinstance(x, dict):
        return {k: norm(v, t) for k, v in x.items()}
    if isinstance(x, (list, tuple)):
        return [norm(v, t) for v in x] if (t or isinstance(x, list)) else tuple(norm(v, t) for v in x)
    if t and not (x is None or isinstance(x, str) or (isinstance(x, Sym) and x.kind == "str")):
        return Trunc(x)
    return x


def val_eq(a, b):
    """structural equality of recorded payloads (modulo norm) -> host bool or Sym condition"""
    return _val_eq(norm(a), norm(b))


def _val_eq(a, b):
    if a is b:
        return True
    if isinstance(a, Trunc) or isinstance(b, Trunc):
        return isinstance(a, Trunc) and isinstance(b, Trunc) and _val_eq(a.value, b.value)
    if isinstance(a, Sym) or isinstance(b, Sym):
        if isinstance(a, (dict, list, tuple, Opaque, Obj)) or isinstance(b, (dict, list, tuple, Opaque, Obj)) or a is None or b is None:
            return False
        return Eq(a, b)
    if isinstance(a, dict) and isinstance(b, dict):
        if list(a.keys()) != list(b.keys()) and set(a.keys()) != set(b.keys()):
            return False
        return And(*[_val_eq(a[k], b[k]) for k in a])
    if isinstance(a, (list, tuple)) and isinstance(b, (list, tuple)):
        if len(a) != len(b) or type(a) is not type(b):
            return False
        return And(*[_val_eq(x, y) for x, y in zip(a, b)])
    if isinstance(a, (Opaque, Obj)) or isinstance(b, (Opaque, Obj)):
        return False
    return type(a) is type(b) and a == b


def segs_eq(a, b):
    """two row sequences are the same sequence (same blocks, same rows, same order)"""
    if len(a) != len(b):
        return False
    conds = []
    for x, y in zip(a, b):
        if x[0] != y[0]:
            return False
        if x[0] == "abs":
            if x[1] != y[1]:
                return False
            conds.append(val_eq(x[2], y[2]))
        else:
            conds.append(val_eq(x[1], y[1]))
    return And(*conds)


class Store:
    def __init__(self, I):
        self.I = I
        self.calls = []      # (op, path, payload) in call order
        self.kind = {}       # path -> 'container' | 'table' | 'array'
        self.meta = {}       # path -> metadata dict
        self.made = {}       # path -> kwargs of the creating call
        self.rows = {}       # table path -> list of segments
        self.dsrc = {}       # array path -> [registered data source]
        self.ids = {}        # path -> node number (stands for the node's URI)
        self.nmade = {}      # path -> number of creating calls
        self.client = self.node(())
        self.kind[()] = "container"
        self.meta[()] = {}

    def ops(self, *names):
        return [c for c in self.calls if c[0] in names]

    def _new(self, kind, parent, key, kw):
        p = parent + (key,)
        self.ids.setdefault(p, len(self.ids))
        self.nmade[p] = self.nmade.get(p, 0) + 1
        self.kind[p] = kind
        self.made[p] = kw
        self.meta[p] = norm(kw.get("metadata"))
        return p

    def node(self, path, base=False):
        st = self
        if path not in self.ids:
            self.ids[path] = len(self.ids)
        nid = self.ids[path]

        def arg(a, k, i, name, default=None):
            return a[i] if len(a) > i else k.get(name, default)

        def create_container(I, o, a, k):
            kw = {"key": arg(a, k, 0, "key"), "metadata": k.get("metadata"), "specs": k.get("specs"), "access_tags": k.get("access_tags")}
            st.calls.append(("create_container", path, kw))
            return st.node(st._new("container", path, kw["key"], kw))

        def create_appendable_table(I, o, a, k):
            kw = {"schema": arg(a, k, 0, "schema"), "key": k.get("key"), "metadata": k.get("metadata"), "access_tags": k.get("access_tags")}
            st.calls.append(("create_appendable_table", path, kw))
            p = st._new("table", path, kw["key"], kw)
            st.rows[p] = []
            return st.table_client(p)

        def new(I, o, a, k):
            kw = dict(k)
            st.calls.append(("new", path, kw))
            p = st._new("array", path, kw.get("key"), kw)
            dss = list(kw.get("data_sources") or [])
            st.dsrc[p] = [st.server_ds(p, ds) for ds in dss]
            return st.node(p)

        def update_metadata(I, o, a, k):
            m = arg(a, k, 0, "metadata")
            st.calls.append(("update_metadata", path, {"metadata": m, "drop_revision": k.get("drop_revision", False)}))
            if isinstance(norm(m), dict) and isinstance(st.meta.get(path), dict):
                st.meta[path].update(norm(m))

        def data_sources(I, o, a, k):
            return list(st.dsrc.get(path, []))

        def put(I, o, a, k):
            uri = a[0]
            content = k.get("content")
            st.calls.append(("put", uri, content))
            if isinstance(uri, str) and "/data_source/" in uri and isinstance(content, Json) and isinstance(content.value, dict):
                tgt = [p for p, n in st.ids.items() if uri == f"http://tiled/api/v1/data_source/n{n}"]
                ds = content.value.get("data_source")
                if tgt and isinstance(ds, Opaque) and st.dsrc.get(tgt[0]):
                    cur = st.dsrc[tgt[0]][0]
                    if ds.attrs.get("id") is cur.attrs["id"]:
                        st.dsrc[tgt[0]][0] = st.server_ds(tgt[0], ds, cur.attrs["id"])
                        st.calls.append(("data_source_replaced", tgt[0], ds))
            return Opaque("response", {"methods": {"json": lambda I_, o_, a_, k_: {}}, "isinstance_default": False})

        http = Opaque(f"http{nid}", {"methods": {"put": put}, "isinstance_default": False})
        ctx = Opaque(f"context{nid}", {"attrs": {"http_client": http}, "isinstance_default": False})
        spec = {"attrs": {"item": {"id": path[-1] if path else None}, "uri": f"http://tiled/api/v1/metadata/n{nid}", "context": ctx, "$path": path},
                "dyn_attrs": {"metadata": lambda I, o: (dict(st.meta[path]) if isinstance(st.meta.get(path), dict) else st.meta.get(path)),
                              "base": lambda I, o: st.node(path, base=True)},
                "methods": {"create_container": create_container, "create_appendable_table": create_appendable_table, "new": new,
                            "update_metadata": update_metadata, "data_sources": data_sources,
                            "include_data_sources": lambda I, o, a, k: st.node(path)},
                "isinstance_default": False, "truth": True}
        return Opaque(f"node{'/'.join(str(x) for x in path) or '/'}{'.base' if base else ''}", spec)

    def server_ds(self, path, ds, dsid=None):
        """what the server holds for a registered data source: the rows it describes and its id"""
        rows = ds.attrs.get("rows") if isinstance(ds, Opaque) else None
        s = Opaque("stored-ds", {"isinstance_default": False})
        s.attrs.update({"id": dsid if dsid is not None else f"dsid-{self.ids[path]}", "rows": rows, "src": ds})
        return s

    def table_client(self, p):
        st = self

        def append_partition(I, o, a, k):
            t = a[0] if a else k.get("table")
            part = a[1] if len(a) > 1 else k.get("partition")
            st.calls.append(("append_partition", p, {"table": t, "partition": part}))
            if isinstance(t, Table) and part == 0 and not isinstance(part, bool):
                st.rows[p].extend(t.segs)
        return Opaque(f"table{'/'.join(str(x) for x in p)}", {"attrs": {"$path": p}, "methods": {"append_partition": append_partition},
                                                                "isinstance_default": False, "truth": True})


class AbsList:
    """factory of the abstract list value (see module docstring)"""

    @staticmethod
    def make(I, token, n):
        state = {"block": ("abs", token, n), "tail": []}

        def segs():
            return ([state["block"]] if state["block"] is not None else []) + [("row", r) for r in state["tail"]]

        def length(I_, o):
            return (state["block"][2] if state["block"] is not None else 0) + len(state["tail"])

        def append(I_, o, a, k):
            state["tail"].append(a[0])
            o.spec["truth"] = True

        def clear(I_, o, a, k):
            state["block"] = None
            state["tail"] = []
            o.spec["truth"] = False
        o = Opaque(f"abslist({token})", {"len": length, "methods": {"append": append, "clear": clear}, "truth": True,
                                          "isinstance_default": False, "attrs": {"$segs": segs}})
        o.segs = segs
        return o


def segs_of(v):
    """row segments of a cache value (real list or AbsList)"""
    if isinstance(v, list):
        return [("row", r) for r in v]
    if isinstance(v, Opaque) and hasattr(v, "segs"):
        return v.segs()
    return None


def _ret(v):
    return v
    yield


def install(I, schema_kinds=("other",)):
    """assumed contracts of tiled / pyarrow / event_model and the callee contracts of repository code"""
    w = I.w
    st = Store(I)
    I.call_hooks["bluesky.utils:truncate_json_overflow"] = lambda I_, f, a, k: _ret(Trunc(a[0]))
    w.stubs["tiled.structures.core.Spec"] = lambda I_, a, k: ("Spec", a[0], k.get("version"))
    w.stubs["tiled.utils.safe_json_dump"] = lambda I_, a, k: Json(a[0])
    w.stubs["tiled.client.utils.handle_error"] = lambda I_, a, k: a[0]
    for nm in ("event_model.documents.StreamDatum", "event_model.StreamRange", "event_model.documents.StreamRange",
               "event_model.documents.stream_datum.StreamRange"):
        w.stubs[nm] = lambda I_, a, k: dict(k)
    w.stubs["event_model.unpack_event_page"] = lambda I_, a, k: list(a[0]["$events"])

    # ---- pyarrow
    def from_pylist(I_, a, k):
        rows = a[0]
        segs = segs_of(rows)
        if segs is None:
            raise EngineError(f"from_pylist of {rows!r}")
        t = Table(list(segs))
        memo = {}

        def contains(I2, o, item):
            if segs and segs[0][0] == "row":
                return item in segs[0][1]
            if not segs:
                return False
            if item not in memo:
                memo[item] = w.bool(f"col[{item}]", fresh=True)        # columns of an abstract block: uninterpreted
            return memo[item]
        t.col = contains
        t.column_names = Opaque("column_names", {"contains": contains, "isinstance_default": False})
        fields = [Opaque(f"field{i}", {"attrs": {"type": Opaque(f"type{i}:{kd}", {"attrs": {"$kind": kd, "value_type": Opaque(f"vt{i}", {"attrs": {"$kind": "null" if kd == "list<null>" else "other"}})}}),
                                                  "$i": i, "$kind": kd},
                                        "methods": {"with_type": lambda I2, o, a2, k2, i=i: Opaque(f"field{i}'", {"attrs": {"type": a2[0], "$i": i, "$kind": a2[0]}})}})
                  for i, kd in enumerate(schema_kinds)]
        t.schema = mk_schema(fields, t)
        return t

    def mk_schema(fields, t):
        return Opaque("schema", {"attrs": {"$fields": fields, "$table": t}, "iter": lambda I2, o: list(fields), "copy": lambda I2, o: mk_schema(list(fields), t),
                                 "methods": {"set": lambda I2, o, a2, k2: mk_schema(fields[:a2[0]] + [a2[1]] + fields[a2[0] + 1:], t)},
                                 "isinstance_default": False})
    w.stubs["pyarrow.Table.from_pylist"] = from_pylist
    w.stubs["pyarrow.types.is_null"] = lambda I_, a, k: a[0].attrs.get("$kind", a[0].spec.get("attrs", {}).get("$kind")) == "null"
    w.stubs["pyarrow.types.is_list"] = lambda I_, a, k: a[0].attrs.get("$kind", a[0].spec.get("attrs", {}).get("$kind")) == "list<null>"
    w.stubs["pyarrow.string"] = lambda I_, a, k: "string"
    w.stubs["pyarrow.list_"] = lambda I_, a, k: ("list", a[0])
    w.stubs[("getattr", "Table")] = lambda I_, o, name: getattr(o, name)
    return st


def kind_of(x):
    return x.attrs.get("$kind", x.spec.get("attrs", {}).get("$kind"))


def writer(I, st, batch):
    """the real constructor"""
    return construct(I, Q, st.client, batch_size=batch)


def path_of(node):
    return node.spec["attrs"]["$path"] if isinstance(node, Opaque) and "$path" in node.spec.get("attrs", {}) else None


# ===================================================================================================== start
@task("start", PROP, functions=[f"{Q}.__init__", f"{Q}.start"],
      expect=[f"{Q}.start#ensures[exactly one run container: key == start uid, metadata == {{start: the start document}}, BlueskyRun spec, the document's access tags]",
              f"{Q}.start#frame[the start document is not modified; nothing else is written]"],
      covers=["with access tags", "without access tags"])
def start(I):
    w = I.w
    st = install(I)
    o = writer(I, st, w.int("batch_size"))
    tags = w.choose([False, True], "tiled_access_tags given")
    doc = {"uid": w.str("run_uid"), "time": w.real("t_start"), "scan_id": w.int("scan_id")}
    if tags:
        doc["tiled_access_tags"] = ["tagA"]
    before = dict(doc)
    w.cover("with access tags" if tags else "without access tags")
    r = catch(I, I.getattr(o, "start"), doc)
    rp = {"replay": RP, "scenario": "start", "tags": tags}
    want = {k: v for k, v in before.items() if k != "tiled_access_tags"}
    cc = st.ops("create_container")
    ok = r[0] == "ok" and len(st.calls) == 1 and len(cc) == 1 and cc[0][1] == () and path_of(o.root_node) == (cc[0][2]["key"],)
    cond = ok
    if ok:
        kw = cc[0][2]
        cond = And(kw["key"] is doc["uid"], isinstance(kw["metadata"], dict) and list(kw["metadata"]) == ["start"],
                   val_eq(kw["metadata"].get("start"), Trunc(want)) if isinstance(kw["metadata"], dict) else False,
                   kw["specs"] == [("Spec", "BlueskyRun", "3.0")], kw["access_tags"] == (["tagA"] if tags else None),
                   (o.access_tags == ["tagA"]) if tags else o.access_tags is None)
    w.check(f"{Q}.start#ensures[exactly one run container: key == start uid, metadata == {{start: the start document}}, BlueskyRun spec, the document's access tags]", cond, rp)
    w.check(f"{Q}.start#frame[the start document is not modified; nothing else is written]",
            And(list(doc) == list(before), *[doc[k] is before[k] for k in before if k in doc]), rp)


# ===================================================================================================== descriptor
def desc_doc(w, uid, name, keys, tag=""):
    return {"uid": uid, "name": name, "run_start": "run-1", "time": w.real(f"t_desc{tag}"),
            "data_keys": {k: {"dtype": "number", "shape": [], "source": f"src-{k}{tag}"} for k in keys},
            "configuration": {"dev": {"data": {"gain": w.real(f"gain{tag}")}, "timestamps": {"gain": w.real(f"tgain{tag}")}, "data_keys": {}}},
            "object_keys": {"dev": list(keys)}, "hints": {}}


def started(I, st, batch, tags=None):
    """a writer after the real start(): root container 'run-1'"""
    o = writer(I, st, batch)
    d = {"uid": "run-1", "time": I.w.real("t_start")}
    if tags:
        d["tiled_access_tags"] = tags
    call_method(I, o, "start", d)
    return o


@task("descriptor", PROP, functions=[f"{Q}.descriptor"],
      expect=[f"{Q}.descriptor#ensures[first descriptor of a stream: exactly one stream container under the run, key == stream name, metadata == the descriptor minus name/object_keys/run_start]",
              f"{Q}.descriptor#ensures[later descriptor of the stream: no new node; _config_updates extended by uid, time, configuration]",
              f"{Q}.descriptor#ensures[RI: uid and name both refer to the stream's node; data_keys accumulated; caches and tables untouched]",
              f"{Q}.descriptor#raises[RuntimeError and nothing written when no start was received]"],
      covers=["first", "second", "second without configuration", "no start"])
def descriptor(I):
    w = I.w
    st = install(I)
    rp = {"replay": RP, "scenario": "descriptor"}
    case = w.choose(["first", "second", "second without configuration", "no start"], "descriptor case")
    rp["case"] = case
    w.cover(case)
    if case == "no start":
        o = writer(I, st, w.int("batch_size"))
        r = catch(I, I.getattr(o, "descriptor"), desc_doc(w, "desc-a", "a", ["x"]))
        w.check(f"{Q}.descriptor#raises[RuntimeError and nothing written when no start was received]",
                r[0] == "raise" and exc_is(I, r[1], "RuntimeError") and st.calls == [] and o._desc_nodes == {}, rp)
        return
    o = started(I, st, w.int("batch_size"), tags=w.choose([None, ["tagA"]], "access tags"))
    # another stream 'b' is already there, with a cache and a table
    db = desc_doc(w, "desc-b", "b", ["y"], "b")
    call_method(I, o, "descriptor", db)
    d1 = desc_doc(w, "desc-a", "a", ["x"], "1")
    if case != "first":
        call_method(I, o, "descriptor", d1)
    cache_b = [{"seq_num": 1, "time": 0, "y": w.real("y0"), "ts_y": 0}]
    o._internal_data_cache["b"] = cache_b
    ncalls = len(st.calls)
    snap_b = (o._desc_nodes["b"], o._desc_nodes["desc-b"], dict(st.meta[("run-1", "b")]))
    doc = d1 if case == "first" else desc_doc(w, "desc-a2", "a", ["x", "z"], "2")
    if case == "second without configuration":
        doc["configuration"] = {}
    r = catch(I, I.getattr(o, "descriptor"), doc)
    new_calls = st.calls[ncalls:]
    ok = r[0] == "ok"
    pa = ("run-1", "a")
    if case == "first":
        cc = [c for c in new_calls if c[0] == "create_container"]
        good = ok and len(new_calls) == 1 and len(cc) == 1 and cc[0][1] == ("run-1",)
        cond = good
        if good:
            kw = cc[0][2]
            want = {k: v for k, v in doc.items() if k not in ("name", "object_keys", "run_start")}
            cond = And(kw["key"] == "a", val_eq(kw["metadata"], Trunc(want)),
                       kw["specs"] == [("Spec", "BlueskyEventStream", "3.0"), ("Spec", "composite", None)],
                       kw["access_tags"] == o.access_tags, st.nmade.get(pa) == 1)
        w.check(f"{Q}.descriptor#ensures[first descriptor of a stream: exactly one stream container under the run, key == stream name, metadata == the descriptor minus name/object_keys/run_start]", cond, rp)
    else:
        um = [c for c in new_calls if c[0] == "update_metadata"]
        good = ok and len(new_calls) == 1 and len(um) == 1 and um[0][1] == pa and st.nmade.get(pa) == 1
        cond = good
        if good:
            upd = {"uid": "desc-a2", "time": doc["time"]}
            if case == "second":
                upd["configuration"] = doc["configuration"]
            cond = And(val_eq(um[0][2]["metadata"], {"_config_updates": Trunc([upd])}), um[0][2]["drop_revision"] is True)
        w.check(f"{Q}.descriptor#ensures[later descriptor of the stream: no new node; _config_updates extended by uid, time, configuration]", cond, rp)
    keys_want = {"y": db["data_keys"]["y"], "x": doc["data_keys"]["x"]}
    if case != "first":
        keys_want["z"] = doc["data_keys"]["z"]
    ri = (ok and path_of(o._desc_nodes.get(doc["uid"])) == pa and o._desc_nodes.get(doc["uid"]) is o._desc_nodes.get("a")
          and (case == "first" or o._desc_nodes.get("desc-a") is o._desc_nodes.get("a"))
          and o._desc_nodes["b"] is snap_b[0] and o._desc_nodes["desc-b"] is snap_b[1] and st.meta[("run-1", "b")] == snap_b[2]
          and set(o._desc_nodes) == {"a", "b", "desc-b", "desc-a"} | ({"desc-a2"} if case != "first" else set())
          and o._internal_data_cache["b"] is cache_b and len(cache_b) == 1 and o._internal_tables == {} and set(o.data_keys) == set(keys_want)
          and all(o.data_keys[k] is keys_want[k] for k in keys_want))
    w.check(f"{Q}.descriptor#ensures[RI: uid and name both refer to the stream's node; data_keys accumulated; caches and tables untouched]", ri, rp)


# ===================================================================================================== internal data
PA, PB = ("run-1", "a"), ("run-1", "b")
TA, TB = PA + ("internal",), PB + ("internal",)


def two_streams(I, st, batch, keys_a=("x", "y"), tags=None):
    """writer after the real start() and the real descriptor() of streams 'a' (keys_a) and 'b' ('v')"""
    o = started(I, st, batch, tags)
    da = desc_doc(I.w, "desc-a", "a", list(keys_a), "a")
    db = desc_doc(I.w, "desc-b", "b", ["v"], "b")
    call_method(I, o, "descriptor", da)
    call_method(I, o, "descriptor", db)
    return o, da, db


def give_table(st, o, stream, token=None, n=None):
    """pre-state 'the internal table of the stream exists' (holding an arbitrary block of rows)"""
    p = ("run-1", stream, "internal")
    st.kind[p] = "table"
    st.nmade[p] = 1
    st.meta[p] = {}
    st.rows[p] = [("abs", token, n)] if token else []
    o._internal_tables[stream] = st.table_client(p)


def event_doc(w, desc, keys, tag=""):
    return {"uid": f"ev{tag}", "descriptor": desc, "seq_num": w.int(f"seq_num{tag}"), "time": w.real(f"t_event{tag}"),
            "data": {k: w.real(f"data_{k}{tag}") for k in keys}, "timestamps": {k: w.real(f"ts_{k}{tag}") for k in keys}}


def row_clause(row, doc):
    """the row of an event: seq_num, time, every data value under its key, every timestamp under ts_<key> (from the statement:
    'one row per event ... with the event's values')"""
    if not isinstance(row, dict):
        return False
    want_keys = ["seq_num", "time"] + list(doc["data"]) + ["ts_" + k for k in doc["timestamps"]]
    if len(set(want_keys)) != len(want_keys):
        # two of the event's values claim the same column
        return And(*([False] + []))
    return And(set(row) == set(want_keys), row.get("seq_num") is doc["seq_num"], row.get("time") is doc["time"],
               *[row.get(k) is v for k, v in doc["data"].items()], *[row.get("ts_" + k) is v for k, v in doc["timestamps"].items()])


WID = f"{Q}._write_internal_data"


@task("_write_internal_data", PROP, functions=[WID],
      expect=[f"{WID}#ensures[one table of exactly the given rows, appended once to the stream's internal table as partition 0]",
              f"{WID}#ensures[table created iff missing: once, under the stream's node, key 'internal', metadata = data_keys of its columns, null types replaced by string]",
              f"{WID}#frame[the row list is not modified; no other node touched]"],
      covers=["table missing", "table exists", "null field", "list<null> field"])
def write_internal(I):
    w = I.w
    kinds = (w.choose(["other", "null", "list<null>"], "field 0 type"), w.choose(["other", "null", "list<null>"], "field 1 type"))
    st = install(I, kinds)
    o, da, db = two_streams(I, st, w.int("batch_size"), tags=w.choose([None, ["tagA"]], "access tags"))
    exists = w.choose([False, True], "internal table exists")
    if exists:
        give_table(st, o, "a", "T0", w.int("n_table"))
    w.cover("table exists" if exists else "table missing")
    if "null" in kinds:
        w.cover("null field")
    if "list<null>" in kinds:
        w.cover("list<null> field")
    shape = w.choose(["abstract", "one row", "two rows"], "rows")
    r1, r2 = {"seq_num": w.int("s1"), "time": w.real("t1"), "x": w.real("x1")}, {"seq_num": w.int("s2"), "time": w.real("t2"), "x": w.real("x2")}
    if shape == "abstract":
        n = w.int("n_rows")
        w.add(n >= 1)
        rows = AbsList.make(I, "P", n)
    else:
        rows = [r1] if shape == "one row" else [r1, r2]
    before = list(segs_of(rows))
    table_before = list(st.rows.get(TA, []))
    ncalls = len(st.calls)
    rp = {"replay": RP, "scenario": "_write_internal_data", "exists": exists, "shape": shape}
    r = catch(I, I.getattr(o, "_write_internal_data"), rows, o._desc_nodes["a"])
    new = st.calls[ncalls:]
    ap = [c for c in new if c[0] == "append_partition"]
    mk = [c for c in new if c[0] == "create_appendable_table"]
    ok = r[0] == "ok" and len(ap) == 1 and ap[0][1] == TA and isinstance(ap[0][2]["table"], Table)
    w.check(f"{WID}#ensures[one table of exactly the given rows, appended once to the stream's internal table as partition 0]",
            And(ok, ok and ap[0][2]["partition"] == 0 and ap[0][2]["partition"] is not False, segs_eq(ap[0][2]["table"].segs, before) if ok else False,
                segs_eq(st.rows.get(TA, []), table_before + before), path_of(o._internal_tables.get("a")) == TA), rp)
    if exists:
        cond = ok and mk == [] and len(new) == 1
    else:
        good = ok and len(mk) == 1 and len(new) == 2 and new[0] is mk[0] and mk[0][1] == PA and st.nmade.get(TA) == 1
        cond = good
        if good:
            kw = mk[0][2]
            t = ap[0][2]["table"]
            sch = kw["schema"]
            fields = sch.spec["attrs"]["$fields"] if isinstance(sch, Opaque) and "$fields" in sch.spec.get("attrs", {}) else None
            want_kind = {"other": "other", "null": "string", "list<null>": ("list", "string")}
            sch_ok = fields is not None and len(fields) == 2 and all(kind_of(f) == want_kind[kd] and f.attrs.get("$i", f.spec["attrs"].get("$i")) == i
                                                                      for i, (f, kd) in enumerate(zip(fields, kinds)))
            # metadata: data_keys (of every descriptor received so far) restricted to the table's columns
            md = norm(kw["metadata"])
            conds = [isinstance(md, dict)]
            if isinstance(md, dict):
                for k_, v_ in o.data_keys.items():
                    c = t.col(I, None, k_)
                    conds.append(Implies(c, (k_ in md) and val_eq(md.get(k_), Trunc(v_))) if isinstance(c, Sym) else ((k_ in md and val_eq(md[k_], Trunc(v_))) if c else k_ not in md))
                    if isinstance(c, Sym):
                        conds.append(Implies(Not(c), k_ not in md))
                conds.append(set(md) <= set(o.data_keys))
            cond = And(kw["key"] == "internal", sch_ok, kw["access_tags"] == o.access_tags, *conds)
    w.check(f"{WID}#ensures[table created iff missing: once, under the stream's node, key 'internal', metadata = data_keys of its columns, null types replaced by string]", cond, rp)
    w.check(f"{WID}#frame[the row list is not modified; no other node touched]",
            And(segs_eq(segs_of(rows), before), TB not in st.rows, all(c[1] in (PA, TA) for c in new), set(o._internal_tables) == {"a"}), rp)


EV = f"{Q}.event"
KEYSETS = {"plain": ("x", "y"), "ts-collision": ("x", "ts_x")}


def event_state(I, st, keyset="plain"):
    """arbitrary RI state before an event of stream 'a': cache(a) empty or an arbitrary non-empty block, table(a) missing or an
    arbitrary block; stream 'b' with its own cache and table"""
    w = I.w
    batch = w.int("batch_size")
    o, da, db = two_streams(I, st, batch, KEYSETS[keyset])
    cached = w.choose(["empty", "absent", "non-empty"], "cache(a)")
    if cached == "non-empty":
        n = w.int("n_cached")
        w.add(n >= 1)
        o._internal_data_cache["a"] = AbsList.make(I, "Ca", n)
    elif cached == "empty":
        o._internal_data_cache["a"] = []
    exists = w.choose([False, True], "table(a) exists")
    if exists:
        give_table(st, o, "a", "Ta", w.int("n_table"))
    cb = [{"seq_num": w.int("b_seq"), "time": w.real("b_t"), "v": w.real("b_v"), "ts_v": w.real("b_tsv")}]
    o._internal_data_cache["b"] = cb
    give_table(st, o, "b", "Tb", w.int("n_table_b"))
    return o, batch, cached, exists, cb


def frame_b(st, o, cb):
    return (o._internal_data_cache.get("b") is cb and len(cb) == 1 and st.rows.get(TB) is not None and len(st.rows[TB]) == 1 and st.rows[TB][0][1] == "Tb"
            and path_of(o._internal_tables.get("b")) == TB)


@task("event", PROP, functions=[EV, WID],
      expect=[f"{EV}#ensures[row = seq_num, time, the data values under their keys, the timestamps under ts_<key>]",
              f"{EV}#ensures[len(cache)+1 >= batch_size: table' = table ++ cache ++ [row] in one append, cache' = []; else table' = table, cache' = cache ++ [row], no client call]",
              f"{EV}#frame[document not modified; other streams' caches and tables, metadata and nodes untouched]"],
      covers=["flush", "no flush", "flush creates the table", "first event of the stream", "ts-collision", "event under a later descriptor of the stream"])
def event(I):
    w = I.w
    st = install(I)
    keyset = w.choose(list(KEYSETS), "data keys")
    o, batch, cached, exists, cb = event_state(I, st, keyset)
    via = w.choose(["desc-a", "desc-a2"], "the event's descriptor (first / a later descriptor of the stream)")
    if via == "desc-a2":
        call_method(I, o, "descriptor", desc_doc(w, "desc-a2", "a", list(KEYSETS[keyset]), "a2"))
        w.cover("event under a later descriptor of the stream")
    doc = event_doc(w, via, KEYSETS[keyset])
    snapshot = {k: (dict(v) if isinstance(v, dict) else v) for k, v in doc.items()}
    cache0 = segs_of(o._internal_data_cache["a"]) if cached != "absent" else []
    n0 = (cache0[0][2] if cache0 else 0)
    table0 = list(st.rows.get(TA, []))
    meta0 = {p: (dict(m) if isinstance(m, dict) else m) for p, m in st.meta.items() if p[-1:] != ("internal",)}
    ncalls = len(st.calls)
    r = catch(I, I.getattr(o, "event"), doc)
    new = st.calls[ncalls:]
    rp = {"replay": RP, "scenario": "event", "cached": cached, "exists": exists, "keyset": keyset, "via": via}
    cache1 = segs_of(o._internal_data_cache.get("a"))
    table1 = st.rows.get(TA)
    ok = r[0] == "ok" and cache1 is not None
    if cached == "absent":
        w.cover("first event of the stream")
    # the row is the last element of table' ++ cache'
    allrows = (table1 or []) + (cache1 or [])
    row = allrows[-1][1] if allrows and allrows[-1][0] == "row" else None
    collide = keyset == "ts-collision"
    if collide:
        w.cover("ts-collision")
    w.check_kf(f"{EV}#ensures[row = seq_num, time, the data values under their keys, the timestamps under ts_<key>]",
               And(ok, row_clause(row, doc)), "C46-ts-prefix-collision", collide, rp)
    flush = (n0 + 1) >= batch
    if not ok:
        w.fail(f"{EV}#ensures[len(cache)+1 >= batch_size: table' = table ++ cache ++ [row] in one append, cache' = []; else table' = table, cache' = cache ++ [row], no client call]", rp)
        return
    flushed = len([c for c in new if c[0] == "append_partition"]) > 0
    if flushed:
        w.cover("flush")
        if not exists:
            w.cover("flush creates the table")
        eff = And(flush, table1 is not None, segs_eq(table1 or [], table0 + cache0 + [("row", row)]), cache1 == [],
                  len([c for c in new if c[0] == "append_partition"]) == 1, len(new) == (1 if exists else 2),
                  st.nmade.get(TA) == 1, path_of(o._internal_tables.get("a")) == TA)
    else:
        w.cover("no flush")
        eff = And(Not(flush), new == [], segs_eq(cache1, cache0 + [("row", row)]), segs_eq(table1 or [], table0), (table1 is None) == (not exists),
                  ("a" in o._internal_tables) == exists)
    w.check(f"{EV}#ensures[len(cache)+1 >= batch_size: table' = table ++ cache ++ [row] in one append, cache' = []; else table' = table, cache' = cache ++ [row], no client call]", eff, rp)
    meta1 = {p: m for p, m in st.meta.items() if p[-1:] != ("internal",)}
    w.check(f"{EV}#frame[document not modified; other streams' caches and tables, metadata and nodes untouched]",
            And(frame_b(st, o, cb), set(doc) == set(snapshot), all((doc[k] == snapshot[k] and all(doc[k][j] is snapshot[k][j] for j in doc[k])) if isinstance(doc[k], dict) else doc[k] is snapshot[k] for k in snapshot),
                meta1 == meta0, all(c[1] in (PA, TA) for c in new), set(o._internal_data_cache) == {"a", "b"}), rp)


@task("event_page", PROP, functions=[f"{Q}.event_page", EV],
      expect=[f"{Q}.event_page#ensures[the page's events are handled as single events, in page order]"])
def event_page(I):
    w = I.w
    st = install(I)
    o, batch, cached, exists, cb = event_state(I, st)
    e1, e2 = event_doc(w, "desc-a", ("x", "y"), "1"), event_doc(w, "desc-a", ("x", "y"), "2")
    cache0 = segs_of(o._internal_data_cache["a"]) if cached != "absent" else []
    table0 = list(st.rows.get(TA, []))
    r = catch(I, I.getattr(o, "event_page"), {"$events": [e1, e2]})
    allrows = list(st.rows.get(TA, [])) + (segs_of(o._internal_data_cache.get("a")) or [])
    want = table0 + cache0
    ok = r[0] == "ok" and len(allrows) == len(want) + 2 and allrows[-1][0] == "row" and allrows[-2][0] == "row"
    w.check(f"{Q}.event_page#ensures[the page's events are handled as single events, in page order]",
            And(ok, segs_eq(allrows[:-2], want) if ok else False, row_clause(allrows[-2][1], e1) if ok else False,
                row_clause(allrows[-1][1], e2) if ok else False, frame_b(st, o, cb)), {"replay": RP, "scenario": "event_page", "cached": cached, "exists": exists})


# ===================================================================================================== external data
GS = f"{Q}.get_sres_node"
WE = f"{Q}._write_external_data"
SD = f"{Q}.stream_datum"
PI = PA + ("img",)


def install_consolidators(I, st, validate_outcome="ok"):
    """callee contracts of bluesky.consolidators (C36): an abstract consolidator that counts the rows it has consumed"""
    clog = []

    def factory(I_, f, a, k):
        sres_doc, desc_meta = a[0], a[1]
        state = {"rows": 0, "sres": [sres_doc], "validated": 0}

        def consume(I2, o, a2, k2):
            d = a2[0]
            state["rows"] = state["rows"] + (d["indices"]["stop"] - d["indices"]["start"])
            clog.append(("consume", o, d))

        def get_ds(I2, o, a2, k2):
            ds = Opaque("DataSource", {"isinstance_default": False})
            ds.attrs.update({"rows": state["rows"], "cons": o, "id": None, "nsres": len(state["sres"]), "validated": state["validated"]})
            return ds

        def update_from(I2, o, a2, k2):
            state["sres"].append(a2[0])
            clog.append(("update_from_stream_resource", o, a2[0]))

        def validate(I2, o, a2, k2):
            clog.append(("validate", o, dict(k2)))
            if validate_outcome == "raise":
                I2.raise_("ValueError", "structure mismatch")
            state["validated"] += 1
        c = Opaque(f"consolidator({sres_doc['uid']})", {"methods": {"consume_stream_datum": consume, "get_data_source": get_ds,
                                                                    "update_from_stream_resource": update_from, "validate": validate},
                                                        "isinstance_default": False, "truth": True})
        c.attrs.update({"data_key": sres_doc["data_key"], "_sres_parameters": sres_doc["parameters"], "$state": state, "$desc": desc_meta})
        clog.append(("factory", c, sres_doc))
        return c
        yield
    I.call_hooks["bluesky.consolidators:consolidator_factory"] = factory
    return clog


def sres_doc(uid, validate=False):
    p = {"dataset": "/entry/data"}
    if validate:
        p["_validate"] = True
    return {"uid": uid, "data_key": "img", "mimetype": "application/x-hdf5", "uri": f"file://localhost/data/{uid}.h5", "parameters": p}


def sdatum(w, sres, desc, tag):
    a, b, s = w.int(f"idx_start_{tag}"), w.int(f"idx_stop_{tag}"), w.int(f"seq_start_{tag}")
    w.add(a <= b)
    return {"uid": f"sd-{tag}", "stream_resource": sres, "descriptor": desc, "indices": {"start": a, "stop": b}, "seq_nums": {"start": s, "stop": s + (b - a)}}


def width(d):
    return d["indices"]["stop"] - d["indices"]["start"]


def known_node(I, st, o, uid, rows0, validate=False):
    """RI state 'the resource's array node exists': reached through the real stream_resource() / get_sres_node(), then the
    consolidator holds an arbitrary number rows0 of rows and the registered data source shows the same"""
    call_method(I, o, "stream_resource", sres_doc(uid, validate))
    node, cons = call_method(I, o, "get_sres_node", uid, "desc-a")
    cons.attrs["$state"]["rows"] = rows0
    st.dsrc[PI][0].attrs["rows"] = rows0
    return node, cons


def reg_rows(st, p=PI):
    return st.dsrc[p][0].attrs["rows"] if st.dsrc.get(p) else None


@task("get_sres_node", PROP, functions=[GS, f"{Q}.stream_resource"],
      expect=[f"{GS}#ensures[known resource: the stored node and consolidator, nothing created]",
              f"{GS}#ensures[first resource of a data key: one consolidator, exactly one array node under the stream, key == data_key, holding its data source; registered under uid and stream_key]",
              f"{GS}#ensures[further resource of the data key: same node and consolidator, told about the new resource, nothing created]",
              f"{GS}#raises[RuntimeError for a resource never received, or a new one without descriptor]"],
      covers=["known", "first", "further", "unknown", "no descriptor"])
def get_sres_node(I):
    w = I.w
    st = install(I)
    clog = install_consolidators(I, st)
    o, da, db = two_streams(I, st, w.int("batch_size"), ("x", "img"), tags=w.choose([None, ["tagA"]], "access tags"))
    case = w.choose(["known", "first", "further", "unknown", "no descriptor"], "resource")
    w.cover(case)
    rp = {"replay": RP, "scenario": "get_sres_node", "case": case}
    if case in ("known", "further"):
        node0, cons0 = known_node(I, st, o, "sres-1", w.int("rows0"))
    if case in ("first", "no descriptor"):
        call_method(I, o, "stream_resource", sres_doc("sres-1"))
    if case == "further":
        s2 = sres_doc("sres-2")
        call_method(I, o, "stream_resource", s2)
    ncalls, nlog = len(st.calls), len(clog)
    uid = {"known": "sres-1", "first": "sres-1", "further": "sres-2", "unknown": "sres-9", "no descriptor": "sres-1"}[case]
    r = catch(I, I.getattr(o, "get_sres_node"), uid, None if case in ("no descriptor", "known") else "desc-a")
    new, nlogd = st.calls[ncalls:], clog[nlog:]
    if case in ("unknown", "no descriptor"):
        w.check(f"{GS}#raises[RuntimeError for a resource never received, or a new one without descriptor]",
                r[0] == "raise" and exc_is(I, r[1], "RuntimeError") and new == [] and set(o._sres_nodes) == set() and set(o._consolidators) == set(), rp)
        return
    ok = r[0] == "ok" and isinstance(r[1], tuple) and len(r[1]) == 2
    if case == "known":
        w.check(f"{GS}#ensures[known resource: the stored node and consolidator, nothing created]",
                ok and r[1][0] is node0 and r[1][1] is cons0 and new == [] and nlogd == [] and set(o._sres_nodes) == {"sres-1", "a_img"}, rp)
    elif case == "first":
        mk = [c for c in new if c[0] == "new"]
        fa = [c for c in nlogd if c[0] == "factory"]
        good = ok and len(new) == 1 and len(mk) == 1 and mk[0][1] == PA and len(fa) == 1 and len(nlogd) == 1 and st.nmade.get(PI) == 1
        cond = good
        if good:
            kw = mk[0][2]
            dss = kw.get("data_sources")
            cond = (kw.get("key") == "img" and kw.get("structure_family") == "array" and isinstance(dss, list) and len(dss) == 1
                    and isinstance(dss[0], Opaque) and dss[0].attrs.get("cons") is fa[0][1] and dss[0].attrs.get("rows") == 0
                    and kw.get("metadata") == {} and kw.get("specs") == [] and kw.get("access_tags") == o.access_tags
                    and fa[0][2] is o._stream_resource_cache["sres-1"] and val_eq(fa[0][1].attrs["$desc"], st.meta[PA]) is True
                    and r[1][1] is fa[0][1] and path_of(r[1][0]) == PI
                    and set(o._sres_nodes) == {"sres-1", "a_img"} and set(o._consolidators) == {"sres-1", "a_img"}
                    and o._sres_nodes["sres-1"] is r[1][0] and o._sres_nodes["a_img"] is r[1][0]
                    and o._consolidators["sres-1"] is r[1][1] and o._consolidators["a_img"] is r[1][1])
        w.check(f"{GS}#ensures[first resource of a data key: one consolidator, exactly one array node under the stream, key == data_key, holding its data source; registered under uid and stream_key]", cond, rp)
    else:
        w.check(f"{GS}#ensures[further resource of the data key: same node and consolidator, told about the new resource, nothing created]",
                ok and r[1][0] is node0 and r[1][1] is cons0 and new == [] and len(nlogd) == 1 and nlogd[0][0] == "update_from_stream_resource"
                and nlogd[0][1] is cons0 and nlogd[0][2] is s2 and set(o._sres_nodes) == {"sres-1", "sres-2", "a_img"}
                and all(o._sres_nodes[k_] is node0 and o._consolidators[k_] is cons0 for k_ in ("sres-1", "sres-2", "a_img")), rp)


def written_ok(st, new, clog_new, cons, docs):
    """the effect of _write_external_data for each of docs, in order: consumed once each, and after each the node's data source is
    replaced (same id) by one describing the rows consumed so far"""
    cons_calls = [c for c in clog_new if c[0] == "consume"]
    reps = [c for c in new if c[0] == "data_source_replaced"]
    puts = [c for c in new if c[0] == "put"]
    return (len(cons_calls) == len(docs) and all(c[1] is cons and c[2] is d for c, d in zip(cons_calls, docs))
            and len(reps) == len(docs) and len(puts) == len(docs) and all(c[1] == PI for c in reps))


@task("_write_external_data", PROP, functions=[WE, f"{Q}._update_data_source_for_node", GS],
      expect=[f"{WE}#ensures[the datum is consumed once by the resource's consolidator; the node's data source is replaced, same id, by one describing rows + (stop - start)]"],
      covers=["node known", "node created"])
def write_external(I):
    w = I.w
    st = install(I)
    clog = install_consolidators(I, st)
    o, da, db = two_streams(I, st, w.int("batch_size"), ("x", "img"))
    known = w.choose([True, False], "node known")
    rows0 = w.int("rows0") if known else 0
    if known:
        w.add(rows0 >= 0)
        node0, cons0 = known_node(I, st, o, "sres-1", rows0)
    else:
        call_method(I, o, "stream_resource", sres_doc("sres-1"))
    w.cover("node known" if known else "node created")
    d = sdatum(w, "sres-1", "desc-a", "d")
    ncalls, nlog = len(st.calls), len(clog)
    r = catch(I, I.getattr(o, "_write_external_data"), d)
    new, nlogd = st.calls[ncalls:], clog[nlog:]
    cons = o._consolidators.get("sres-1")
    ok = r[0] == "ok" and cons is not None and written_ok(st, new, nlogd, cons, [d]) and (len([c for c in new if c[0] == "new"]) == (0 if known else 1))
    w.check(f"{WE}#ensures[the datum is consumed once by the resource's consolidator; the node's data source is replaced, same id, by one describing rows + (stop - start)]",
            And(ok, Eq(cons.attrs["$state"]["rows"], rows0 + width(d)) if ok else False, Eq(reg_rows(st), rows0 + width(d)) if ok else False,
                st.dsrc[PI][0].attrs["id"] == f"dsid-{st.ids[PI]}" if ok else False, st.nmade.get(PI) == 1),
            {"replay": RP, "scenario": "_write_external_data", "known": known})


@task("stream_datum", PROP, functions=[SD, WE, f"{Q}._update_data_source_for_node", GS, f"{MT}:concatenate_stream_datums"],
      expect=[f"{SD}#ensures[conservation: rows(consolidator)' + width(cache') == rows + width(cache) + (stop - start); whatever was consumed is registered at the node]",
              f"{SD}#ensures[batch_size <= 1: consumed and registered immediately]",
              f"{SD}#ensures[cache' is absent or one datum covering exactly the consecutive ranges not yet consumed]",
              f"{SD}#frame[other resources' cached datums, internal caches and tables untouched; the documents are not modified]"],
      covers=["immediate", "cached first", "concatenated and cached", "concatenated and written", "not consecutive: both written"])
def stream_datum(I):
    w = I.w
    st = install(I)
    clog = install_consolidators(I, st)
    batch = w.int("batch_size")
    o, da, db = two_streams(I, st, batch, ("x", "img"))
    known = w.choose([True, False], "node known")
    rows0 = w.int("rows0") if known else 0
    if known:
        w.add(rows0 >= 0)
        known_node(I, st, o, "sres-1", rows0)
    else:
        call_method(I, o, "stream_resource", sres_doc("sres-1"))
    other_desc = w.choose([False, True], "cached datum under another descriptor of the stream")
    if other_desc:
        call_method(I, o, "descriptor", desc_doc(w, "desc-a2", "a", ["x", "img"], "a2"))
    has_cached = w.choose([False, True], "a datum is cached for the resource")
    c = sdatum(w, "sres-1", "desc-a2" if other_desc else "desc-a", "c") if has_cached else None
    if has_cached:
        o._external_data_cache["sres-1"] = c
    other = sdatum(w, "sres-7", "desc-a", "o")
    o._external_data_cache["sres-7"] = other
    cb = [{"seq_num": 1, "time": 0, "v": w.real("b_v")}]
    o._internal_data_cache["b"] = cb
    d = sdatum(w, "sres-1", "desc-a", "d")
    snap = {id(x): {k: (dict(v) if isinstance(v, dict) else v) for k, v in x.items()} for x in (d, c, other) if x is not None}
    ncalls, nlog = len(st.calls), len(clog)
    r = catch(I, I.getattr(o, "stream_datum"), d)
    new, nlogd = st.calls[ncalls:], clog[nlog:]
    rp = {"replay": RP, "scenario": "stream_datum", "known": known, "has_cached": has_cached, "other_desc": other_desc}
    ok = r[0] == "ok"
    cons = o._consolidators.get("sres-1")
    rows1 = cons.attrs["$state"]["rows"] if cons is not None else 0
    cache1 = o._external_data_cache.get("sres-1")
    w0 = width(c) if has_cached else 0
    w1 = width(cache1) if isinstance(cache1, dict) else 0
    consumed = [x[2] for x in nlogd if x[0] == "consume"]
    w.check(f"{SD}#ensures[conservation: rows(consolidator)' + width(cache') == rows + width(cache) + (stop - start); whatever was consumed is registered at the node]",
            And(ok, Eq(rows1 + w1, rows0 + w0 + width(d)),
                (cons is not None and written_ok(st, new, nlogd, cons, consumed) and Eq(reg_rows(st), rows1)) if consumed else
                (new == [] and [x for x in nlogd if x[0] != "factory"] == [] and (reg_rows(st) is None if not known else Eq(reg_rows(st), rows0)))), rp)
    if not ok:
        return
    only_d = len(consumed) == 1 and consumed[0] is d
    if only_d and cache1 is c:
        w.cover("immediate")
    elif not consumed and not has_cached:
        w.cover("cached first")
    elif not consumed:
        w.cover("concatenated and cached")
    elif len(consumed) == 1:
        w.cover("concatenated and written")
    else:
        w.cover("not consecutive: both written")
    w.check(f"{SD}#ensures[batch_size <= 1: consumed and registered immediately]",
            Implies(batch <= 1, len(consumed) == 1 and consumed[0] is d and cache1 is c), rp)
    # the cached datum describes exactly what is still to be consumed: [lo, hi) is the union of consecutive ranges
    if cache1 is None:
        shape = True
    elif cache1 is d:
        shape = not has_cached
    elif cache1 is c:
        shape = only_d
    else:
        lo = ite(c["indices"]["start"] <= d["indices"]["start"], c["indices"]["start"], d["indices"]["start"]) if has_cached else None
        first, second = (c, d), (d, c)
        shape = has_cached and len(consumed) == 0 and isinstance(cache1, dict) and And(
            cache1["stream_resource"] == "sres-1", Eq(cache1["descriptor"], d["descriptor"]), Eq(c["descriptor"], d["descriptor"]) if isinstance(c["descriptor"], Sym) else c["descriptor"] == d["descriptor"],
            Or(*[And(Eq(p[0]["indices"]["stop"], p[1]["indices"]["start"]), Eq(cache1["indices"]["start"], p[0]["indices"]["start"]),
                     Eq(cache1["indices"]["stop"], p[1]["indices"]["stop"]), Eq(cache1["seq_nums"]["start"], p[0]["seq_nums"]["start"]),
                     Eq(cache1["seq_nums"]["stop"], p[1]["seq_nums"]["stop"])) for p in (first, second)]))
    w.check(f"{SD}#ensures[cache' is absent or one datum covering exactly the consecutive ranges not yet consumed]", shape, rp)
    w.check(f"{SD}#frame[other resources' cached datums, internal caches and tables untouched; the documents are not modified]",
            And(o._external_data_cache.get("sres-7") is other, o._internal_data_cache.get("b") is cb and len(cb) == 1, st.rows == {}, o._internal_tables == {},
                set(o._external_data_cache) <= {"sres-1", "sres-7"},
                *[val_eq(x, snap[id(x)]) for x in (d, c, other) if x is not None]), rp)


# ===================================================================================================== stop
ST = f"{Q}.stop"
EXT_CASES = ["none", "cached, node unknown", "cached, node known", "two resources of one key", "validate", "validate fails"]


def stop_doc(w):
    return {"uid": "stop-1", "run_start": "run-1", "time": w.real("t_stop"), "exit_status": "success", "reason": "", "num_events": {"a": w.int("num_a"), "b": w.int("num_b")}}


def stop_state(I):
    """arbitrary RI state at stop: per stream a cache (absent / empty / arbitrary non-empty block / one row) and a table (missing /
    arbitrary block); external: cached stream datums for known or not yet registered nodes"""
    w = I.w
    ext = w.choose(EXT_CASES, "external data")
    st = install(I)
    clog = install_consolidators(I, st, "raise" if ext == "validate fails" else "ok")
    o, da, db = two_streams(I, st, w.int("batch_size"), ("x", "img"))
    s = {"ext": ext, "st": st, "clog": clog, "o": o}
    s["cached_a"] = w.choose(["absent", "empty", "non-empty"], "cache(a)")
    s["exists_a"] = w.choose([False, True], "table(a) exists")
    if s["cached_a"] == "non-empty":
        n = w.int("n_cached")
        w.add(n >= 1)
        o._internal_data_cache["a"] = AbsList.make(I, "Ca", n)
    elif s["cached_a"] == "empty":
        o._internal_data_cache["a"] = []
    if s["exists_a"]:
        give_table(st, o, "a", "Ta", w.int("n_table"))
    s["cached_b"] = w.choose(["empty", "one row"], "cache(b)")
    s["row_b"] = {"seq_num": w.int("b_seq"), "time": w.real("b_t"), "v": w.real("b_v"), "ts_v": w.real("b_tsv")}
    o._internal_data_cache["b"] = [s["row_b"]] if s["cached_b"] == "one row" else []
    s["exists_b"] = s["cached_b"] == "empty"
    if s["exists_b"]:
        give_table(st, o, "b", "Tb", w.int("n_table_b"))
    s["rows0"], s["cached"] = 0, []
    if ext in ("cached, node known", "two resources of one key", "validate", "validate fails"):
        s["rows0"] = w.int("rows0")
        w.add(s["rows0"] >= 0)
        known_node(I, st, o, "sres-1", s["rows0"], validate=ext.startswith("validate"))
    if ext == "cached, node unknown":
        call_method(I, o, "stream_resource", sres_doc("sres-1"))
    if ext != "none":
        c1 = sdatum(w, "sres-1", "desc-a", "c1")
        o._external_data_cache["sres-1"] = c1
        s["cached"].append(c1)
    if ext == "two resources of one key":
        call_method(I, o, "stream_resource", sres_doc("sres-2"))
        c2 = sdatum(w, "sres-2", "desc-a", "c2")
        o._external_data_cache["sres-2"] = c2
        s["cached"].append(c2)
    return s


def stop_post(I, s, doc, r, new, nlogd):
    """-> (internal clause, external clause, metadata clause)"""
    st, o = s["st"], s["o"]
    ok = r[0] == "ok"
    aps = [c for c in new if c[0] == "append_partition"]
    want_a = s["table_a0"] + s["cache_a0"]
    want_b = s["table_b0"] + s["cache_b0"]
    n_ap = (1 if s["cache_a0"] else 0) + (1 if s["cache_b0"] else 0)
    internal = And(ok, len(aps) == n_ap, segs_eq(st.rows.get(TA, []), want_a), segs_eq(st.rows.get(TB, []), want_b),
                   (TA in st.rows) == (s["exists_a"] or bool(s["cache_a0"])), (TB in st.rows) == (s["exists_b"] or bool(s["cache_b0"])),
                   all(segs_of(v) == [] for v in o._internal_data_cache.values()), st.nmade.get(TA, 0) <= 1, st.nmade.get(TB, 0) <= 1)
    cons = o._consolidators.get("sres-1")
    if s["ext"] == "none":
        external = ok and st.dsrc == {} and nlogd == [] and not [c for c in new if c[0] in ("new", "put")]
    else:
        total = s["rows0"]
        for c in s["cached"]:
            total = total + width(c)
        consumed = [x for x in nlogd if x[0] == "consume"]
        good = (ok and cons is not None and len(consumed) == len(s["cached"]) and all(x[2] is c and x[1] is cons for x, c in zip(consumed, s["cached"]))
                and st.nmade.get(PI) == 1 and list(st.dsrc) == [PI] and all(o._consolidators[k_] is cons for k_ in o._consolidators))
        external = And(good, Eq(cons.attrs["$state"]["rows"], total) if good else False, Eq(reg_rows(st), total) if good else False)
        if good and s["ext"].startswith("validate"):
            vals = [x for x in nlogd if x[0] == "validate"]
            src = st.dsrc[PI][0].attrs["src"]
            external = And(external, len(vals) >= 1 and all(x[2].get("fix_errors") is True for x in vals),
                           src.attrs["validated"] == (0 if s["ext"] == "validate fails" else len(vals)),
                           # the registration after validate is the last word on the node
                           ([c for c in new if c[0] == "data_source_replaced"] or [(None, None, None)])[-1][2] is src)
        elif good:
            external = And(external, not [x for x in nlogd if x[0] == "validate"])
    um = [c for c in new if c[0] == "update_metadata"]
    root_meta = st.meta.get(("run-1",))
    meta = (ok and len(um) == 1 and um[0][1] == ("run-1",) and isinstance(root_meta, dict) and set(root_meta) == {"start", "stop"}
            and um[0][2]["drop_revision"] is True and isinstance(um[0][2]["metadata"], dict) and um[0][2]["metadata"].get("stop") is doc)
    if meta:
        meta = And(val_eq(root_meta["stop"], doc), val_eq(root_meta["start"], s["start0"]))
    return internal, external, meta


@task("stop", PROP, functions=[ST, WID, WE, f"{Q}._update_data_source_for_node", GS],
      expect=[f"{ST}#ensures[every cached row is written: table'(s) = table(s) ++ cache(s), one append per non-empty cache, caches empty]",
              f"{ST}#ensures[every cached stream datum is consumed once, in one array node per data key; registered rows == rows + cached widths]",
              f"{ST}#ensures[stop metadata: exactly one update merges {{stop: the stop document}} into the run's metadata, start kept]",
              f"{ST}#frame[stop document not modified; only nodes of this run are touched]"],
      covers=["ext: " + e for e in EXT_CASES] + ["cache(a) non-empty, table missing", "cache(a) non-empty, table exists", "nothing cached"])
def stop(I):
    w = I.w
    s = stop_state(I)
    st, o = s["st"], s["o"]
    w.cover("ext: " + s["ext"])
    if s["cached_a"] == "non-empty":
        w.cover("cache(a) non-empty, table " + ("exists" if s["exists_a"] else "missing"))
    if s["cached_a"] != "non-empty" and s["cached_b"] == "empty" and s["ext"] == "none":
        w.cover("nothing cached")
    s["cache_a0"] = segs_of(o._internal_data_cache["a"]) if s["cached_a"] != "absent" else []
    s["cache_b0"] = segs_of(o._internal_data_cache["b"])
    s["table_a0"], s["table_b0"] = list(st.rows.get(TA, [])), list(st.rows.get(TB, []))
    s["start0"] = st.meta[("run-1",)]["start"]
    doc = stop_doc(w)
    snap = dict(doc)
    ncalls, nlog = len(st.calls), len(s["clog"])
    r = catch(I, I.getattr(o, "stop"), doc)
    new, nlogd = st.calls[ncalls:], s["clog"][nlog:]
    rp = {"replay": RP, "scenario": "stop", "ext": s["ext"], "cached_a": s["cached_a"], "exists_a": s["exists_a"], "cached_b": s["cached_b"]}
    internal, external, meta = stop_post(I, s, doc, r, new, nlogd)
    w.check(f"{ST}#ensures[every cached row is written: table'(s) = table(s) ++ cache(s), one append per non-empty cache, caches empty]", internal, rp)
    w.check(f"{ST}#ensures[every cached stream datum is consumed once, in one array node per data key; registered rows == rows + cached widths]", external, rp)
    w.check(f"{ST}#ensures[stop metadata: exactly one update merges {{stop: the stop document}} into the run's metadata, start kept]", meta, rp)
    w.check(f"{ST}#frame[stop document not modified; only nodes of this run are touched]",
            And(list(doc) == list(snap), all(doc[k] is snap[k] for k in snap),
                all((c[1][:1] == ("run-1",)) if isinstance(c[1], tuple) else True for c in new), list(st.kind)[:2] == [(), ("run-1",)],
                all(p == () or p[0] == "run-1" for p in st.kind)), rp)


@task("stop.no_start", PROP, functions=[ST], expect=[f"{ST}#raises[RuntimeError and nothing written when no start was received]"])
def stop_no_start(I):
    w = I.w
    st = install(I)
    o = writer(I, st, w.int("batch_size"))
    r = catch(I, I.getattr(o, "stop"), stop_doc(w))
    w.check(f"{ST}#raises[RuntimeError and nothing written when no start was received]",
            r[0] == "raise" and exc_is(I, r[1], "RuntimeError") and st.calls == [], {"replay": RP, "scenario": "stop.no_start"})


# ===================================================================================================== TiledWriter
@task("TiledWriter", PROP, functions=[f"{QT}.__init__", f"{QT}._factory", f"{QT}.__call__", f"{Q}.__init__"],
      expect=[f"{QT}.__init__#ensures[one RunRouter over the writer's own factory; the client with data sources included]",
              f"{QT}._factory#ensures[every run gets its own fresh _RunWriter (no shared mutable state) on the shared client with the configured batch size; behind the normalizer if one is configured]",
              f"{QT}.__call__#ensures[every document goes to the router once, unchanged]",
              f"{QT}#ensures[two runs written through two factory products touch disjoint subtrees]"],
      covers=["no normalizer", "custom normalizer"])
def tiled_writer(I):
    w = I.w
    st = install(I)
    routed = []
    routers = []

    def run_router(I_, a, k):
        r = Opaque("RunRouter", {"methods": {"__call__": lambda I2, o_, a2, k2: routed.append((tuple(a2), dict(k2)))}, "isinstance_default": False})
        r.attrs["$factories"] = a[0]
        routers.append(r)
        return r
    w.stubs["event_model.RunRouter"] = run_router
    included = []
    user_client = Opaque("user-client", {"methods": {"include_data_sources": lambda I_, o_, a, k: (included.append(1), st.client)[1]},
                                         "isinstance_default": False, "truth": True})
    norm_case = w.choose(["no normalizer", "custom normalizer"], "normalizer")
    w.cover(norm_case)
    made_norm = []

    def normalizer(I_, o_, a, k):
        subs = []
        n = Opaque(f"normalizer{len(made_norm)}", {"methods": {"subscribe": lambda I2, o2, a2, k2: subs.append(a2[0])}, "isinstance_default": False, "truth": True})
        made_norm.append((n, dict(k), subs))
        return n
    norm_cls = Opaque("NormalizerClass", {"methods": {"__call__": normalizer}, "isinstance_default": False, "truth": True}) if norm_case == "custom normalizer" else None
    batch = w.int("batch_size")
    patches = {"start": Opaque("patch", {"isinstance_default": False})}
    tw = construct(I, QT, user_client, normalizer=norm_cls, patches=patches, spec_to_mimetype={"X": "application/x"}, batch_size=batch)
    rp = {"replay": RP, "scenario": "TiledWriter", "normalizer": norm_case}
    facs = routers[0].attrs["$factories"] if len(routers) == 1 else None
    w.check(f"{QT}.__init__#ensures[one RunRouter over the writer's own factory; the client with data sources included]",
            len(routers) == 1 and isinstance(facs, list) and len(facs) == 1 and isinstance(facs[0], BoundMethod) and facs[0].self_obj is tw
            and facs[0].func.qualname.endswith("TiledWriter._factory") and tw._run_router is routers[0] and included == [1] and tw.client is st.client, rp)
    prods = []
    for i in (1, 2):
        prods.append(catch(I, facs[0] if facs else I.getattr(tw, "_factory"), "start", {"uid": f"run-{i}", "time": w.real(f"t{i}")}))
    ok = all(p[0] == "ok" and isinstance(p[1], tuple) and len(p[1]) == 2 and isinstance(p[1][0], list) and len(p[1][0]) == 1 and p[1][1] == [] for p in prods)
    writers = []
    if ok:
        for i, p in enumerate(prods):
            cb = p[1][0][0]
            if norm_case == "custom normalizer":
                ok = ok and len(made_norm) == 2 and cb is made_norm[i][0] and len(made_norm[i][2]) == 1 and made_norm[i][1] == {"patches": patches, "spec_to_mimetype": {"X": "application/x"}}
                if ok:
                    writers.append(made_norm[i][2][0])
            else:
                writers.append(cb)
    mutable = ["_desc_nodes", "_sres_nodes", "_internal_tables", "_stream_resource_cache", "_consolidators", "_internal_data_cache", "_external_data_cache", "data_keys"]
    fresh = (ok and len(writers) == 2 and all(isinstance(x, Obj) and x.cls.name == "_RunWriter" for x in writers) and writers[0] is not writers[1]
             and all(x.client is st.client and x.root_node is None for x in writers)
             and all(isinstance(getattr(writers[0], m), dict) and len(getattr(writers[0], m)) == 0 and getattr(writers[0], m) is not getattr(writers[1], m) for m in mutable))
    w.check(f"{QT}._factory#ensures[every run gets its own fresh _RunWriter (no shared mutable state) on the shared client with the configured batch size; behind the normalizer if one is configured]",
            And(fresh, *([writers[0]._batch_size is batch, writers[1]._batch_size is batch] if fresh else [])), rp)
    doc = {"uid": "run-1"}
    catch(I, tw, "start", doc)
    w.check(f"{QT}.__call__#ensures[every document goes to the router once, unchanged]",
            len(routed) == 1 and len(routed[0][0]) == 2 and routed[0][0][0] == "start" and routed[0][0][1] is doc and routed[0][1] == {}, rp)
    if not fresh:
        w.fail(f"{QT}#ensures[two runs written through two factory products touch disjoint subtrees]", rp)
        return
    marks = []
    for i, x in enumerate(writers):
        n0 = len(st.calls)
        call_method(I, x, "start", {"uid": f"run-{i + 1}", "time": w.real(f"t{i + 1}")})
        call_method(I, x, "descriptor", dict(desc_doc(w, f"desc-{i}", "a", ["x"], str(i)), run_start=f"run-{i + 1}"))
        call_method(I, x, "event", event_doc(w, f"desc-{i}", ("x",), str(i)))
        call_method(I, x, "stop", dict(stop_doc(w), run_start=f"run-{i + 1}"))
        marks.append(st.calls[n0:])
    w.check(f"{QT}#ensures[two runs written through two factory products touch disjoint subtrees]",
            all(len(m) >= 4 for m in marks) and all(c[1] == () and c[2]["key"] == f"run-{i + 1}" if c[0] == "create_container" and c[1] == () else c[1][:1] == (f"run-{i + 1}",)
                                                    for i, m in enumerate(marks) for c in m)
            and len(st.rows[("run-1", "a", "internal")]) == 1 and len(st.rows[("run-2", "a", "internal")]) == 1, rp)


# ===================================================================================================== lemmas (induction over the document sequence)
@task("lemma.rows", PROP, expect=["lemma:C46.table(s) ++ cache(s) == rows received, in arrival order; after stop table(s) holds every row exactly once"])
def lemma_rows(I):
    """abstract transition system of one stream whose transitions are the step contracts proved above (event: flush / no flush;
    stop; every other document leaves table and cache of the stream alone - the frame clauses)"""
    import z3
    w = I.w
    Row = z3.DeclareSort("Row")
    S = z3.SeqSort(Row)
    table, cache, recv, t2, c2, r2 = z3.Consts("table cache recv table2 cache2 recv2", S)
    row = z3.Const("row", Row)
    inv = lambda t, c, rc: z3.Concat(t, c) == rc
    empty = z3.Empty(S)
    no_flush = z3.And(t2 == table, c2 == z3.Concat(cache, z3.Unit(row)), r2 == z3.Concat(recv, z3.Unit(row)))
    flush = z3.And(t2 == z3.Concat(table, z3.Concat(cache, z3.Unit(row))), c2 == empty, r2 == z3.Concat(recv, z3.Unit(row)))
    stop_ = z3.And(t2 == z3.Concat(table, cache), c2 == empty, r2 == recv)
    other = z3.And(t2 == table, c2 == cache, r2 == recv)
    init = z3.And(table == empty, cache == empty, recv == empty)
    w.check("lemma:C46.table(s) ++ cache(s) == rows received, in arrival order; after stop table(s) holds every row exactly once",
            Sym(z3.And(z3.Implies(init, inv(table, cache, recv)),
                       z3.Implies(z3.And(inv(table, cache, recv), z3.Or(no_flush, flush, stop_, other)), inv(t2, c2, r2)),
                       z3.Implies(z3.And(inv(table, cache, recv), stop_), t2 == recv))))


@task("lemma.external", PROP, expect=["lemma:C46.rows consumed + cached widths == widths received; after stop the registered length is the total received"])
def lemma_external(I):
    import z3
    w = I.w
    rows, cw, W, reg, wd, rows2, cw2, W2, reg2 = z3.Ints("rows cached_width W registered wd rows2 cached_width2 W2 registered2")
    wrote = z3.Bool("wrote")
    inv = lambda r, c, t, g: z3.And(r + c == t, z3.Or(g == r, z3.And(r == 0, g == -1)))       # -1: no node yet, nothing consumed yet
    sd = z3.And(rows2 + cw2 == rows + cw + wd, W2 == W + wd, z3.If(wrote, reg2 == rows2, z3.And(reg2 == reg, rows2 == rows)))
    stop_ = z3.And(rows2 == rows + cw, cw2 == 0, W2 == W, z3.If(z3.Or(cw > 0, reg != -1), reg2 == rows2, z3.And(reg2 == reg, rows2 == rows)))
    init = z3.And(rows == 0, cw == 0, W == 0, reg == -1)
    w.check("lemma:C46.rows consumed + cached widths == widths received; after stop the registered length is the total received",
            Sym(z3.And(z3.Implies(init, inv(rows, cw, W, reg)),
                       z3.Implies(z3.And(inv(rows, cw, W, reg), wd >= 0, cw >= 0, sd), inv(rows2, cw2, W2, reg2)),
                       z3.Implies(z3.And(inv(rows, cw, W, reg), cw >= 0, stop_), z3.And(inv(rows2, cw2, W2, reg2), z3.Or(reg2 == W2, z3.And(W2 == 0, reg2 == -1)))))))


# ===================================================================================================== must-fail twins
@task("event.twin", PROP, functions=[EV], twin="twin:event flushes only when len(cache)+1 > batch_size")
def event_twin(I):
    w = I.w
    st = install(I)
    batch = w.int("batch_size")
    o, da, db = two_streams(I, st, batch)
    n = w.int("n_cached")
    w.add(n >= 1)
    o._internal_data_cache["a"] = AbsList.make(I, "Ca", n)
    call_method(I, o, "event", event_doc(w, "desc-a", ("x", "y")))
    flushed = len(st.ops("append_partition")) > 0
    w.check("twin:event flushes only when len(cache)+1 > batch_size", Implies(n + 1 <= batch, not flushed))


@task("stop.twin", PROP, functions=[ST], twin="twin:stop writes the stop metadata only")
def stop_twin(I):
    w = I.w
    st = install(I)
    o, da, db = two_streams(I, st, w.int("batch_size"))
    n = w.int("n_cached")
    w.add(n >= 1)
    o._internal_data_cache["a"] = AbsList.make(I, "Ca", n)
    call_method(I, o, "stop", stop_doc(w))
    w.check("twin:stop writes the stop metadata only", len(st.calls) == 4)


@task("stream_datum.twin", PROP, functions=[SD], twin="twin:stream_datum conservation off by one")
def stream_datum_twin(I):
    w = I.w
    st = install(I)
    clog = install_consolidators(I, st)
    o, da, db = two_streams(I, st, w.int("batch_size"), ("x", "img"))
    rows0 = w.int("rows0")
    known_node(I, st, o, "sres-1", rows0)
    d = sdatum(w, "sres-1", "desc-a", "d")
    call_method(I, o, "stream_datum", d)
    c1 = o._external_data_cache.get("sres-1")
    w.check("twin:stream_datum conservation off by one",
            Eq(o._consolidators["sres-1"].attrs["$state"]["rows"] + (width(c1) if c1 else 0), rows0 + width(d) + 1))


# ===================================================================================================== bounded stand-in: one whole run
BOUND = "one run: 3 events in stream 'a', 1 event in stream 'b', 2 stream datums of one stream resource; batch size and all values symbolic"


@task("run.end_to_end", PROP, bounded=BOUND,
      functions=[f"{Q}.__init__", f"{Q}.start", f"{Q}.descriptor", EV, f"{Q}.stream_resource", SD, ST, WID, WE, GS],
      expect=["bounded:C46.after stop the run container holds start and stop, every stream's table its events' rows in arrival order, the array node the total length received"],
      covers=["run: every event flushed at once", "run: everything flushed at stop"])
def end_to_end(I):
    """composition check of the step contracts on the real bodies with real lists (no AbsList), from __init__ to stop"""
    w = I.w
    st = install(I)
    clog = install_consolidators(I, st)
    batch = w.int("batch_size")
    o = writer(I, st, batch)
    start_d = {"uid": "run-1", "time": w.real("t_start")}
    call_method(I, o, "start", start_d)
    call_method(I, o, "descriptor", desc_doc(w, "desc-a", "a", ["x", "img"], "a"))
    call_method(I, o, "descriptor", desc_doc(w, "desc-b", "b", ["v"], "b"))
    call_method(I, o, "stream_resource", sres_doc("sres-1"))
    ea = [event_doc(w, "desc-a", ("x",), f"a{i}") for i in (1, 2, 3)]
    eb = event_doc(w, "desc-b", ("v",), "b1")
    d1, d2 = sdatum(w, "sres-1", "desc-a", "d1"), sdatum(w, "sres-1", "desc-a", "d2")
    call_method(I, o, "event", ea[0])
    call_method(I, o, "event", eb)
    call_method(I, o, "stream_datum", d1)
    call_method(I, o, "event", ea[1])
    call_method(I, o, "stream_datum", d2)
    call_method(I, o, "event", ea[2])
    n_before_stop = len(st.ops("append_partition"))
    sd_ = stop_doc(w)
    call_method(I, o, "stop", sd_)
    if n_before_stop == 4:
        w.cover("run: every event flushed at once")
    if n_before_stop == 0:
        w.cover("run: everything flushed at stop")
    ra, rb = st.rows.get(TA), st.rows.get(TB)
    ok = (ra is not None and rb is not None and len(ra) == 3 and len(rb) == 1 and all(x[0] == "row" for x in ra + rb)
          and set(st.kind) == {(), ("run-1",), PA, PB, TA, TB, PI} and all(n == 1 for n in st.nmade.values()))
    root_meta = st.meta[("run-1",)]
    w.check("bounded:C46.after stop the run container holds start and stop, every stream's table its events' rows in arrival order, the array node the total length received",
            And(ok, *([row_clause(ra[i][1], ea[i]) for i in range(3)] if ok else []), row_clause(rb[0][1], eb) if ok else False,
                Eq(reg_rows(st), width(d1) + width(d2)) if ok else False,
                set(root_meta) == {"start", "stop"}, val_eq(root_meta.get("stop"), sd_), val_eq(root_meta.get("start"), Trunc(start_d))),
            {"replay": RP, "scenario": "run"})
