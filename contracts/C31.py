"""C31 - installed suspenders gate plan start and removal releases waiters.

Carriers: bluesky/suspenders.py: SuspenderBase.install, remove, get_futures, __call__ (+ __make_event / __set_event);
bluesky/run_engine.py: RunEngine.install_suspender, remove_suspender, and the prologue of __call__ (a tripped suspender's
future is waited for before the plan's first message).

Clauses, from the statement:
  G1  (T2, real __call__ / _run under the asyncio model) with a suspender that is tripped when RE(plan) is called, no message of the plan is
      executed before the suspender's condition is released; an untripped one does not delay the plan
  G2  get_futures: nothing when not tripped; when tripped exactly one awaitable, the wait of the suspender's (existing or newly made) event,
      with the justification
  R1  remove(), from any state: unsubscribes from the signal, forgets the engine, is no longer tripped, and if it held an event (a
      suspension or a pre-tripped plan is waiting on it) schedules its release exactly once
  R2  after remove() the suspender does not react to signal changes (__call__ is a no-op), and a second remove() is harmless: no exception,
      nothing released twice, state unchanged
  R3  RunEngine.remove_suspender removes an installed suspender exactly once and ignores one that is not installed;
      install_suspender registers it and subscribes it to its signal"""
import os

from .t2 import *
from . import C30 as _c30
from .C30 import M, signal, opaque, iter_ret, _thread_event

PROP = "C31"
TRUSTED = TRUSTED_T2 + [
    "T1: the signal (subscribe / clear_sub), the event loop (call_soon_threadsafe / call_later) and the engine are recording fakes; "
    "loop.call_soon_threadsafe(f) either has run f before th_ev.wait(0.1) returns or has not (non-deterministic choice)",
    "G1: the tripped suspender is abstract (its get_futures returns the wait of an asyncio.Event the environment sets later - what G2 proves of the real one)",
    "signal.clear_sub of a callback that is not subscribed is harmless (ophyd contract)",
]
NOT_DECIDED = "the sleep between the return to nominal conditions and the release (loop.call_later: time is abstract); install / remove from inside a running plan under interruptions"
SQ = f"{M}:SuspenderBase"
G1 = f"{RE}.__call__#ensures[no message of the plan is executed before every suspender that was tripped at the start has released]"


# ------------------------------------------------------------------------------------------------ R1 / R2: remove
def _suspender(I, installed, has_ev, tripped):
    w = I.w
    sched, later, sigcalls = [], [], []

    def call_soon_threadsafe(I_, loop, args, kwargs):
        sched.append(args[0])
        return opaque(I_, "handle", methods={"cancel": lambda *a: None})

    def call_later(I_, loop, args, kwargs):
        later.append(args)
    loop = opaque(I, "loop", methods={"call_soon_threadsafe": call_soon_threadsafe, "call_later": call_later})
    eng = opaque(I, "RE", attrs={"_loop": loop, "state": opaque(I, "state", attrs={"is_running": False})}, methods={"request_suspend": lambda *a: None}, truth=True)
    sig = opaque(I, "signal", attrs={"value": None, "name": "sig"}, isinstance_default=False,
                 methods={"clear_sub": lambda I_, o, a, k: sigcalls.append(("clear_sub", a[0])),
                          "subscribe": lambda I_, o, a, k: sigcalls.append(("subscribe", a[0], dict(k)))})
    w.stubs["threading.Event"] = lambda I_, a, k: _thread_event(I_)
    stamp = Opaque("timestamp", {"token": "time", "truth": True, "isinstance_default": False, "methods": {"strftime": lambda I_, o_, a, k: "now"}})
    stamp.spec["binop"] = lambda I_, op, a, b: stamp
    w.stubs["datetime.datetime.now"] = lambda I_, a, k: stamp          # (only used to print when the release will happen)
    w.stubs["datetime.timedelta"] = lambda I_, a, k: Opaque("timedelta", {"token": "time", "isinstance_default": False})
    I.builtins["print"] = native(lambda I_, a, k: None)
    o = construct(I, f"{M}:SuspenderBase", sig, sleep=w.real("sleep"))
    ev0 = opaque(I, "ev0", methods={"wait": lambda *a: None, "set": lambda *a: None}, truth=True) if has_ev else None
    o.attrs.update({"RE": eng if installed else None, "_ev": ev0, "_tripped": tripped})
    return o, eng, loop, sig, ev0, sched, later, sigcalls


@task("SuspenderBase.remove", PROP, functions=[f"{SQ}.remove", f"{SQ}.__set_event"],
      expect=[f"{SQ}.remove#ensures[unsubscribed, engine forgotten, not tripped, no event kept; a held event is scheduled for release exactly once]",
              f"{SQ}.remove#ensures[a second remove is harmless: no exception, nothing more released, state unchanged]",
              f"{SQ}.__call__#ensures[after remove the suspender does not react to signal changes]"],
      covers=["held an event", "held nothing"])
def remove(I):
    w = I.w
    installed = w.choose([True, False], "installed")
    has_ev = w.choose([True, False], "holds an event")
    if has_ev and not installed:
        raise PathEnd("representation invariant: an event is only ever made while installed (RE is not None) and remove() drops it")
    tripped = w.bool("tripped0")
    o, eng, loop, sig, ev0, sched, later, sigcalls = _suspender(I, installed, has_ev, tripped)
    r = catch(I, I.getattr(o, "remove"))
    rp = {"replay": "suspenders.remove", "installed": installed, "has_ev": has_ev}
    released = [f for f in sched if isinstance(f, Closure) and f.qualname.endswith("__set_event.local")]
    w.cover("held an event" if has_ev and installed else "held nothing")
    ok = r[0] == "ok" and [c[0] for c in sigcalls] == ["clear_sub"] and sigcalls[0][1] is o and o.RE is None and o._ev is None
    want_release = 1 if (has_ev and installed) else 0
    w.check(f"{SQ}.remove#ensures[unsubscribed, engine forgotten, not tripped, no event kept; a held event is scheduled for release exactly once]",
            And(ok, Eq(o._tripped, False), len(released) == want_release, len(sched) == want_release), rp)
    # the scheduled release sets exactly the held event (after the configured sleep)
    if released:
        I.call_value(released[0])
        w.check(f"{SQ}.__set_event#ensures[the release sets the held event after the suspender's sleep]",
                len(later) == 1 and len(later[0]) == 2 and getattr(later[0][1], "obj", None) is ev0 and getattr(later[0][1], "name", None) == "set", rp)
    # R2: again
    n_sched, n_sig = len(sched), len(sigcalls)
    r2 = catch(I, I.getattr(o, "remove"))
    w.check(f"{SQ}.remove#ensures[a second remove is harmless: no exception, nothing more released, state unchanged]",
            And(r2[0] == "ok", len(sched) == n_sched, o.RE is None, o._ev is None, Eq(o._tripped, False),
                all(c[0] == "clear_sub" for c in sigcalls[n_sig:])), rp)
    # R2: a signal change after removal
    I.call_hooks[f"{SQ}._should_suspend"] = lambda I_, f, a, k: iter_ret(w.bool("S", fresh=True))
    I.call_hooks[f"{SQ}._should_resume"] = lambda I_, f, a, k: iter_ret(w.bool("R", fresh=True))
    r3 = catch(I, I.getattr(o, "__call__"), w.real("later_value"))
    w.check(f"{SQ}.__call__#ensures[after remove the suspender does not react to signal changes]",
            And(r3[0] == "ok", len(sched) == n_sched, o._ev is None, Eq(o._tripped, False)), rp)


# ------------------------------------------------------------------------------------------------ G2: get_futures
@task("SuspenderBase.get_futures", PROP, functions=[f"{SQ}.get_futures", f"{SQ}.__make_event", f"{SQ}._get_justification", f"{SQ}.tripped"],
      expect=[f"{SQ}.get_futures#ensures[not tripped: nothing to wait for; tripped: exactly the wait of the suspender's event, and the justification]"],
      covers=["tripped with an event", "tripped, event made now", "not tripped"])
def get_futures(I):
    w = I.w
    has_ev = w.choose([True, False], "holds an event")
    tripped = w.choose([True, False], "tripped")
    o, eng, loop, sig, ev0, sched, later, sigcalls = _suspender(I, True, has_ev, tripped)
    made = []

    def call_soon_threadsafe(I_, lp, args, kwargs):
        f = args[0]
        sched.append(f)
        if isinstance(f, Closure) and f.qualname.endswith("really_make_the_event"):
            if w.choose([True, False], "loop thread ran really_make_the_event in time"):
                I_.call_value(f)
        return opaque(I_, "handle", methods={"cancel": lambda *a: None})
    loop.spec["methods"]["call_soon_threadsafe"] = call_soon_threadsafe

    def new_event(I_, a, k):
        e = opaque(I_, I_.w.fresh("asyncio_event"), methods={"wait": lambda *a_: None, "set": lambda *a_: None}, truth=True)
        made.append(e)
        return e
    w.stubs["asyncio.Event"] = new_event
    I.setattr(o, "_tripped_message", "beam dump")
    r = catch(I, I.getattr(o, "get_futures"))
    rp = {"replay": "suspenders.get_futures", "has_ev": has_ev, "tripped": tripped}
    name = f"{SQ}.get_futures#ensures[not tripped: nothing to wait for; tripped: exactly the wait of the suspender's event, and the justification]"
    if not tripped:
        w.cover("not tripped")
        w.check(name, r[0] == "ok" and list(r[1][0]) == [] and r[1][1] == "" and not sched, rp)
        return
    if r[0] != "ok":
        # the only licensed failure: the loop thread did not create the event within the 0.1 s the suspender waits for it (a stuck loop)
        w.check(f"{SQ}.get_futures#raises[only when the loop thread could not create the event in time]",
                (not has_ev) and not made and o._ev is None, dict(rp, raised=repr(r[1])))
        return
    futs, just = r[1]
    ev = o._ev
    if ev is None:
        # the event could not be created in time: [None.wait] would have raised; whatever is returned must not be an empty list
        w.check(name, False, dict(rp, note="no event although tripped"))
        return
    w.cover("tripped with an event" if has_ev else "tripped, event made now")
    ok = len(futs) == 1 and getattr(futs[0], "obj", None) is ev and getattr(futs[0], "name", None) == "wait" and (ev is ev0 if has_ev else ev in made)
    w.check(name, ok and ((not isinstance(just, str)) or "beam dump" in just), dict(rp, justification=repr(just)[:80]))


# ------------------------------------------------------------------------------------------------ R3: install / remove on the engine
@task("RunEngine.install_remove_suspender", PROP, functions=[f"{RE}.install_suspender", f"{RE}.remove_suspender", f"{SQ}.install"],
      expect=[f"{RE}.remove_suspender#ensures[an installed suspender is removed exactly once; one that is not installed is left alone; twice is harmless]",
              f"{RE}.install_suspender#ensures[registered, and subscribed to its signal with run=True]"])
def install_remove(I):
    from .re_lib import make_re
    from .bundler_lib import Env
    w = I.w
    env = Env(I)
    calls = []
    other = opaque(I, "other_suspender", methods={"remove": lambda I_, o, a, k: calls.append(("remove", o)), "install": lambda I_, o, a, k: calls.append(("install", o))},
                   truth=True, isinstance_default=False)
    sus = opaque(I, "suspender", methods={"remove": lambda I_, o, a, k: calls.append(("remove", o)), "install": lambda I_, o, a, k: calls.append(("install", o, a[0]))},
                 truth=True, isinstance_default=False)
    start = w.choose(["installed", "not installed"], "suspender")
    re_ = make_re(I, env, _suspenders={other, sus} if start == "installed" else {other})
    r1 = catch(I, I.getattr(re_, "remove_suspender"), sus)
    r2 = catch(I, I.getattr(re_, "remove_suspender"), sus)
    removed = [c for c in calls if c[0] == "remove"]
    w.check(f"{RE}.remove_suspender#ensures[an installed suspender is removed exactly once; one that is not installed is left alone; twice is harmless]",
            r1[0] == "ok" and r2[0] == "ok" and len(removed) == (1 if start == "installed" else 0) and all(c[1] is sus for c in removed)
            and set(I.getattr(re_, "_suspenders")) == {other}, {"replay": "suspenders.engine_remove", "start": start})
    del calls[:]
    r3 = catch(I, I.getattr(re_, "install_suspender"), sus)
    ok = r3[0] == "ok" and sus in I.getattr(re_, "_suspenders") and calls == [("install", sus, re_)]
    # the real install(): sets RE and subscribes with run=True
    o, eng, loop, sig, ev0, sched, later, sigcalls = _suspender(I, False, False, False)
    r4 = catch(I, I.getattr(o, "install"), re_)
    ok2 = r4[0] == "ok" and o.RE is re_ and len(sigcalls) == 1 and sigcalls[0][0] == "subscribe" and sigcalls[0][1] is o and sigcalls[0][2].get("run") is True
    w.check(f"{RE}.install_suspender#ensures[registered, and subscribed to its signal with run=True]", ok and ok2, {"replay": "suspenders.engine_remove", "start": start})


# ------------------------------------------------------------------------------------------------ G1 (T2)
def c31_checks(sc, tr):
    """a suspender tripped at plan start: its condition must be released before the plan's first message"""
    I, w, eng = sc.I, sc.w, sc.eng
    st = {"released": False}
    tripped = sc.pretripped

    def check(kind, *a):
        if kind == "release":
            st["released"] = True
        elif kind == "plan-start" and a[0] is sc.plan:
            w.check(G1, (not tripped) or st["released"], {"requests": list(sc.requests), "replay": "lifecycle.replay", "tripped": tripped})
    tr.checks.append(check)


THOROUGH = os.environ.get("VERIF_TIER") == "thorough"
SCENARIOS = [
    ("custom,checkpoint", "", {"pretripped": True}),
    ("custom,checkpoint", "", {"pretripped": False}),
    ("custom,checkpoint", "pause", {"pretripped": True, "max_requests": 1}),
    ("custom,checkpoint", "abort", {"pretripped": True, "max_requests": 1}),
]
t2_tasks(PROP, "pretripped", SCENARIOS, [c31_checks, c07_checks], expect=[G1])


def _twin(sc, tr):
    def check(kind, *a):
        if kind == "plan-start" and a[0] is sc.plan:
            sc.w.check("twin:a plan never starts while a suspender exists", False)
    tr.checks.append(check)


t2_tasks(PROP, "twin", [("custom", "", {"pretripped": True})], [_twin], twin="twin:a plan never starts while a suspender exists")
