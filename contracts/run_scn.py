"""T2 scenarios: alphabets of plan messages, environment menus and the main-thread driver shared by C02, C04, C06 - C13, C31."""
from .lib import *
from .run_lib import *
from . import aio


# ------------------------------------------------------------------------------------------------ plan alphabets
def msg(cmd, obj=None, *args, run=None, **kwargs):
    return lambda: MsgVal(cmd, obj, tuple(args), dict(kwargs), run)


ALPHABET = {
    "custom": msg("custom"),                       # registered command: returns a value or raises, never suspends
    "custom_async": msg("custom_async"),           # registered command awaiting a device future (environment completes it)
    "null": msg("null"),
    "checkpoint": msg("checkpoint"),
    "clear_checkpoint": msg("clear_checkpoint"),
    "rewindable_off": msg("rewindable", None, False),
    "rewindable_on": msg("rewindable", None, True),
    "pause": msg("pause", None, defer=False),
    "pause_defer": msg("pause", None, defer=True),
    "open_run": msg("open_run"),
    "close_run": msg("close_run"),
    "sleep": msg("sleep", None, 1),
}


def stageable(name="dev"):
    """an abstract Stageable device: stage() / unstage() return the list of staged devices and never fail"""
    return Opaque(name, {"token": "dev", "truth": True, "isinstance_default": False, "isinstance": {"Stageable": True},
                         "hasattr": {"pause": False, "resume": False, "stop": False, "name": True}, "attrs": {"name": name, "parent": None},
                         "methods": {"stage": lambda I_, o, a, k: (_report("dev-stage", o), [o])[1],
                                     "unstage": lambda I_, o, a, k: (_report("dev-unstage", o), [o])[1]}})


DEV = stageable()
ALPHABET["stage"] = msg("stage", DEV)          # implicit checkpoints
ALPHABET["unstage"] = msg("unstage", DEV)

# device-call ledger (C06 / C11): the engine's current world registers itself here; devices report their calls to it
LEDGER = {"event": None}


def _report(kind, dev):
    ev = LEDGER["event"]
    if ev is not None:
        ev(kind, dev)


def movable(name="mot"):
    """an abstract Movable + Stoppable device: set() returns an opaque status, stop() is recorded"""
    def set_(I_, o, a, k):
        _report("dev-set", o)
        return Opaque(I_.w.fresh("status"), {"token": "status", "truth": True, "isinstance_default": False, "hasattr": {},
                                             "methods": {"add_callback": lambda I2, o2, a2, k2: None}})

    def stop(I_, o, a, k):
        _report("dev-stop", o)
        return None
    return Opaque(name, {"token": "dev", "truth": True, "isinstance_default": False, "isinstance": {"Movable": True, "Stoppable": True},
                         "hasattr": {"pause": False, "resume": False, "stop": True, "name": True}, "attrs": {"name": name, "parent": None},
                         "methods": {"set": set_, "stop": stop}})


MOT = movable()
ALPHABET["set"] = msg("set", MOT, 1)


def movable_fallible(name="fmot"):
    """a Movable whose set() either returns a status (reported, so that C13 can compare the plan's response with it) or raises a device
    error (reported, so that C12 can follow it to the plan)"""
    def set_(I_, o, a, k):
        sc = CTX["scenario"]
        c = sc.w.choose(["ok", "raise"], "device set outcome")
        if c == "raise":
            e = Obj(BUILTIN_CLASSES["ValueError"], {"args": ("device refuses the set point",), "__cause__": None}, label=sc.w.fresh("dev_error"))
            sc.eng.event("dev-raise", o, e)
            raise PyRaise(e)
        _report("dev-set", o)
        st = _status(I_)
        sc.eng.event("dev-result", o, st)
        return st

    def stop(I_, o, a, k):
        _report("dev-stop", o)
        return None
    return Opaque(name, {"token": "dev", "truth": True, "isinstance_default": False, "isinstance": {"Movable": True, "Stoppable": True},
                         "hasattr": {"pause": False, "resume": False, "stop": True, "name": True}, "attrs": {"name": name, "parent": None},
                         "methods": {"set": set_, "stop": stop}})


FMOT = movable_fallible()
ALPHABET["set_fallible"] = msg("set", FMOT, 1)

CTX = {"scenario": None}


def movable_async(name="amot"):
    """a Movable whose stop() is asynchronous: it returns an awaitable completed later by the environment, so the engine's cleanup
    (_stop_movable_objects: at pause, at suspension and in the epilogue) itself suspends and requests can land inside it"""
    def set_(I_, o, a, k):
        _report("dev-set", o)
        return _status(I_)

    def stop(I_, o, a, k):
        sc = CTX["scenario"]
        f = aio.AFuture(sc.loop, "devfut", env=True)
        f.msg = None
        f.no_fail = True
        sc.devfuts.append(f)
        f.add_done_callback(lambda fut: _report("dev-stop", o) if fut.state == "FINISHED" and fut.exc is None else None)
        f.facade.spec["awaitable"] = True
        return f.facade
    return Opaque(name, {"token": "dev", "truth": True, "isinstance_default": False, "isinstance": {"Movable": True, "Stoppable": True},
                         "hasattr": {"pause": False, "resume": False, "stop": True, "name": True}, "attrs": {"name": name, "parent": None},
                         "methods": {"set": set_, "stop": stop}})


AMOT = movable_async()
ALPHABET["set_async"] = msg("set", AMOT, 1)


def _status(I_):
    return Opaque(I_.w.fresh("status"), {"token": "status", "truth": True, "isinstance_default": False, "hasattr": {},
                                         "methods": {"add_callback": lambda I2, o2, a2, k2: None}})


FLY = Opaque("fly", {"token": "dev", "truth": True, "isinstance_default": False, "isinstance": {"Flyable": True, "Collectable": True},
                     "hasattr": {"pause": False, "resume": False, "stop": False, "name": True}, "attrs": {"name": "fly", "parent": None},
                     "methods": {"kickoff": lambda I_, o, a, k: _status(I_), "complete": lambda I_, o, a, k: _status(I_)}})
SIG = Opaque("sig", {"token": "dev", "truth": True, "isinstance_default": False, "isinstance": {"Subscribable": True},
                     "hasattr": {"pause": False, "resume": False, "stop": False, "name": True}, "attrs": {"name": "sig", "parent": None}, "methods": {}})
CALLBACK = Opaque("callback", {"token": "callback", "truth": True, "isinstance_default": False, "hasattr": {}})
ALPHABET["kickoff"] = msg("kickoff", FLY)
ALPHABET["collect"] = msg("collect", FLY)
ALPHABET["monitor"] = msg("monitor", SIG)
ALPHABET["unmonitor"] = msg("unmonitor", SIG)
ALPHABET["subscribe"] = msg("subscribe", None, CALLBACK, "all")
# a second run, open at the same time as the first (run key "b"), with its own monitored signal (C41)
SIG_B = Opaque("sig_b", {"token": "dev", "truth": True, "isinstance_default": False, "isinstance": {"Subscribable": True},
                         "hasattr": {"pause": False, "resume": False, "stop": False, "name": True}, "attrs": {"name": "sig_b", "parent": None}, "methods": {}})
ALPHABET["open_run_b"] = msg("open_run", run="b")
ALPHABET["close_run_b"] = msg("close_run", run="b")
ALPHABET["monitor_b"] = msg("monitor", SIG_B, run="b")
ALPHABET["unmonitor_b"] = msg("unmonitor", SIG_B, run="b")


def _none():
    return None
    yield


REQUEST_COROS = {"_request_pause_coro", "_abort_coro", "_stop_coro", "_halt_coro", "_request_suspend"}


class Scenario:
    def __init__(self, I, plan_msgs, env=(), post_pause=("resume", "abort", "stop", "halt"), max_requests=None, handles=True,
                 can_raise=True, engine_kw=None, max_inflight=1, max_depth=2, second_call=None, max_runs=2, suspend_plans=False, re_attrs=None, pretripped=None,
                 paused_env=(), independent_conditions=False, exact_empty_replay=False):
        self.max_depth = max_depth
        # requests another thread makes while the engine sits *paused* and the main thread is at the prompt (the loop thread is alive
        # and processes them at once): e.g. a suspender tripping during a pause.  At most one per visit of the paused state (opt-in)
        self.paused_env = tuple(paused_env.split(",")) if isinstance(paused_env, str) else tuple(paused_env)
        # every suspension request brings its own condition, released by the environment independently of the others (two suspenders
        # tripped at the same time); without it a request made while a condition is unreleased shares that condition
        self.independent_conditions = independent_conditions
        self.releases = []              # all conditions created, in order of request
        self.pretripped = pretripped
        self.re_attrs = dict(re_attrs or {})
        self.suspend_plans = suspend_plans
        self.pre_plans, self.post_plans = [], []
        # A-STATUS: status objects of 'set' are not followed in these scenarios (no 'wait' in the alphabets): registering them is a no-op
        I.call_hooks[f"{RE}._add_status_to_group"] = lambda I_, f, a, k: _none()
        self.second_call = second_call
        self.returns_result = bool((engine_kw or {}).get("call_returns_result"))
        self.I, self.w = I, I.w
        w = I.w
        self.eng = eng = Engine(I, **(engine_kw or {}))
        # opt-in refinement of the replay abstraction: the replay of an EMPTY cache yields no message (otherwise the empty rewind of an inner
        # suspension is taken for plan messages running under the outer one)
        eng.exact_empty_replay = bool(independent_conditions or exact_empty_replay)
        self.re = eng.re
        for k_, v_ in self.re_attrs.items():
            I.setattr(self.re, k_, v_)         # public configuration attributes (e.g. record_interruptions)
        self.loop = eng.loop
        self.env_kinds = tuple(env)
        self.post_pause = tuple(post_pause)
        self.max_requests = max_requests
        self.requests = []              # ghost: kinds of requests made so far
        self.req_made = self.req_done = 0
        self.max_inflight = max_inflight
        self.devfuts = []
        self.release = None             # the suspender's condition (asyncio.Event set by the environment)
        eng.ghost["key"] = self.ghost_key = {}
        self.loop.env_menu = self.env_menu
        LEDGER["event"] = eng.event
        CTX["scenario"] = self
        if pretripped is not None:
            # an installed suspender (abstract: what SuspenderBase.get_futures is proved to return) that is / is not tripped when the plan starts
            if pretripped:
                self.release = aio.AEvent(self.loop, "release")
            rel = self.release

            def get_futures(I_, o, a, k):
                return ([I_.getattr(rel.facade, "wait")], "tripped before the plan started") if pretripped else ([], "")
            sus = Opaque("suspender", {"token": "suspender", "truth": True, "isinstance_default": False, "methods": {"get_futures": get_futures}})
            I.getattr(self.re, "_suspenders").add(sus)
        self.loop.on_outcome_lost = lambda task, tok: eng.event("outcome-lost", getattr(getattr(task, "woken_by", None), "msg", None), tok)

        def custom(I_, a, k):
            c = w.choose(["ok", "raise"], "custom outcome")
            eng.event("handler", a[0], c)
            if c == "ok":
                v = token(w, "resp")
                eng.event("handler-result", a[0], v)
                return aio.Ready(v)
            e = Obj(BUILTIN_CLASSES["ValueError"], {"args": ("device error",), "__cause__": None}, label=w.fresh("dev_error"))
            eng.event("handler-raise", a[0], e)
            raise PyRaise(e)

        def custom_async(I_, a, k):
            f = aio.AFuture(self.loop, "devfut", env=True)
            f.msg = a[0]
            self.devfuts.append(f)
            eng.event("handler-suspends", a[0], f)
            plain_cancel = f.cancel

            def cancel():
                r = plain_cancel()
                if r:
                    eng.event("handler-cancelled", a[0], f)
                return r
            f.cancel = cancel
            return f.facade
        call_method(I, self.re, "register_command", "custom", native(custom))
        call_method(I, self.re, "register_command", "custom_async", native(custom_async))
        # A-RUNS: a plan opens at most `max_runs` runs per scenario (the ledger of opened runs is ghost state of C13)
        # (labels may carry a run key after '@', e.g. 'open_run@a': C14)
        self.plan = Plan(eng, "plan", lambda p: [(m, ALPHABET[m]) for m in plan_msgs if not (m.split("@")[0].startswith("open_run") and len(eng.bundlers) >= max_runs)],
                         handles=handles, can_raise=can_raise)
        uncacheable = set(I.getattr(self.re, "_UNCACHEABLE_COMMANDS"))
        eng.replay_alphabet = lambda p: [(m, ALPHABET[m]) for m in plan_msgs if ALPHABET[m]().command not in uncacheable]

    # ------------------------------------------------------------------ environment
    def env_menu(self):
        I, w, re = self.I, self.w, self.re
        st = self.eng.state
        out = []
        budget = self.max_requests is None or len(self.requests) < self.max_requests
        # A-ENV: at most `max_inflight` requests of other threads are in flight (queued, not yet executed by the loop) at a time
        for t in list(self.loop.tasks):
            if t.done():
                self.loop.tasks.remove(t)
                if t.coro.name.split(".")[-1] in REQUEST_COROS:
                    self.req_done += 1
        inflight = self.req_made - self.req_done
        # A-DEPTH: no new pause / suspension is requested while `max_depth` or more plans (user plan, rewind plans, suspender helper
        # plans) are already stacked up waiting
        deep = len(I.getattr(re, "_plan_stack")) >= self.max_depth
        if st not in ("idle",) and budget and inflight < self.max_inflight:
            for kind in self.env_kinds:
                if deep and kind in ("pause", "pause_defer", "suspend"):
                    continue
                if kind in ("pause", "pause_defer"):
                    out.append((kind, lambda kind=kind: self.request(kind, lambda: call_method(I, re, "request_pause", kind == "pause_defer"))))
                elif kind == "suspend":
                    out.append((kind, lambda: self.request("suspend", self.do_suspend)))
                elif kind in ("abort", "stop", "halt"):
                    out.append((kind, lambda kind=kind: self.request(kind, lambda: call_method(I, re, kind, *(("because",) if kind == "abort" else ())))))
        # completions arrive from other threads / the loop's timer heap: a callback is queued (call_soon_threadsafe), the
        # future completes when that callback runs
        for f in self.devfuts:
            if not f.done() and not getattr(f, "fired", False):
                out.append((f"dev-ok", lambda f=f: self.complete(f, True)))
                if not getattr(f, "no_fail", False):
                    out.append((f"dev-fail", lambda f=f: self.complete(f, False)))
                break          # device futures complete in order of creation (one device)
        for t in self.loop.timers:
            if not t.done() and not getattr(t, "fired", False):
                out.append(("timer", lambda t=t: self.fire(t)))
                break
        if self.independent_conditions:
            for k_, r in enumerate(self.releases):
                if not r.value and not getattr(r, "fired", False):
                    out.append((f"release#{k_}", lambda r=r: self.do_release(r)))
        elif self.release is not None and not self.release.value and not getattr(self.release, "fired", False):
            out.append(("release", self.do_release))
        return out

    def fire(self, t):
        t.fired = True
        self.loop.call_soon(lambda: None if t.done() else t.set_result(None), label="timer")

    def do_release(self, r=None):
        r = self.release if r is None else r
        r.fired = True
        self.eng.event("release", r)
        self.loop.call_soon(r.set, label="release")

    def request(self, kind, act):
        self.requests.append(kind)
        self.req_made += 1
        self.eng.event("request", kind, self.eng.state)
        try:
            act()
        except PyRaise as pr:
            self.eng.event("request-raised", kind, pr.exc)

    def do_suspend(self):
        I = self.I
        fresh = self.release is None or self.release.value or self.independent_conditions
        if fresh:
            self.release = aio.AEvent(self.loop, f"release{len(self.releases)}" if self.independent_conditions else "release")
            self.releases.append(self.release)
        self.eng.event("suspend-requested", fresh)
        # ghost: what was REQUESTED (condition, pre-plan, post-plan), in order of request - the roles as the environment gave them
        self.suspensions = getattr(self, "suspensions", [])
        if not self.suspend_plans:
            self.suspensions.append({"cond": self.release, "pre": None, "post": None, "started": False})
            call_method(I, self.re, "request_suspend", I.getattr(self.release.facade, "wait"))
            return
        # the suspender's pre / post plans: arbitrary short plans of harmless messages
        n = len(self.pre_plans)
        pre = Plan(self.eng, f"pre{n}", lambda p: [("null", ALPHABET["null"])], handles=False, can_raise=False, max_len=1)
        post = Plan(self.eng, f"post{n}", lambda p: [("null", ALPHABET["null"])], handles=False, can_raise=False, max_len=1)
        pre.canon_name, post.canon_name = "pre", "post"
        self.pre_plans.append(pre)
        self.post_plans.append(post)
        self.suspensions.append({"cond": self.release, "pre": pre, "post": post, "started": False})
        call_method(I, self.re, "request_suspend", I.getattr(self.release.facade, "wait"), pre_plan=pre, post_plan=post, justification="beam dump")

    def complete(self, f, ok):
        w = self.w
        f.fired = True
        # the completion counts only if it is delivered: a wait the engine has cancelled in the meantime never sees it
        if ok:
            v = token(w, "resp")

            def deliver():
                if not f.done():
                    self.eng.event("dev-complete", f, v)
                    f.set_result(v)
            self.loop.call_soon(deliver, label="dev-complete")
        else:
            e = Obj(BUILTIN_CLASSES["ValueError"], {"args": ("device error",), "__cause__": None}, label=w.fresh("dev_error"))

            def deliver():
                if not f.done():
                    self.eng.event("dev-fail", f, e)
                    f.set_exception(e)
            self.loop.call_soon(deliver, label="dev-fail")

    # ------------------------------------------------------------------ main thread
    def run(self, on_return=None):
        """RE(plan), then post-pause decisions until the engine is idle (or the decision menu is empty)"""
        eng, w = self.eng, self.w
        calls = []

        def one_call():
            r = eng.call("__call__", self.plan)
            calls.append(("__call__", r))
            if on_return:
                on_return("__call__", r)
            while eng.state == "paused" and self.post_pause:
                self.loop.cut("main thread: engine paused")       # closure on the paused configuration
                if self.paused_env and (self.max_requests is None or len(self.requests) < self.max_requests):
                    k = w.choose(["nothing"] + list(self.paused_env), "while paused")
                    if k != "nothing":
                        self.loop.env_thread = True
                        try:
                            if k == "suspend":
                                self.request("suspend", self.do_suspend)
                            else:
                                self.request(k, lambda k=k: call_method(self.I, self.re, "request_pause", k == "pause_defer"))
                        finally:
                            self.loop.env_thread = False
                        while self.loop.ready:                    # the loop thread handles the request while the main thread is idle
                            self.loop.step_one()
                        eng.event("cut", "main thread: engine paused, request handled")
                        if eng.state != "paused":
                            break
                d = w.choose(list(self.post_pause), "post-pause decision")
                if d != "resume":
                    self.requests.append(d)
                    eng.event("request", d, "paused")
                r = eng.call(d, *(("because",) if d == "abort" else ()))
                calls.append((d, r))
                if on_return:
                    on_return(d, r)
        one_call()
        if self.second_call is not None and eng.state == "idle":
            # the next plan on the same engine: what the previous call left behind must not leak into it
            names = list(self.second_call)
            self.plan = Plan(eng, "plan2", lambda p: [(m, ALPHABET[m]) for m in names], handles=False, can_raise=False, max_len=2)
            self.requests = []
            self.env_kinds = ()
            one_call()
        return calls
