"""T2 scenarios: alphabets of plan messages, environment menus and the main-thread driver shared by C02, C04, C06 - C13, C31."""
from .lib import *
from .run_lib import *
from . import aio


# ------------------------------------------------------------------------------------------------ plan alphabets
def msg(cmd, obj=None, *args, run=None, **kwargs):
    return lambda: MsgVal(cmd, obj, tuple(args), dict(kwargs), run)


ALPHABET = {
    "custom": msg("custom"),                       # registered command: returns a value or raises, never suspends
    "custom_async": msg("custom_async"),           # registered command awaiting a device future (environment completes it)
    "null": msg("null"),
    "checkpoint": msg("checkpoint"),
    "clear_checkpoint": msg("clear_checkpoint"),
    "rewindable_off": msg("rewindable", None, False),
    "rewindable_on": msg("rewindable", None, True),
    "pause": msg("pause", None, defer=False),
    "pause_defer": msg("pause", None, defer=True),
    "open_run": msg("open_run"),
    "close_run": msg("close_run"),
    "sleep": msg("sleep", None, 1),
}


def stageable(name="dev"):
    """an abstract Stageable device: stage() / unstage() return the list of staged devices and never fail"""
    return Opaque(name, {"token": "dev", "truth": True, "isinstance_default": False, "isinstance": {"Stageable": True},
                         "hasattr": {"pause": False, "resume": False, "stop": False, "name": True}, "attrs": {"name": name, "parent": None},
                         "methods": {"stage": lambda I_, o, a, k: (_report("dev-stage", o), [o])[1],
                                     "unstage": lambda I_, o, a, k: (_report("dev-unstage", o), [o])[1]}})


DEV = stageable()
ALPHABET["stage"] = msg("stage", DEV)          # implicit checkpoints
ALPHABET["unstage"] = msg("unstage", DEV)

# device-call ledger (C06 / C11): the engine's current world registers itself here; devices report their calls to it
LEDGER = {"event": None}


def _report(kind, dev):
    ev = LEDGER["event"]
    if ev is not None:
        ev(kind, dev)


def movable(name="mot"):
    """an abstract Movable + Stoppable device: set() returns an opaque status, stop() is recorded"""
    def set_(I_, o, a, k):
        _report("dev-set", o)
        return Opaque(I_.w.fresh("status"), {"token": "status", "truth": True, "isinstance_default": False, "hasattr": {},
                                             "methods": {"add_callback": lambda I2, o2, a2, k2: None}})

    def stop(I_, o, a, k):
        _report("dev-stop", o)
        return None
    return Opaque(name, {"token": "dev", "truth": True, "isinstance_default": False, "isinstance": {"Movable": True, "Stoppable": True},
                         "hasattr": {"pause": False, "resume": False, "stop": True, "name": True}, "attrs": {"name": name, "parent": None},
                         "methods": {"set": set_, "stop": stop}})


MOT = movable()
ALPHABET["set"] = msg("set", MOT, 1)


def _status(I_):
    return Opaque(I_.w.fresh("status"), {"token": "status", "truth": True, "isinstance_default": False, "hasattr": {},
                                         "methods": {"add_callback": lambda I2, o2, a2, k2: None}})


FLY = Opaque("fly", {"token": "dev", "truth": True, "isinstance_default": False, "isinstance": {"Flyable": True, "Collectable": True},
                     "hasattr": {"pause": False, "resume": False, "stop": False, "name": True}, "attrs": {"name": "fly", "parent": None},
                     "methods": {"kickoff": lambda I_, o, a, k: _status(I_), "complete": lambda I_, o, a, k: _status(I_)}})
SIG = Opaque("sig", {"token": "dev", "truth": True, "isinstance_default": False, "isinstance": {"Subscribable": True},
                     "hasattr": {"pause": False, "resume": False, "stop": False, "name": True}, "attrs": {"name": "sig", "parent": None}, "methods": {}})
CALLBACK = Opaque("callback", {"token": "callback", "truth": True, "isinstance_default": False, "hasattr": {}})
ALPHABET["kickoff"] = msg("kickoff", FLY)
ALPHABET["collect"] = msg("collect", FLY)
ALPHABET["monitor"] = msg("monitor", SIG)
ALPHABET["unmonitor"] = msg("unmonitor", SIG)
ALPHABET["subscribe"] = msg("subscribe", None, CALLBACK, "all")


def _none():
    return None
    yield


REQUEST_COROS = {"_request_pause_coro", "_abort_coro", "_stop_coro", "_halt_coro", "_request_suspend"}


class Scenario:
    def __init__(self, I, plan_msgs, env=(), post_pause=("resume", "abort", "stop", "halt"), max_requests=None, handles=True,
                 can_raise=True, engine_kw=None, max_inflight=1, max_depth=2, second_call=None, max_runs=2, suspend_plans=False, re_attrs=None, pretripped=None):
        self.max_depth = max_depth
        self.pretripped = pretripped
        self.re_attrs = dict(re_attrs or {})
        self.suspend_plans = suspend_plans
        self.pre_plans, self.post_plans = [], []
        # A-STATUS: status objects of 'set' are not followed in these scenarios (no 'wait' in the alphabets): registering them is a no-op
        I.call_hooks[f"{RE}._add_status_to_group"] = lambda I_, f, a, k: _none()
        self.second_call = second_call
        self.returns_result = bool((engine_kw or {}).get("call_returns_result"))
        self.I, self.w = I, I.w
        w = I.w
        self.eng = eng = Engine(I, **(engine_kw or {}))
        self.re = eng.re
        for k_, v_ in self.re_attrs.items():
            I.setattr(self.re, k_, v_)         # public configuration attributes (e.g. record_interruptions)
        self.loop = eng.loop
        self.env_kinds = tuple(env)
        self.post_pause = tuple(post_pause)
        self.max_requests = max_requests
        self.requests = []              # ghost: kinds of requests made so far
        self.req_made = self.req_done = 0
        self.max_inflight = max_inflight
        self.devfuts = []
        self.release = None             # the suspender's condition (asyncio.Event set by the environment)
        eng.ghost["key"] = self.ghost_key = {}
        self.loop.env_menu = self.env_menu
        LEDGER["event"] = eng.event
        if pretripped is not None:
            # an installed suspender (abstract: what SuspenderBase.get_futures is proved to return) that is / is not tripped when the plan starts
            if pretripped:
                self.release = aio.AEvent(self.loop, "release")
            rel = self.release

            def get_futures(I_, o, a, k):
                return ([I_.getattr(rel.facade, "wait")], "tripped before the plan started") if pretripped else ([], "")
            sus = Opaque("suspender", {"token": "suspender", "truth": True, "isinstance_default": False, "methods": {"get_futures": get_futures}})
            I.getattr(self.re, "_suspenders").add(sus)
        self.loop.on_outcome_lost = lambda task, tok: eng.event("outcome-lost", getattr(getattr(task, "woken_by", None), "msg", None), tok)

        def custom(I_, a, k):
            c = w.choose(["ok", "raise"], "custom outcome")
            eng.event("handler", a[0], c)
            if c == "ok":
                v = token(w, "resp")
                eng.event("handler-result", a[0], v)
                return aio.Ready(v)
            e = Obj(BUILTIN_CLASSES["ValueError"], {"args": ("device error",), "__cause__": None}, label=w.fresh("dev_error"))
            eng.event("handler-raise", a[0], e)
            raise PyRaise(e)

        def custom_async(I_, a, k):
            f = aio.AFuture(self.loop, "devfut", env=True)
            f.msg = a[0]
            self.devfuts.append(f)
            eng.event("handler-suspends", a[0], f)
            plain_cancel = f.cancel

            def cancel():
                r = plain_cancel()
                if r:
                    eng.event("handler-cancelled", a[0], f)
                return r
            f.cancel = cancel
            return f.facade
        call_method(I, self.re, "register_command", "custom", native(custom))
        call_method(I, self.re, "register_command", "custom_async", native(custom_async))
        # A-RUNS: a plan opens at most `max_runs` runs per scenario (the ledger of opened runs is ghost state of C13)
        # (labels may carry a run key after '@', e.g. 'open_run@a': C14)
        self.plan = Plan(eng, "plan", lambda p: [(m, ALPHABET[m]) for m in plan_msgs if not (m.split("@")[0] == "open_run" and len(eng.bundlers) >= max_runs)],
                         handles=handles, can_raise=can_raise)
        uncacheable = set(I.getattr(self.re, "_UNCACHEABLE_COMMANDS"))
        eng.replay_alphabet = lambda p: [(m, ALPHABET[m]) for m in plan_msgs if ALPHABET[m]().command not in uncacheable]

    # ------------------------------------------------------------------ environment
    def env_menu(self):
        I, w, re = self.I, self.w, self.re
        st = self.eng.state
        out = []
        budget = self.max_requests is None or len(self.requests) < self.max_requests
        # A-ENV: at most `max_inflight` requests of other threads are in flight (queued, not yet executed by the loop) at a time
        for t in list(self.loop.tasks):
            if t.done():
                self.loop.tasks.remove(t)
                if t.coro.name.split(".")[-1] in REQUEST_COROS:
                    self.req_done += 1
        inflight = self.req_made - self.req_done
        # A-DEPTH: no new pause / suspension is requested while `max_depth` or more plans (user plan, rewind plans, suspender helper
        # plans) are already stacked up waiting
        deep = len(I.getattr(re, "_plan_stack")) >= self.max_depth
        if st not in ("idle",) and budget and inflight < self.max_inflight:
            for kind in self.env_kinds:
                if deep and kind in ("pause", "pause_defer", "suspend"):
                    continue
                if kind in ("pause", "pause_defer"):
                    out.append((kind, lambda kind=kind: self.request(kind, lambda: call_method(I, re, "request_pause", kind == "pause_defer"))))
                elif kind == "suspend":
                    out.append((kind, lambda: self.request("suspend", self.do_suspend)))
                elif kind in ("abort", "stop", "halt"):
                    out.append((kind, lambda kind=kind: self.request(kind, lambda: call_method(I, re, kind, *(("because",) if kind == "abort" else ())))))
        # completions arrive from other threads / the loop's timer heap: a callback is queued (call_soon_threadsafe), the
        # future completes when that callback runs
        for f in self.devfuts:
            if not f.done() and not getattr(f, "fired", False):
                out.append((f"dev-ok", lambda f=f: self.complete(f, True)))
                out.append((f"dev-fail", lambda f=f: self.complete(f, False)))
                break          # device futures complete in order of creation (one device)
        for t in self.loop.timers:
            if not t.done() and not getattr(t, "fired", False):
                out.append(("timer", lambda t=t: self.fire(t)))
                break
        if self.release is not None and not self.release.value and not getattr(self.release, "fired", False):
            out.append(("release", self.do_release))
        return out

    def fire(self, t):
        t.fired = True
        self.loop.call_soon(lambda: None if t.done() else t.set_result(None), label="timer")

    def do_release(self):
        r = self.release
        r.fired = True
        self.eng.event("release")
        self.loop.call_soon(r.set, label="release")

    def request(self, kind, act):
        self.requests.append(kind)
        self.req_made += 1
        self.eng.event("request", kind, self.eng.state)
        try:
            act()
        except PyRaise as pr:
            self.eng.event("request-raised", kind, pr.exc)

    def do_suspend(self):
        I = self.I
        fresh = self.release is None or self.release.value
        if fresh:
            self.release = aio.AEvent(self.loop, "release")
        self.eng.event("suspend-requested", fresh)
        if not self.suspend_plans:
            call_method(I, self.re, "request_suspend", I.getattr(self.release.facade, "wait"))
            return
        # the suspender's pre / post plans: arbitrary short plans of harmless messages
        n = len(self.pre_plans)
        pre = Plan(self.eng, f"pre{n}", lambda p: [("null", ALPHABET["null"])], handles=False, can_raise=False, max_len=1)
        post = Plan(self.eng, f"post{n}", lambda p: [("null", ALPHABET["null"])], handles=False, can_raise=False, max_len=1)
        pre.canon_name, post.canon_name = "pre", "post"
        self.pre_plans.append(pre)
        self.post_plans.append(post)
        call_method(I, self.re, "request_suspend", I.getattr(self.release.facade, "wait"), pre_plan=pre, post_plan=post, justification="beam dump")

    def complete(self, f, ok):
        w = self.w
        f.fired = True
        # the completion counts only if it is delivered: a wait the engine has cancelled in the meantime never sees it
        if ok:
            v = token(w, "resp")

            def deliver():
                if not f.done():
                    self.eng.event("dev-complete", f, v)
                    f.set_result(v)
            self.loop.call_soon(deliver, label="dev-complete")
        else:
            e = Obj(BUILTIN_CLASSES["ValueError"], {"args": ("device error",), "__cause__": None}, label=w.fresh("dev_error"))

            def deliver():
                if not f.done():
                    self.eng.event("dev-fail", f, e)
                    f.set_exception(e)
            self.loop.call_soon(deliver, label="dev-fail")

    # ------------------------------------------------------------------ main thread
    def run(self, on_return=None):
        """RE(plan), then post-pause decisions until the engine is idle (or the decision menu is empty)"""
        eng, w = self.eng, self.w
        calls = []

        def one_call():
            r = eng.call("__call__", self.plan)
            calls.append(("__call__", r))
            if on_return:
                on_return("__call__", r)
            while eng.state == "paused" and self.post_pause:
                self.loop.cut("main thread: engine paused")       # closure on the paused configuration
                d = w.choose(list(self.post_pause), "post-pause decision")
                if d != "resume":
                    self.requests.append(d)
                    eng.event("request", d, "paused")
                r = eng.call(d, *(("because",) if d == "abort" else ()))
                calls.append((d, r))
                if on_return:
                    on_return(d, r)
        one_call()
        if self.second_call is not None and eng.state == "idle":
            # the next plan on the same engine: what the previous call left behind must not leak into it
            names = list(self.second_call)
            self.plan = Plan(eng, "plan2", lambda p: [(m, ALPHABET[m]) for m in names], handles=False, can_raise=False, max_len=2)
            self.requests = []
            self.env_kinds = ()
            one_call()
        return calls
