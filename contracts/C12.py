"""C12 - device errors reach the plan at the message that caused them.

Carriers: RunEngine._run (response / exception stack discipline), _status_object_completed, _wait (T1 tasks below) - the
_run part executed symbolically under the asyncio model with an arbitrary plan whose commands raise, or fail later through
the future they wait on, under pauses / suspensions / terminations at every step.

Clauses, from the statement:
  X1  an exception raised by the handler of a message (directly, or by the device future it awaits) is thrown into the plan at the yield
      of that message: the plan never receives a normal response for it, and what it receives is that exception (or what
      superseded it: the control exception of an interruption, or the error of the replayed message after a rewind)
  X2  an exception the plan does not handle ends the call with that exception itself"""
import os

from .t2 import *
from .run_mon2 import c12_checks

PROP = "C12"
TRUSTED = TRUSTED_T2 + [
    "A-ENV: at most one request of another thread is in flight at a time",
    "device operations are abstracted by registered commands that return, raise, or await a device future completed or failed by the environment",
]
NOT_DECIDED = ("status objects of set / trigger / kickoff finishing unsuccessfully between their message and the wait on their group "
               "(_status_object_completed + _wait) are covered by the T1 tasks of this file, not under every interleaving")
THOROUGH = os.environ.get("VERIF_TIER") == "thorough"

SCENARIOS = [
    ("custom,checkpoint", "", {}),
    ("custom,custom_async,checkpoint", "", {}),
    ("custom,checkpoint", "pause", {}),
    ("custom_async,checkpoint", "pause", {}),
    ("custom,checkpoint", "suspend", {}),
    ("custom_async", "abort", {}),
]
if THOROUGH:
    SCENARIOS += [
        ("custom,custom_async,checkpoint", "pause,abort", {"max_requests": 2}),
        ("custom_async,checkpoint", "suspend", {}),
        ("custom,checkpoint,clear_checkpoint", "pause", {}),
    ]

X1 = f"{REQ}._run#ensures[a device error is thrown into the plan at the yield of the message that caused it]"
t2_tasks(PROP, "errors", SCENARIOS, [c12_checks], expect=[X1])


def _twin(sc, tr):
    def check(kind, *a):
        if kind == "plan-throw" and a[0] is sc.plan:
            sc.w.check("twin:nothing is ever thrown into the plan", False)
    tr.checks.append(check)


t2_tasks(PROP, "twin", [("custom", "", {})], [_twin], twin="twin:nothing is ever thrown into the plan")
