"""C12 - device errors reach the plan at the message that caused them.

Carriers: RunEngine._run (response / exception stack discipline), _status_object_completed, _wait (T1 tasks below) - the
_run part executed symbolically under the asyncio model with an arbitrary plan whose commands raise, or fail later through
the future they wait on, under pauses / suspensions / terminations at every step.

Clauses, from the statement:
  X1  an exception raised by the handler of a message (directly, or by the device future it awaits) is thrown into the plan at the yield
      of that message: the plan never receives a normal response for it, and what it receives is that exception (or what
      superseded it: the control exception of an interruption, or the error of the replayed message after a rewind)
  X2  an exception the plan does not handle ends the call with that exception itself"""
import os

from .t2 import *
from .run_mon2 import c12_checks

PROP = "C12"
TRUSTED = TRUSTED_T2 + [
    "A-ENV: at most one request of another thread is in flight at a time",
    "device operations are abstracted by registered commands that return, raise, or await a device future completed or failed by the environment",
]
NOT_DECIDED = ("that a status failing between its message and the wait on its group reaches the plan *at* that wait under every interleaving: proved here "
               "are the pieces - _status_object_completed stores FailedStatus for the plan (C02), _wait consumes exactly its own group, waits for all of its "
               "statuses and leaves watched / other groups registered (T1 tasks below), _run throws a stored exception at the next yield (T2)")
THOROUGH = os.environ.get("VERIF_TIER") == "thorough"

SCENARIOS = [
    ("custom,checkpoint", "", {}),
    ("custom,custom_async,checkpoint", "", {}),
    ("custom,checkpoint", "pause", {}),
    ("custom_async,checkpoint", "pause", {}),
    ("custom,checkpoint", "suspend", {}),
    ("custom_async", "abort", {}),
    # a real handler (_set) calling a device method that raises
    ("set_fallible,custom,checkpoint", "", {}),
    ("set_fallible,checkpoint", "pause", {"max_requests": 2}),
    ("set_fallible,checkpoint", "suspend", {"max_requests": 1}),
]
if THOROUGH:
    SCENARIOS += [
        ("custom,custom_async,checkpoint", "pause,abort", {"max_requests": 2}),
        ("custom_async,checkpoint", "suspend", {}),
        ("custom,checkpoint,clear_checkpoint", "pause", {}),
    ]

X1 = f"{REQ}._run#ensures[a device error is thrown into the plan at the yield of the message that caused it]"
t2_tasks(PROP, "errors", SCENARIOS, [c12_checks], expect=[X1])


def _twin(sc, tr):
    def check(kind, *a):
        if kind == "plan-throw" and a[0] is sc.plan:
            sc.w.check("twin:nothing is ever thrown into the plan", False)
    tr.checks.append(check)


t2_tasks(PROP, "twin", [("custom", "", {})], [_twin], twin="twin:nothing is ever thrown into the plan")


# ------------------------------------------------------------------------------------------------ T1: _wait and its groups
# "for a status: no later than the wait on its group": the wait on a group must really wait for that group's statuses, and waiting on one
# group (also with other groups *watched*) must leave every other group registered for its own wait.
from . import aio as _aio                       # noqa: E402
from .re_lib import make_re, install_tracer     # noqa: E402
from .bundler_lib import Env                    # noqa: E402

WQ = f"{RE}._wait"
G1 = f"{WQ}#frame[waiting on one group leaves every other group, watched or not, registered with its statuses]"
G2 = f"{WQ}#ensures[returns done only when every status of the group has completed; the group is consumed]"


def _mk_wait(watch):
    @task(f"_wait[watch={watch}]", PROP, functions=[WQ, f"{RE}._wait_for", f"{RE}._call_waiting_hook"], expect=[G1, G2], covers=["returned done", "raised"], path_cap=300000)
    def t(I):
        w = I.w
        env = Env(I)
        loop = _aio.install(I)
        install_tracer(I, [])
        span = Opaque("span", {"noop": True, "default_attr": "method"})
        w.stubs[(MR, "trace")] = Opaque("trace", {"methods": {"get_current_span": lambda *a: span}, "isinstance_default": False})
        futs = {n: _aio.AFuture(loop, n, env=True) for n in ("a1", "a2", "w1")}
        fac = {n: native(lambda I_, a, k, f=f: f.facade) for n, f in futs.items()}
        for n, f in fac.items():
            f._canon_label = "factory-" + n
        groups = {"A": {fac["a1"], fac["a2"]}, "W": {fac["w1"]}}
        before = {g: set(s) for g, s in groups.items()}
        sets = dict(groups)
        st = {g: {Opaque(f"status-{g}", {"token": "status", "attrs": {"done": True}, "isinstance_default": False})} for g in groups}
        st_before = {g: set(s) for g, s in st.items()}
        re_ = make_re(I, env, _groups=groups, _status_objs=st, _seen_wait_and_move_on_keys=set(), waiting_hook=None, _loop_for_kwargs={})
        kw = {"group": "A"}
        if watch:
            kw["watch"] = ("W",)
        coro = I.call_value(I.getattr(re_, "_wait"), MsgVal("wait", None, (), kw, None))
        task_ = loop.create_task(coro, "_wait")
        failed = []

        def menu():
            out = []
            for n, f in futs.items():
                if not f.done() and not getattr(f, "fired", False):
                    def ok(f=f):
                        f.fired = True
                        loop.call_soon(lambda: None if f.done() else f.set_result(None), label="status-ok")

                    def fail(f=f, n=n):
                        f.fired = True
                        e = Obj(BUILTIN_CLASSES["ValueError"], {"args": ("failed status",), "__cause__": None}, label="status_error_" + n)
                        failed.append(n)
                        loop.call_soon(lambda: None if f.done() else f.set_exception(e), label="status-fail")
                    out.append((f"{n}-ok", ok))
                    out.append((f"{n}-fail", fail))
            return out
        loop.env_menu = menu
        loop.extra_key = lambda cn: (tuple(sorted(failed)), tuple((n, f.state) for n, f in futs.items()))
        loop.run_until(task_.done, "_wait")
        rp = {"replay": "lifecycle.wait_groups", "watch": watch}
        g = I.getattr(re_, "_groups")
        so = I.getattr(re_, "_status_objs")
        others_ok = all(k in g and g[k] is sets[k] and set(g[k]) == before[k] and k in so and set(so[k]) == st_before[k] for k in ("W",))
        w.check(G1, others_ok, dict(rp, groups={k: len(v) for k, v in g.items()}))
        if task_.exc is None and task_.state == "FINISHED":
            w.cover("returned done")
            w.check(G2, task_.result_v is True and futs["a1"].done() and futs["a2"].done() and "A" not in g and "A" not in so, rp)
        else:
            w.cover("raised")
            w.ok(G2)
    return t


for _watch in (False, True):
    _mk_wait(_watch)
