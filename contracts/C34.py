"""C34 - JSON writers produce files that parse back to the documents.

Carriers: bluesky/callbacks/json_writer.py: JSONWriter.__call__, JSONLinesWriter.__call__ (+ constructors).
Ghost file store: path -> text, a text being a sequence of segments (literal strings and j(record), the JSON text
json.dump writes for a record).  Step contracts:
  JSONWriter:  start -> text' = "[\\n" j(rec) ",\\n" (truncating);  other -> text' = text j(rec) ",\\n";
               stop  -> text' = text j(rec) "\\n]";  the file name is fixed by the first start (uid prefix) or given
  JSONLinesWriter: text' = old j(rec) "\\n" whether or not the file existed; file name fixed at the first call
Lemmas (A-JSON): "[\\n" t1 ",\\n" ... tn "\\n]" with JSON values ti parses to [t1..tn]; a text made of JSON values each
followed by "\\n" has one independently parseable value per line - so earlier lines are kept provided the pre-existing
text is empty or ends with a newline (true for every file this writer produced; stated precondition).
"""
from .lib import *

PROP = "C34"
MJ = "bluesky.callbacks.json_writer"
TRUSTED = ["A-JSON: json.dump(x, f) writes a single-line JSON text j(x) that parses back to x; an array text '[\\n' t1 ',\\n' ... tn '\\n]' parses to [t1, ..., tn]",
           "file system: open(p, 'w') truncates, open(p, 'a') appends, write(s) appends s, Path / name joins, Path.exists() tells whether the path has been created",
           "pre-existing JSON-lines files are empty or end with a newline (every file produced by this writer does)",
           "datetime.today().strftime is an arbitrary fixed string"]
NOT_DECIDED = "partial writes / crashes in the middle of a write; concurrent writers on one file"


class J:
    """j(record): the text json.dump writes"""

    def __init__(self, rec):
        self.rec = rec


def install(I, files):
    w = I.w

    def mkpath(s):
        def truediv(I_, op, a, b):
            other = b if isinstance(a, Opaque) else a
            return mkpath(f"{s}/{other}")
        return Opaque(f"Path({s})", {"attrs": {"$s": s}, "binop": truediv, "isinstance_default": False, "truth": True,
                                     "methods": {"exists": lambda I_, o, a, k: s in files}})
    w.stubs[(MJ, "Path")] = native(lambda I_, a, k: mkpath(a[0]))

    def open_(I_, a, k):
        path, mode = a[0].spec["attrs"]["$s"], (a[1] if len(a) > 1 else k.get("mode", "r"))
        if mode == "w":
            files[path] = []
        elif mode == "a":
            files.setdefault(path, [])
        else:
            raise EngineError(f"open mode {mode}")
        return Opaque(f"file({path})", {"ctx": "transparent", "attrs": {"$path": path, "$encoding": k.get("encoding")}, "isinstance_default": False,
                                        "methods": {"write": lambda I2, o, a2, k2: files[path].append(a2[0])}})
    I.builtins["open"] = native(open_)
    def dump(I_, a, k):
        # precondition of the assumed library contract A-JSON: the text written is pure ASCII (json's default ensure_ascii=True), so that
        # the file - opened without an explicit encoding - can always encode it; a document with non-ASCII text or a lone surrogate
        # (os.fsdecode of a non-UTF-8 path) otherwise raises UnicodeEncodeError in the middle of the record and leaves a file that does not parse
        enc = a[1].spec["attrs"].get("$encoding")
        ascii_only = k.get("ensure_ascii", True) is not False
        w.check(f"{MJ}:json.dump#call.requires[the record is written as pure-ASCII JSON text (ensure_ascii left on), whatever the locale's file encoding]",
                ascii_only, {"replay": "jsonfiles.non_ascii", "kwargs": sorted(k), "encoding": enc})
        files[a[1].spec["attrs"]["$path"]].append(J(a[0]))
    w.stubs["json.dump"] = dump
    w.stubs["datetime.datetime.today"] = lambda I_, a, k: Opaque("today", {"methods": {"strftime": lambda I2, o, a2, k2: "2026-01-01"}})


def is_j(seg, name, doc):
    return isinstance(seg, J) and seg.rec == {"name": name, "doc": doc} and seg.rec["doc"] is doc


@task("JSONWriter", PROP, functions=[f"{MJ}:JSONWriter.__call__", f"{MJ}:JSONWriter.__init__"],
      expect=[f"{MJ}:JSONWriter.__call__#ensures[start truncates and opens the array; other documents are appended with a separator; stop closes the array]",
              "lemma:C34.array text parses to exactly the records in order"])
def json_writer(I):
    w = I.w
    files = {}
    install(I, files)
    given = w.choose([None, "run.json"], "filename given")
    wr = construct(I, f"{MJ}:JSONWriter", "out", given)
    fname = "out/" + (given or "abc.json")
    stale = w.choose([False, True], "a file of that name already exists")
    if stale:
        files[fname] = ["old content"]
    start = {"uid": "abc-123", "time": w.real("t")}
    docs = [("start", start)]
    I.call_value(wr, "start", start)
    ok = list(files) == [fname] and len(files[fname]) == 3 and files[fname][0] == "[\n" and is_j(files[fname][1], "start", start) and files[fname][2] == ",\n"
    n = w.choose([0, 1, 2], "documents between start and stop")
    for i in range(n):
        kind = w.choose(["descriptor", "event"], f"kind {i}")
        d = {"uid": f"d{i}", "v": w.real(f"v{i}")}
        before = list(files[fname])
        I.call_value(wr, kind, d)
        docs.append((kind, d))
        after = files[fname]
        ok = ok and after[:len(before)] == before and len(after) == len(before) + 2 and is_j(after[-2], kind, d) and after[-1] == ",\n"
    stop = {"uid": "s", "exit_status": "success"}
    before = list(files[fname])
    I.call_value(wr, "stop", stop)
    docs.append(("stop", stop))
    after = files[fname]
    ok = ok and after[:len(before)] == before and len(after) == len(before) + 2 and is_j(after[-2], "stop", stop) and after[-1] == "\n]" and list(files) == [fname]
    w.check(f"{MJ}:JSONWriter.__call__#ensures[start truncates and opens the array; other documents are appended with a separator; stop closes the array]",
            ok, {"replay": "jsonfiles.roundtrip"})
    # lemma: the accumulated text has the array shape of A-JSON with exactly the records, in order
    t = files[fname]
    shape = (t[0] == "[\n" and t[-1] == "\n]" and len(t) == 2 * len(docs) + 1
             and all(is_j(t[1 + 2 * i], *docs[i]) for i in range(len(docs))) and all(t[2 + 2 * i] == ",\n" for i in range(len(docs) - 1)))
    w.check("lemma:C34.array text parses to exactly the records in order", shape, {"replay": "jsonfiles.roundtrip"})


@task("JSONLinesWriter", PROP, functions=[f"{MJ}:JSONLinesWriter.__call__", f"{MJ}:JSONLinesWriter.__init__"],
      expect=[f"{MJ}:JSONLinesWriter.__call__#ensures[appends j(record) and a newline, keeping the earlier content; file name fixed at the first call]"])
def jsonl_writer(I):
    w = I.w
    files = {}
    install(I, files)
    given = w.choose([None, "log.jsonl"], "filename given")
    first = w.choose(["start", "event"], "first document")
    wr = construct(I, f"{MJ}:JSONLinesWriter", "out", given)
    fname = "out/" + (given or ("abc.jsonl" if first == "start" else "2026-01-01.jsonl"))
    existed = w.choose([False, True], "file pre-exists")
    old = [J({"name": "old", "doc": {}}), "\n"] if existed else []
    if existed:
        files[fname] = list(old)
    d1 = {"uid": "abc-123"}
    I.call_value(wr, first, d1)
    d2 = {"uid": "zzz-999"}
    I.call_value(wr, "start", d2)            # a later start must not change the file name
    t = files.get(fname, [])
    ok = (list(files) == [fname] and t[:len(old)] == old and len(t) == len(old) + 4 and is_j(t[len(old)], first, d1) and t[len(old) + 1] == "\n"
          and is_j(t[len(old) + 2], "start", d2) and t[len(old) + 3] == "\n")
    w.check(f"{MJ}:JSONLinesWriter.__call__#ensures[appends j(record) and a newline, keeping the earlier content; file name fixed at the first call]",
            ok, {"replay": "jsonfiles.roundtrip"})
