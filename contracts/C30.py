"""C30 - suspenders trip and release exactly on their documented conditions.

Carriers (real code, bluesky/suspenders.py): every `__init__`, `_validate`, `_op`, `_should_suspend`,
`_should_resume` of the built-in suspender classes, and `SuspenderBase.__call__` (state update).
Top-level clauses are taken from the property statement / class documentation:
  floor:  suspend <=> v < suspend_thresh          resume <=> v >= resume_thresh (default suspend_thresh)
  ceil:   suspend <=> v > suspend_thresh          resume <=> v <= resume_thresh
  outside band: suspend <=> not (bot < v < top)   resume <=> bot < v < top     (InBand is a renamed alias)
  out band (deprecated): suspend <=> bot < v < top, resume <=> not (bot < v < top)
  bool high: suspend <=> bool(v); bool low mirrored
  when changed: suspend <=> v != expected; resume <=> allow_resume and v == expected;
                expected = the explicitly given expected_value (also falsy ones), else signal.value
and: the two conditions are never true together; explicit thresholds are honoured.
"""
from .lib import *

PROP = "C30"
M = "bluesky.suspenders"
TRUSTED = ["A-REAL: thresholds and signal values are mathematical reals (no rounding, no NaN: the property excludes NaN)",
           "operator.lt/gt, functools.partial, threading.Lock modelled (pyvc/stdstubs.py)",
           "A-LOG: warn()/print() are effect-free"]
NOT_DECIDED = "wall-clock behaviour of the sleep before release; thread interleavings of the ophyd callback thread with the loop thread"


def signal(I, value=None):
    return opaque(I, "signal", attrs={"value": value, "name": "sig"}, methods={}, isinstance_default=False)


def thresholds(I, cls, floor):
    w = I.w
    Q = f"{M}:{cls}"
    sig = signal(I)
    s = w.real("suspend_thresh")
    given = w.choose([True, False], "resume_thresh given")
    r = w.real("resume_thresh") if given else None
    ci = I.P.class_info(M, cls)
    res = catch(I, ci, sig, s, **({"resume_thresh": r} if given else {}))
    r_eff = r if given else s
    inconsistent = (r_eff < s) if floor else (r_eff > s)
    rp = {"replay": "suspenders.threshold", "cls": cls, "given": given}
    if res[0] == "raise":
        w.cover(f"{Q}.__init__ raises")
        w.check(f"{Q}.__init__#raises[ValueError iff resume threshold on the wrong side]",
                And(exc_is(I, res[1], "ValueError"), inconsistent), rp)
        return
    w.cover(f"{Q}.__init__ returns")
    o = res[1]
    w.check(f"{Q}.__init__#ensures[accepted only when thresholds consistent]", Not(inconsistent), rp)
    w.check(f"{Q}.__init__#ensures[suspend threshold honoured]", Eq(o._suspend_thresh, s), rp)
    w.check(f"{Q}.__init__#ensures[explicit resume threshold honoured, default = suspend threshold]", Eq(o._resume_thresh, r_eff), rp)
    v = w.real("value")
    S = call_method(I, o, "_should_suspend", v)
    R = call_method(I, o, "_should_resume", v)
    w.check(f"{Q}._should_suspend#ensures[documented condition]", Eq(S, (v < s) if floor else (v > s)), rp)
    w.check(f"{Q}._should_resume#ensures[documented condition, separate threshold]", Eq(R, (v >= r_eff) if floor else (v <= r_eff)), rp)
    w.check(f"lemma:{cls}.suspend-and-resume-exclusive", Not(And(S, R)), rp)
    return S, R


for _cls, _floor in (("SuspendFloor", True), ("SuspendCeil", False)):
    def _mk(cls=_cls, floor=_floor):
        Q = f"{M}:{cls}"

        @task(f"{cls}", PROP, functions=[f"{M}:_Threshold.__init__", f"{M}:_Threshold._should_suspend", f"{M}:_Threshold._should_resume",
                                         f"{Q}._validate", f"{Q}._op", f"{M}:SuspenderBase.__init__"],
              expect=[f"{Q}._should_suspend#ensures[documented condition]", f"{Q}.__init__#raises[ValueError iff resume threshold on the wrong side]"],
              covers=[f"{Q}.__init__ raises", f"{Q}.__init__ returns"])
        def t(I):
            thresholds(I, cls, floor)

        @task(f"{cls}.twin", PROP, twin=f"twin:{cls}.suspend uses <=")
        def tw(I):
            w = I.w
            s, v = w.real("suspend_thresh"), w.real("value")
            o = construct(I, Q, signal(I), s)
            S = call_method(I, o, "_should_suspend", v)
            w.check(f"twin:{cls}.suspend uses <=", Eq(S, (v <= s) if floor else (v >= s)))
    _mk()


def band(I, cls, outside):
    w = I.w
    Q = f"{M}:{cls}"
    bot, top = w.real("band_bottom"), w.real("band_top")
    ci = I.P.class_info(M, cls)
    res = catch(I, ci, signal(I), bot, top)
    rp = {"replay": "suspenders.band", "cls": cls}
    if res[0] == "raise":
        w.cover(f"{Q}.__init__ raises")
        w.check(f"{Q}.__init__#raises[ValueError iff not bottom < top]", And(exc_is(I, res[1], "ValueError"), Not(bot < top)), rp)
        return
    w.cover(f"{Q}.__init__ returns")
    o = res[1]
    w.check(f"{Q}.__init__#ensures[accepted only when bottom < top]", bot < top, rp)
    v = w.real("value")
    S = call_method(I, o, "_should_suspend", v)
    R = call_method(I, o, "_should_resume", v)
    inside = And(bot < v, v < top)
    w.check(f"{Q}._should_suspend#ensures[documented condition]", Eq(S, Not(inside) if outside else inside), rp)
    w.check(f"{Q}._should_resume#ensures[documented condition]", Eq(R, inside if outside else Not(inside)), rp)
    w.check(f"lemma:{cls}.suspend-and-resume-exclusive", Not(And(S, R)), rp)


for _cls, _outside in (("SuspendWhenOutsideBand", True), ("SuspendInBand", True), ("SuspendOutBand", False)):
    def _mk(cls=_cls, outside=_outside):
        Q = f"{M}:{cls}"
        fns = [f"{M}:_SuspendBandBase.__init__", f"{M}:{'SuspendWhenOutsideBand' if outside else cls}._should_suspend",
               f"{M}:{'SuspendWhenOutsideBand' if outside else cls}._should_resume"]
        if cls != "SuspendWhenOutsideBand":
            fns.append(f"{Q}.__init__")

        @task(f"{cls}", PROP, functions=fns, expect=[f"{Q}._should_suspend#ensures[documented condition]"],
              covers=[f"{Q}.__init__ raises", f"{Q}.__init__ returns"])
        def t(I):
            band(I, cls, outside)
    _mk()


def boolean(I, cls, high):
    w = I.w
    Q = f"{M}:{cls}"
    kind = w.choose(["bool", "int", "real"], "value kind")
    v = {"bool": w.bool, "int": w.int, "real": w.real}[kind]("value")
    o = construct(I, Q, signal(I))
    S = call_method(I, o, "_should_suspend", v)
    R = call_method(I, o, "_should_resume", v)
    truthy = v if kind == "bool" else Not(Eq(v, 0))
    rp = {"replay": "suspenders.boolean", "cls": cls, "kind": kind}
    w.check(f"{Q}._should_suspend#ensures[documented condition]", Eq(S, truthy if high else Not(truthy)), rp)
    w.check(f"{Q}._should_resume#ensures[documented condition]", Eq(R, Not(truthy) if high else truthy), rp)
    w.check(f"lemma:{cls}.suspend-and-resume-exclusive", Not(And(S, R)), rp)


for _cls, _high in (("SuspendBoolHigh", True), ("SuspendBoolLow", False)):
    def _mk(cls=_cls, high=_high):
        Q = f"{M}:{cls}"

        @task(f"{cls}", PROP, functions=[f"{Q}._should_suspend", f"{Q}._should_resume", f"{M}:SuspenderBase.__init__"],
              expect=[f"{Q}._should_suspend#ensures[documented condition]"])
        def t(I):
            boolean(I, cls, high)
    _mk()


# ---------------------------------------------------------------------------------------- SuspendWhenChanged
@task("SuspendWhenChanged", PROP, functions=[f"{M}:SuspendWhenChanged.__init__", f"{M}:SuspendWhenChanged._should_suspend",
                                            f"{M}:SuspendWhenChanged._should_resume"],
      expect=[f"{M}:SuspendWhenChanged.__init__#ensures[explicit expected_value honoured (also falsy), default = signal value]"])
def when_changed(I):
    w = I.w
    Q = f"{M}:SuspendWhenChanged"
    kind = w.choose(["real", "int", "str", "bool"], "value kind")
    mk = {"real": w.real, "int": w.int, "str": w.str, "bool": w.bool}[kind]
    given = w.choose([True, False], "expected_value given")
    ev = mk("expected_value") if given else None
    sv = mk("signal_value")
    allow = w.bool("allow_resume")
    sig = signal(I, sv)
    kw = {"allow_resume": allow}
    if given:
        kw["expected_value"] = ev
    o = construct(I, Q, sig, **kw)
    exp = ev if given else sv
    rp = {"replay": "suspenders.when_changed", "kind": kind, "given": given}
    w.check(f"{Q}.__init__#ensures[explicit expected_value honoured (also falsy), default = signal value]",
            Eq(o.expected_value, exp), rp)
    # the predicates are specified against the *stored* expectation so that the constructor clause above is
    # the only one that depends on how the default is chosen
    stored = o.expected_value
    v = mk("value")
    S = call_method(I, o, "_should_suspend", v)
    R = call_method(I, o, "_should_resume", v)
    w.check(f"{Q}._should_suspend#ensures[documented condition]", Eq(S, Not(Eq(v, stored))), rp)
    w.check(f"{Q}._should_resume#ensures[documented condition]", Eq(I.truth(R) if not isinstance(R, (bool, Sym)) else R, And(allow, Eq(v, stored))), rp)
    w.check("lemma:SuspendWhenChanged.suspend-and-resume-exclusive", Not(And(S, R)), rp)


# ---------------------------------------------------------------------------------------- SuspenderBase.__call__
# State-update contract (DESIGN B): with S = _should_suspend(v), R = _should_resume(v) abstract booleans (callee
# contracts), the call sets tripped' = True if S, False if (not S and R), and leaves it unchanged otherwise.
# Lemma (induction over the value sequence, immediate from this step contract): after any sequence of values the
# suspender is tripped exactly when S held at the most recent value for which S or R held.
@task("SuspenderBase.__call__", PROP,
      functions=[f"{M}:SuspenderBase.__call__", f"{M}:SuspenderBase.__make_event", f"{M}:SuspenderBase.__set_event"],
      expect=[f"{M}:SuspenderBase.__call__#ensures[tripped' = True when suspend condition holds]",
              f"{M}:SuspenderBase.__call__#ensures[tripped' = False and event released when resume condition holds]",
              f"{M}:SuspenderBase.__call__#ensures[unchanged when neither condition holds]",
              f"{M}:SuspenderBase.__call__#ensures[no effect when not installed]"],
      covers=["suspend path", "resume path", "neither path", "not installed", "event creation failed"],
      assumptions=["threads: loop.call_soon_threadsafe(f) either has run f before th_ev.wait(0.1) returns or has not (non-deterministic choice)"])
def suspender_call(I):
    from pyvc.stdstubs import PartialVal
    w = I.w
    Q = f"{M}:SuspenderBase.__call__"
    sched = []          # callbacks handed to the loop
    S = w.bool("should_suspend")
    R = w.bool("should_resume")
    I.call_hooks[f"{M}:SuspenderBase._should_suspend"] = lambda I_, f, a, k: iter_ret(S)
    I.call_hooks[f"{M}:SuspenderBase._should_resume"] = lambda I_, f, a, k: iter_ret(R)
    I.call_hooks[f"{M}:SuspenderBase._get_justification"] = lambda I_, f, a, k: iter_ret("why")

    def call_soon_threadsafe(I_, loop, args, kwargs):
        f = args[0]
        sched.append(f)
        if isinstance(f, Closure) and f.qualname.endswith("really_make_the_event"):
            if w.choose([True, False], "loop thread ran really_make_the_event in time"):
                I_.call_value(f)
        return opaque(I_, "handle", methods={"cancel": lambda *a: None})

    loop = opaque(I, "loop", methods={"call_soon_threadsafe": call_soon_threadsafe, "call_later": lambda *a: None})
    running = w.bool("RE_is_running")
    state = opaque(I, "state", attrs={"is_running": running})
    RE = opaque(I, "RE", attrs={"_loop": loop, "state": state}, methods={"request_suspend": lambda *a: None}, truth=True)
    w.stubs["threading.Event"] = lambda I_, a, k: _thread_event(I_)
    w.stubs["asyncio.Event"] = lambda I_, a, k: opaque(I_, I_.w.fresh("asyncio_event"), methods={"wait": lambda *a: None, "set": lambda *a: None}, truth=True)
    installed = w.choose([True, False], "installed (RE is not None)")
    has_ev = w.choose([False, True], "event already exists")
    ev0 = opaque(I, "ev0", methods={"wait": lambda *a: None, "set": lambda *a: None}, truth=True) if has_ev else None
    tripped0 = w.bool("tripped0")
    from pyvc.stdstubs import _lock
    v = w.real("value")
    # pre-state: the real constructor's fields, then an arbitrary reachable state: the documented fields are set
    # explicitly, every *other* field the constructor creates (hidden state a refactoring may add) is havocked among
    # its initial value / the incoming value / some other value, so that the step contract is proved from any history
    o = construct(I, f"{M}:SuspenderBase", signal(I), sleep=w.real("sleep"))
    documented = {"RE": RE if installed else None, "_ev": ev0, "_tripped": tripped0}
    for k_ in sorted(o.attrs):
        if k_ in documented or k_ in ("_sleep", "_sig", "_pre_plan", "_post_plan", "_tripped_message", "_lock"):
            continue
        init = o.attrs[k_]
        if init is None or isinstance(init, (int, float, bool)):
            mode = w.choose(["initial", "same as incoming value", "other value"], f"hidden field {k_}")
            if mode == "same as incoming value":
                o.attrs[k_] = v
            elif mode == "other value":
                o.attrs[k_] = w.real(f"hidden_{k_}")
    o.attrs.update(documented)
    res = catch(I, I.getattr(o, "__call__"), v)
    rp = {"replay": "suspenders.call_step"}
    if not installed:
        w.cover("not installed")
        w.check(f"{Q}#ensures[no effect when not installed]",
                And(res[0] == "ok", Eq(o._tripped, tripped0), o._ev is ev0, len(sched) == 0), rp)
        return
    if res[0] == "raise":
        # only licensed exception: the asyncio event could not be created in time
        w.cover("event creation failed")
        w.check(f"{Q}#raises[RuntimeError only when the event could not be created; tripped already True]",
                And(exc_is(I, res[1], "RuntimeError"), S, not has_ev, o._ev is None, Eq(o._tripped, True)), rp)
        return
    if I.w.branch(S, "S"):
        w.cover("suspend path")
        w.check(f"{Q}#ensures[tripped' = True when suspend condition holds]", Eq(o._tripped, True), rp)
        reqs = [f for f in sched if isinstance(f, PartialVal) and getattr(f.f, "name", None) == "request_suspend"]
        if has_ev:
            w.check(f"{Q}#ensures[existing event kept, no second suspension request]", And(o._ev is ev0, len(reqs) == 0), rp)
        else:
            ok_req = len(reqs) == 1 and reqs[0].args[0].obj is o._ev and reqs[0].args[0].name == "wait" if reqs else False
            w.check(f"{Q}#ensures[new event; suspension requested once iff the engine is running]",
                    And(o._ev is not None, ite(running, ok_req, len(reqs) == 0)), rp)
    elif I.w.branch(R, "R"):
        w.cover("resume path")
        released = [f for f in sched if isinstance(f, Closure) and f.qualname.endswith("__set_event.local")]
        w.check(f"{Q}#ensures[tripped' = False and event released when resume condition holds]",
                And(Eq(o._tripped, False), o._ev is None, len(released) == (1 if has_ev else 0), len(sched) == len(released)), rp)
    else:
        w.cover("neither path")
        w.check(f"{Q}#ensures[unchanged when neither condition holds]",
                And(Eq(o._tripped, tripped0), o._ev is ev0, len(sched) == 0), rp)


def iter_ret(v):
    return v
    yield


def _thread_event(I):
    box = {"set": False}

    def set_(I_, o, a, k):
        box["set"] = True

    def wait(I_, o, a, k):
        return box["set"]
    return opaque(I, I.w.fresh("th_ev"), methods={"set": set_, "wait": wait})


def bare_obj(I, cls, **attrs):
    return Obj(I.P.class_info(M, cls), attrs)
