"""Ghost monitor for C40 (interruption records are complete and not duplicated) over the events of a T2 scenario.

The abstract bundler of run_lib.py reports every call of `record_interruption(content)`; by the T1 tasks of contracts/C40.py such a call
on an open run created with recording enabled emits exactly one event of the run's 'interruptions' stream with its own seq_num (and the
RunStop counts those events), and nothing otherwise.  What is left for the RunEngine - and stated here over arbitrary plans and schedules -
is the clause of replay/c40_clause.py: the calls a run receives are exactly the interruptions that happened while it was open."""
from .lib import *
from .run_lib import *
from .run_mon import REQ
from .run_mon2 import Mon
from replay.c40_clause import Ledger, MISSING, EXTRA

R_MISSING = f"{REQ}#ensures[every pause, resume and suspension that happens while a run is open is recorded in that run (with the suspension's justification)]"
R_EXTRA = f"{REQ}#ensures[a run holds no interruption record that no pause, resume or suspension accounts for: none is recorded twice, none that did not happen]"
R_FLAG = f"{REQ}._open_run#ensures[a run records interruptions iff the engine's record_interruptions is set]"
NAMES = {MISSING: R_MISSING, EXTRA: R_EXTRA}


class C40(Mon):
    fields = ("key",)

    def __init__(self, sc, tr):
        self.sc, self.tr, self.I, self.w, self.eng = sc, tr, sc.I, sc.w, sc.eng
        self.led = Ledger()
        self.susp_while_paused = False      # (for a vacuity guard only)
        self.hist = []             # diagnostic only (what happened / was recorded, in order): not consulted by an obligation, not in the key
        self.eng.ghost.setdefault("on_transition", []).append(self.on_transition)
        sc.I.setattr(sc.re, "msg_hook", native(lambda I_, a, k: self.eng.event("msg", a[0])))

    @property
    def key(self):
        return self.led.state()

    def report(self, bad):
        sc = self.sc
        for kind in (MISSING, EXTRA):
            mine = [b for b in bad if b[0] == kind]
            if mine:
                self.w.check(NAMES[kind], False, {"requests": list(sc.requests), "replay": "lifecycle.replay", "re_attrs": dict(sc.re_attrs),
                                                  "suspend_plans": bool(sc.suspend_plans), "runs": [f"run {b[1]}: {b[2]!r}: {b[3]}" for b in mine],
                                                  "history": [list(h) for h in self.hist], "scenario": getattr(sc, "info", {}).get("scenario")})

    def happened(self, content, what):
        sc = self.sc
        self.hist.append(("happened", content))
        if self.led.bal:
            # vacuity guards: the interruption happened with a recording run open
            self.w.cover(f"C40:{what} with a run open")
            if len(self.led.bal) > 1:
                self.w.cover("C40:interruption with two runs open")
            if what == "pause" and "pause" not in sc.requests and "pause_defer" in sc.requests and "pause-msg" not in self.tr.interrupters:
                self.w.cover("C40:deferred pause takes effect with a run open")
            if what == "suspension" and self.susp_while_paused:
                self.w.cover("C40:suspension requested while paused is carried out with a run open")
            if self.tr.section_nr:
                self.w.cover("C40:interruption in a non-resumable section with a run open")
        self.report(self.led.effect(content))

    def on_transition(self, fr, to):
        if to == "pausing":
            self.happened("pause", "pause")
        elif fr == "paused" and to == "running":
            self.happened("resume", "resume")
        elif to == "paused":
            self.hist.append(("paused",))
            self.report(self.led.progress("reached 'paused'"))

    def __call__(self, kind, *a):
        sc, w = self.sc, self.w
        if kind == "open_run":
            b = a[0]
            want = bool(sc.re_attrs.get("record_interruptions", False))
            w.check(R_FLAG, b.record is want, {"requests": list(sc.requests), "replay": "lifecycle.replay", "re_attrs": dict(sc.re_attrs)})
            if b.record is True:
                self.hist.append(("open", b.idx))
                self.led.open(b.idx)
        elif kind == "close_run":
            b = a[0]
            if b.idx in self.led.bal:
                self.hist.append(("close", b.idx))
                self.report(self.led.close(b.idx))
                w.ok(R_MISSING)
                w.ok(R_EXTRA)
        elif kind == "record_interruption":
            b, content = a
            if b.record is True:
                self.hist.append(("record", b.idx, str(content)))
                self.report(self.led.record(b.idx, str(content)))
        elif kind == "msg":
            m = a[0]
            self.report(self.led.progress(f"executes the next message ({m.command})"))
            if m.command == "_start_suspender":
                j = m.args[2] if len(m.args) > 2 else None
                self.happened("suspended" if j is None else str(j), "suspension")
        elif kind == "request" and a[0] == "suspend" and a[1] == "paused":
            self.susp_while_paused = True
        elif kind == "returned":
            self.hist.append(("returned", a[0]))
            self.report(self.led.returned(a[0]))


def c40_checks(sc, tr):
    tr.checks.append(C40(sc, tr))
