"""Reference generators for C22 (Python's own try/except/else/finally); read as text by contracts/C22.py
and executed natively by replay/generators.py."""
from bluesky.utils import Msg

def ref_finalize(plan, final_plan, pause_for_debug):
    # Python's try/finally around the plan; the cleanup is skipped only when the generator is being closed
    final_plan_instance = final_plan() if callable(final_plan) else final_plan
    closed = False
    try:
        try:
            ret = yield from plan
        except GeneratorExit:
            closed = True
            raise
        except BaseException:
            if pause_for_debug:
                yield Msg("pause", defer=False)
            raise
    finally:
        if not closed:
            yield from final_plan_instance
    return ret


def ref_finalize_decorated(gen_func, final_plan, args, kwargs):
    if not callable(final_plan):
        raise TypeError("final_plan must be a callable")
    final_plan_instance = final_plan()
    plan = gen_func(*args, **kwargs)
    closed = False
    try:
        try:
            ret = yield from plan
        except GeneratorExit:
            closed = True
            raise
    finally:
        if not closed:
            yield from final_plan_instance
    return ret


def ref_contingency(plan, except_plan, else_plan, final_plan, pause_for_debug, auto_raise):
    closed = False
    try:
        try:
            ret = yield from plan
        except GeneratorExit:
            closed = True
            raise
        except Exception as e:
            if pause_for_debug:
                yield Msg("pause", defer=False)
            if except_plan:
                ret = yield from except_plan(e)
                if auto_raise:
                    raise
                else:
                    return ret
            else:
                raise
        else:
            if else_plan:
                yield from else_plan()
    finally:
        if not closed and final_plan:
            yield from final_plan()
    return ret


def ref_raise_now(exc):
    raise exc
    yield
