"""C18: the abstract view of the subscriptions and the clauses judged after every operation of a history, written once from
the statement and evaluated twice: by the proof (contracts/C18.py, on the real code under pyvc) and by the native replay
(replay/dispatcher.py, on the real code under CPython).  No imports on purpose.

View:  subs   : token -> (callable, filter, lifetime)   the live subscriptions ("until its own token is unsubscribed")
       issued : every token ever handed out, live or dead   ("its own token": a token names one subscription for ever)
       live(n): multiset of callables registered for document name n = one entry per live token whose filter covers n
A callable receives a document named n exactly once iff live(n) holds it at least once; nothing else receives it.
Operations (a history is a list of these texts; `#i` is the i-th token handed out in the history, counted from 0):
  subscribe <c> <filter>        Dispatcher.subscribe / RunEngine.subscribe (permanent); the call is written subscribe(c) for `f all`
                                (default filter), subscribe(filter, c) for `g stop` (the argument order of before 0.10, still
                                supported), subscribe(c, filter) otherwise  [subscribe_args]
  unsubscribe #i                Dispatcher.unsubscribe / RunEngine.unsubscribe of an issued token (live or already dead)
  unsubscribe unknown           ... of a token that was never handed out
  unsubscribe_all               Dispatcher.unsubscribe_all
  call <c>:<filter> | call -    a new RE(plan, subs) starts: the per-call and in-plan subscriptions of the previous call end,
                                then the per-call subscription (if any) is made
  msg subscribe <c> <filter>    Msg('subscribe', None, c, filter) inside the current call
  msg unsubscribe #i            Msg('unsubscribe', token=#i) inside the current call (a per-call / in-plan token of this call)
"""
DOCNAMES = ["start", "stop", "event", "descriptor", "event_page", "datum", "resource", "datum_page", "stream_resource", "stream_datum",
            "bulk_events", "bulk_datum"]
UNKNOWN_TOKEN = 12345


def subscribe_args(c, filt, callables):
    """the three supported ways to write the call, spread over the menu"""
    if c == "f" and filt == "all":
        return (callables[c],)
    if c == "g" and filt == "stop":
        return (filt, callables[c])
    return (callables[c], filt)


def covers(filt, n):
    return filt == "all" or filt == n


class View:
    def __init__(self):
        self.subs = {}
        self.issued = []

    # ---- the abstract effect of the operations
    def subscribed(self, token, c, filt, lifetime="permanent"):
        self.issued.append(token)
        self.subs[token] = (c, filt, lifetime)

    def unsubscribed(self, token):
        self.subs.pop(token, None)

    def unsubscribed_all(self):
        self.subs.clear()

    def call_started(self):
        """per-call and in-plan subscriptions are dropped at the end of their call"""
        for t in [t for t, s in self.subs.items() if s[2] != "permanent"]:
            del self.subs[t]

    def temporary(self):
        return [t for t, s in self.subs.items() if s[2] != "permanent"]

    # ---- what is observable
    def live(self, n):
        """multiset (sorted list) of callables registered for document name n"""
        return sorted(c for c, filt, _ in self.subs.values() if covers(filt, n))

    def receivers(self, n):
        return sorted(set(self.live(n)))


def fresh_token_problems(view, token):
    """subscribe: the token is an int that was never handed out before, live or dead (judged before view.subscribed)"""
    out = []
    if not isinstance(token, int) or isinstance(token, bool):
        out.append(f"token {token!r} is not an int")
    elif token in view.issued:
        out.append(f"token {token} was handed out before ({'still live: ' + repr(view.subs[token][:2]) if token in view.subs else 'dead'}); issued so far {view.issued}")
    elif token == UNKNOWN_TOKEN:
        out.append(f"token {token} collides with the 'unknown' token of the harness")
    return out


def delivery_problems(view, received, names=None):
    """received: name -> list of callables that got one document of that name (one entry per delivery)"""
    out = []
    for n in (names or DOCNAMES):
        got, want = sorted(received.get(n, [])), view.receivers(n)
        if got != want:
            out.append(f"a '{n}' document was received by {got}, live subscriptions say {want}")
    return out


def rep_problems(view, concrete, temp_ids=None):
    """the representation invariant.  concrete = {'tokens': {token: [registration ids]}, 'callbacks': {name: [(id, callable)]},
    'func_cid': {name: [(callable, id)]}} read off the Dispatcher / CallbackRegistry fields; temp_ids = RunEngine._temp_callback_ids"""
    out = []
    tm = concrete["tokens"]
    if sorted(tm, key=repr) != sorted(view.subs, key=repr):
        out.append(f"REP1: _token_mapping holds the tokens {sorted(tm, key=repr)}, live are {sorted(view.subs)}")
    regs = {n: {} for n in DOCNAMES}
    for n, pairs in concrete["callbacks"].items():
        for cid, c in pairs:
            if c in regs[n]:
                out.append(f"REP3: '{n}' holds two registrations of {c}")
            regs[n][c] = cid
    for n in DOCNAMES:
        if sorted(regs[n]) != view.receivers(n):
            out.append(f"REP3: the registry holds {sorted(regs[n])} for '{n}', live subscriptions say {view.receivers(n)}")
    for t, (c, filt, _) in view.subs.items():
        want = sorted(repr(regs[n].get(c)) for n in DOCNAMES if covers(filt, n))
        got = sorted(repr(x) for x in tm.get(t, []))
        if t in tm and got != want:
            out.append(f"REP2: token {t} ({c}, {filt}) maps to the registrations {got}, the registry holds {c} under {want}")
    for n in DOCNAMES:
        inv = dict(concrete["func_cid"].get(n, []))
        if inv != regs[n]:
            out.append(f"REP4: _func_cid_map['{n}'] = {inv} but callbacks['{n}'] = {regs[n]}")
    if temp_ids is not None:
        missing = [t for t in view.temporary() if t not in temp_ids]
        wrong = [t for t, s in view.subs.items() if s[2] == "permanent" and t in temp_ids]
        if missing:
            out.append(f"REP5: the live per-call / in-plan tokens {missing} are not in _temp_callback_ids {sorted(temp_ids, key=repr)}: they would outlive their call")
        if wrong:
            out.append(f"REP5: the permanent tokens {wrong} are in _temp_callback_ids: they would be dropped with the call")
    return out


def parse(op):
    """-> (kind, callable, filter, index)"""
    p = op.split()
    if p[0] == "subscribe":
        return ("subscribe", p[1], p[2], None)
    if p[0] == "unsubscribe":
        return ("unsubscribe", None, None, "unknown" if p[1] == "unknown" else int(p[1][1:]))
    if p[0] == "unsubscribe_all":
        return ("unsubscribe_all", None, None, None)
    if p[0] == "call":
        if p[1] == "-":
            return ("call", None, None, None)
        c, filt = p[1].split(":")
        return ("call", c, filt, None)
    if p[0] == "msg" and p[1] == "subscribe":
        return ("msg subscribe", p[2], p[3], None)
    if p[0] == "msg" and p[1] == "unsubscribe":
        return ("msg unsubscribe", None, None, int(p[2][1:]))
    raise ValueError(op)
