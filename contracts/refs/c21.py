"""Reference for C21, transcribed from the property statement / plan_mutator's documentation:
for each host message (first occurrence) the processor is asked once; (None, None) passes the message through;
otherwise head runs (default: the message itself when only a tail is given), the host later receives the response to
head's last message, tail runs right after head with its responses swallowed, inserted messages are yielded as they
are (the processor is not consulted for them), and an exception raised while running head or tail is thrown into the
host at its pending yield."""
from bluesky.utils import single_gen


def ref_plan_mutator(plan, msg_proc):
    seen = {}
    to_send = None
    to_throw = None
    while True:
        try:
            if to_throw is not None:
                e = to_throw
                to_throw = None
                msg = plan.throw(e)
            else:
                msg = plan.send(to_send)
        except StopIteration as stop:
            return stop.value
        head = None
        tail = None
        if id(msg) not in seen:
            seen[id(msg)] = msg
            head, tail = msg_proc(msg)
            if tail is not None and head is None:
                head = single_gen(msg)
        if head is None:
            try:
                to_send = yield msg
            except GeneratorExit:
                plan.close()
                raise
            except Exception as e:
                to_throw = e
            continue
        response = None
        failed = None
        for part, keep in ((head, True), (tail, False)):
            if part is None:
                continue
            r = None
            thrown = None
            last = None
            while True:
                via_throw = None
                try:
                    if thrown is not None:
                        t = thrown
                        thrown = None
                        via_throw = t
                        m = part.throw(t)
                    else:
                        m = part.send(r)
                except StopIteration:
                    # under-specified corner, resolved as the code does: when the *response* to the last inserted
                    # message was an exception (which the inserted plan absorbed by finishing), that exception is
                    # what the host receives
                    if via_throw is not None:
                        failed = via_throw
                    break
                except Exception as e:
                    failed = e
                    break
                try:
                    r = yield m
                    last = r
                except GeneratorExit:
                    plan.close()
                    part.close()
                    raise
                except Exception as e:
                    thrown = e
            if failed is not None:
                break
            if keep:
                response = last
        if failed is not None:
            to_throw = failed
        else:
            to_send = response
