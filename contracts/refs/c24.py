"""References for C24, from the statement: every 'set' on an affected device is commanded to (initial position +
requested offset), the initial position being determined once, right before the device's first set; with
reset_positions_wrapper every device that was moved is commanded back to its initial position whenever the plan
ends with cleanup (everything except close()/halt)."""
from collections import OrderedDict
import uuid

from bluesky.protocols import Locatable
from bluesky.utils import Msg, get_hinted_fields


def ref_initial_position(obj):
    if isinstance(obj, Locatable):
        location = yield Msg("locate", obj)
        return 0 if location is None else location["setpoint"]
    if hasattr(obj, "position"):
        return obj.position
    reading = yield Msg("read", obj)
    if reading is None:
        return 0
    fields = get_hinted_fields(obj)
    if len(fields) == 1:
        (k,) = fields
        return reading[k]["value"]
    if len(fields) == 0:
        return reading[list(reading.keys())[0]]["value"]
    raise Exception("multi-axis")


def _body(plan, devices, initial, relative):
    resp = None
    exc = None
    while True:
        try:
            if exc is not None:
                e = exc
                exc = None
                msg = plan.throw(e)
            else:
                msg = plan.send(resp)
        except StopIteration as stop:
            return stop.value
        try:
            if msg.command == "set" and (devices is None or msg.obj in devices):
                if msg.obj not in initial:
                    pos = yield from ref_initial_position(msg.obj)
                    initial[msg.obj] = pos
                if relative and msg.obj in initial:
                    resp = yield msg._replace(args=(initial[msg.obj] + msg.args[0],))
                else:
                    resp = yield msg
            else:
                resp = yield msg
        except GeneratorExit:
            plan.close()
            raise
        except Exception as e2:
            exc = e2


def ref_relative_set(plan, devices):
    return (yield from _body(plan, devices, {}, True))


def ref_reset_positions(plan, devices):
    initial = OrderedDict()
    closed = []
    try:
        try:
            ret = yield from _body(plan, devices, initial, False)
        except GeneratorExit:
            closed.append(True)
            raise
    finally:
        if not closed:
            grp = f"reset-{str(uuid.uuid4())[:6]}"
            for k, v in initial.items():
                yield Msg("set", k, v, group=grp)
            yield Msg("wait", None, group=grp)
    return ret
