"""User-side callables for C17 (metadata validators / normalizers / a multi-run plan), written once and used on both
sides: read as text by contracts/C17.py (executed symbolically as a virtual module) and exec'd natively by
replay/metadata.py, so the counter-model and its native replay run the same validator / normalizer / plan."""
from bluesky.utils import Msg


def make_validator(seen, mode):
    """a metadata validator: records what it is shown, then - depending on `mode` -
    accept: nothing else;  scribble: fills in defaults / tags its argument (a validator may do what it likes with the
    mapping it is handed: it can only accept or reject);  reject: raises"""
    def validator(md):
        seen.append(dict(md))
        if mode == "scribble":
            md["shared"] = "validator:shared"            # a key the sources may have
            md["only_md"] = "validator:only_md"          # a key of the persistent metadata
            md["checked"] = True                         # a new key
            md.setdefault("operator", "validator:operator")
            md.pop("only_msg", None)
            md["scan_id"] = -7
        if mode == "reject":
            raise ValueError("rejected")
    return validator


def make_normalizer(seen, mode):
    """a metadata normalizer: records what it is shown, then -
    new: returns a new dict (one key dropped, one added) and scribbles on its argument;
    inplace: transforms its argument in place (also one level down) and returns it;  raise: refuses the metadata"""
    def normalizer(md):
        seen.append({k: (dict(v) if isinstance(v, dict) else v) for k, v in md.items()})
        if mode == "raise":
            raise ValueError("normalizer refuses")
        if mode == "new":
            out = dict(md)
            del out["only_md"]
            out["normalized"] = "new"
            md["mutated_by_normalizer"] = 1
            md["only_call"] = "normalizer:only_call"
            return out
        md["normalized"] = "inplace"
        md["only_md"] = "normalizer:only_md"
        if "sample" in md:
            md["sample"]["name"] = "normalizer:sample"
        return md
    return normalizer


def my_plan(runs):
    """opens (and closes) one run per entry of `runs` = [(run_key, open_run metadata), ...]; an entry whose open_run is
    refused ends the plan with that exception"""
    for run_key, md in runs:
        yield Msg("open_run", run=run_key, **md)
        yield Msg("close_run", run=run_key)


def merged(persistent, plan_type, plan_name, open_run_md, call_md, scan_id):
    """the statement: persistent metadata (holding the new scan_id) overlaid by the plan identity, then the open_run
    metadata, then the RE(...) keyword metadata - later sources win"""
    out = dict(persistent)
    out["scan_id"] = scan_id
    out.update({"plan_type": plan_type, "plan_name": plan_name})
    out.update(open_run_md)
    out.update(call_md)
    return out
