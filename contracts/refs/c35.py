"""C35 - reference for RunNormalizer, written from the property statement and the docstrings of the class.

This text is executed twice: by the proof (contracts/C35.py, leaves of the documents are SMT terms) and by the native
replay (replay/normalizer.py, leaves are Python numbers), so both judge by the same clauses.  The executing side
provides the algebra in the globals:  Eq(a, b), And(*conds), ite(cond, a, b).  Arithmetic and comparisons on leaves use
the Python operators (overloaded for SMT terms).

Abstract state of a normalizer (a *view* of its attributes):
  int_keys / ext_keys  names of the internal / external data keys announced by the descriptors so far (reserved names renamed)
  desc_names           descriptor uid -> stream name
  datum_cache          datum_id -> datum document received and not yet converted
  sres_cache           resource uid -> stream resource made from a received Resource
  emitted              uids of the stream resources already emitted
  ext_refs             references (datum_id, data_key, descriptor uid, seq_num) of events whose datum has not arrived yet
  nfi                  (stream name, data_key) -> {'carry', 'index'}: where the next frame-indexed datum continues
step(st, method, doc, cfg) is the transition: it returns the documents that must be emitted (in order) and the exception
class that must be raised (or None) and updates st.
"""
import collections
import posixpath

RESERVED = ("time", "seq_num")
HDF5 = "application/x-hdf5"
FIELDS = {"int_keys": "_int_keys", "ext_keys": "_ext_keys", "desc_names": "_desc_name_by_uid", "datum_cache": "_datum_cache",
          "sres_cache": "_sres_cache", "emitted": "_emitted", "ext_refs": "_ext_ref_cache", "nfi": "_next_frame_index"}
DOC_METHODS = ("start", "stop", "descriptor", "event", "resource", "stream_resource", "stream_datum", "datum", "datum_page", "event_page")


def ren(k):
    return "_" + k if k in RESERVED else k


# ----------------------------------------------------------------------------- structure
def freeze(v):
    """snapshot: every container is copied, leaves are shared"""
    if isinstance(v, dict):
        return {k: freeze(x) for k, x in v.items()}
    if isinstance(v, (list, collections.deque)):
        return [freeze(x) for x in v]
    if isinstance(v, tuple):
        return tuple(freeze(x) for x in v)
    if isinstance(v, (set, frozenset)):
        return set(v)
    return v


def same(a, b):
    """condition: a and b are equal as Python values (dict order ignored, list and tuple are distinguished only by content)"""
    if isinstance(a, dict) or isinstance(b, dict):
        if not (isinstance(a, dict) and isinstance(b, dict)) or set(a) != set(b):
            return False
        return And(*[same(a[k], b[k]) for k in a])
    seq = (list, tuple, collections.deque)
    if isinstance(a, seq) or isinstance(b, seq):
        if not (isinstance(a, seq) and isinstance(b, seq)) or len(a) != len(b):
            return False
        return And(*[same(x, y) for x, y in zip(a, b)])
    if isinstance(a, (set, frozenset)) or isinstance(b, (set, frozenset)):
        return isinstance(a, (set, frozenset)) and isinstance(b, (set, frozenset)) and set(a) == set(b)
    if a is b:
        return True
    if a is None or b is None:
        return False
    return Eq(a, b)


def containers(v, acc=None):
    """id -> object for every mutable container reachable from v"""
    acc = {} if acc is None else acc
    if isinstance(v, (dict, list, set, collections.deque)):
        if id(v) in acc:
            return acc
        acc[id(v)] = v
    if isinstance(v, dict):
        for k, x in v.items():
            containers(k, acc)
            containers(x, acc)
    elif isinstance(v, (list, tuple, collections.deque)):
        for x in v:
            containers(x, acc)
    return acc


def shared_containers(state_roots, docs):
    a = containers(list(state_roots))
    a.pop(id(state_roots), None)
    b = {}
    for d in docs:
        containers(d, b)
    return [a[i] for i in a if i in b]


def view(get):
    """abstract state from the attributes of a normalizer (get(attribute name) -> value)"""
    return {"int_keys": set(get("_int_keys")), "ext_keys": set(get("_ext_keys")), "desc_names": dict(get("_desc_name_by_uid")),
            "datum_cache": freeze(dict(get("_datum_cache"))), "sres_cache": freeze(dict(get("_sres_cache"))),
            "emitted": set(get("_emitted")), "ext_refs": [tuple(r) for r in get("_ext_ref_cache")],
            "nfi": {k: dict(v) for k, v in get("_next_frame_index").items()}}


# ----------------------------------------------------------------------------- log of the collaborators
def emitted_docs(log):
    return [(n, d) for kind, n, d in log if kind == "process"]


def validated_first(log):
    """every document handed to the dispatcher was validated, under the same name, immediately before; nothing else happens"""
    if len(log) % 2:
        return False
    for i in range(0, len(log), 2):
        a, b = log[i], log[i + 1]
        if a[0] != "validate" or b[0] != "process" or a[1] != b[1] or a[2] is not b[2]:
            return False
    return True


# ----------------------------------------------------------------------------- assumed contracts of event_model (stubs of the proof)
def unpack_datum_page(page):
    """event_model.unpack_datum_page: one fresh Datum per row"""
    n = len(page["datum_id"])
    return [{"datum_id": page["datum_id"][i], "datum_kwargs": {k: v[i] for k, v in page["datum_kwargs"].items()}, "resource": page["resource"]}
            for i in range(n)]


def unpack_event_page(page):
    """event_model.unpack_event_page: one fresh Event per row"""
    n = len(page["uid"])
    return [{"descriptor": page["descriptor"], "uid": page["uid"][i], "time": page["time"][i], "seq_num": page["seq_num"][i],
             "data": {k: v[i] for k, v in page["data"].items()}, "timestamps": {k: v[i] for k, v in page["timestamps"].items()},
             "filled": {k: v[i] for k, v in page.get("filled", {}).items()}} for i in range(n)]


# ----------------------------------------------------------------------------- transition
def _patched(cfg, m, doc):
    return dict(doc, patched=True) if m in cfg.get("patches", ()) else doc


def _convert(st, datum_id, key, desc_uid, seq, out):
    """the cached datum `datum_id`, referenced by an event (descriptor desc_uid, number seq) under data key `key`, becomes
    exactly one stream datum; the stream resource (resource uid + '-' + key) is emitted once, before its first stream datum"""
    datum = st["datum_cache"].pop(datum_id)
    kwargs = dict(datum.get("datum_kwargs", {}))
    frame = kwargs.pop("frame", None)
    if frame is None:
        start, stop = seq - 1, seq                       # the event's own row
    else:
        # 'frame' is the last frame index the datum covers; the range continues where the previous datum of this
        # stream and key stopped; a frame index below the previous one means a new file that starts again at frame 0
        e = st["nfi"].setdefault((st["desc_names"][desc_uid], key), {"carry": 0, "index": 0})
        start = e["carry"] + e["index"]
        cont = frame + 1 >= e["index"]
        stop = start + ite(cont, frame + 1 - e["index"], frame + 1)
        e["carry"] = ite(cont, e["carry"], start)
        e["index"] = frame + 1
    res_uid = datum["resource"]
    new_uid = res_uid + "-" + key
    if res_uid in st["sres_cache"] and new_uid not in st["emitted"]:
        s = freeze(st["sres_cache"][res_uid])
        s["data_key"] = key
        s["parameters"].update(kwargs)
        s["uid"] = new_uid
        out.append(("stream_resource", s))
        st["emitted"].add(new_uid)
    out.append(("stream_datum", {"uid": datum_id, "stream_resource": new_uid, "descriptor": desc_uid,
                                 "indices": {"start": start, "stop": stop}, "seq_nums": {"start": start + 1, "stop": stop + 1}}))


def _stream_resource(doc, cfg):
    """latest-schema StreamResource from a Resource / old or new StreamResource; -> (doc, None) | (None, exception class)"""
    if "mimetype" not in doc:
        for k in ("spec", "root", "resource_path", "resource_kwargs"):
            if k not in doc:
                return None, "RuntimeError"
        mimetype = cfg["mimetypes"].get(doc["spec"], "application/octet-stream")
        params = dict(doc["resource_kwargs"])
        path = posixpath.join(doc["root"].strip("/"), doc["resource_path"].strip("/"))
        uri = "file://localhost/" + path.lstrip("/")
    else:
        mimetype, params, uri = doc["mimetype"], dict(doc["parameters"]), doc["uri"]
    if mimetype == HDF5:
        dataset = params["path"] if "path" in params else params.get("dataset", "")
        params.pop("path", None)
        params["dataset"] = dataset
    return {"data_key": doc.get("data_key", ""), "mimetype": mimetype, "parameters": params, "uid": doc["uid"], "uri": uri}, None


def _event(st, doc, out):
    filled = doc.get("filled", {})
    kept, unfilled = [], []
    for k in doc["data"]:
        if ren(k) in st["ext_keys"] and not filled.get(k, False):
            unfilled.append(k)
        else:
            kept.append(k)
    ev = {f: v for f, v in doc.items() if f not in ("data", "timestamps", "filled")}
    ev["data"] = {ren(k): doc["data"][k] for k in kept}
    ev["timestamps"] = {ren(k): doc["timestamps"][k] for k in kept}
    out.append(("event", ev))
    for k in unfilled:
        datum_id = doc["data"][k]
        if datum_id in st["datum_cache"]:
            _convert(st, datum_id, ren(k), doc["descriptor"], doc["seq_num"], out)
        else:
            st["ext_refs"].append((datum_id, ren(k), doc["descriptor"], doc["seq_num"]))


def event_precondition(st, doc):
    """well-formed input: every data key of the event was announced by a descriptor as internal or as external (not both),
    'filled' only speaks about external keys, timestamps cover the data keys"""
    for k in doc["data"]:
        if (ren(k) in st["int_keys"]) == (ren(k) in st["ext_keys"]):
            return False
        if k not in doc["timestamps"]:
            return False
    return all(ren(k) in st["ext_keys"] and isinstance(v, bool) for k, v in doc.get("filled", {}).items())


def _descriptor(st, doc, out):
    dk = doc["data_keys"]
    for name in RESERVED:
        if name in dk and "_" + name in dk:
            return "ValueError"
    d = {f: v for f, v in doc.items() if f not in ("data_keys", "object_keys", "configuration")}
    d["data_keys"] = {ren(k): v for k, v in dk.items()}
    d["object_keys"] = {o: [ren(k) for k in ks] for o, ks in doc["object_keys"].items()}
    d["configuration"] = doc["configuration"]
    out.append(("descriptor", d))
    st["int_keys"] |= {ren(k) for k, v in dk.items() if "external" not in v}
    st["ext_keys"] |= {ren(k) for k, v in dk.items() if "external" in v}
    st["desc_names"][doc["uid"]] = doc["name"]
    return None


VOLATILE_DATA_KEY_FIELDS = ("dtype_descr", "dtype_str", "dtype_numpy", "object_name")


def same_descriptor(exp, got):
    """the emitted descriptor keeps every field and every data key (renamed if reserved); inside a data key only the numpy
    dtype spelling (dtype_descr / dtype_str -> dtype_numpy) and object_name may be normalised"""
    def same_keys(a, b):
        if not isinstance(b, dict) or set(a) != set(b):
            return False
        conds = []
        for k in a:
            x, y = a[k], b[k]
            if not isinstance(y, dict):
                return False
            fx = {f for f in x if f not in VOLATILE_DATA_KEY_FIELDS}
            fy = {f for f in y if f not in VOLATILE_DATA_KEY_FIELDS}
            if fx != fy:
                return False
            conds.extend(same(x[f], y[f]) for f in fx)
        return And(*conds)
    if not isinstance(got, dict) or set(exp) != set(got):
        return False
    conds = [same(exp[f], got[f]) for f in exp if f not in ("data_keys", "object_keys", "configuration")]
    conds.append(same_keys(exp["data_keys"], got["data_keys"]))
    ok = got["object_keys"]
    if set(ok) != set(exp["object_keys"]) or any(sorted(ok[o]) != sorted(exp["object_keys"][o]) for o in ok):
        return False
    if set(got["configuration"]) != set(exp["configuration"]):
        return False
    for o, c in exp["configuration"].items():
        g = got["configuration"][o]
        if set(g) != set(c):
            return False
        conds.extend(same(c[f], g[f]) for f in c if f != "data_keys")
        if "data_keys" in c:
            conds.append(same_keys(c["data_keys"], g["data_keys"]))
    return And(*conds)


def step(st, m, doc, cfg):
    """-> (documents that must be emitted, in order;  exception class name or None).  `doc` must be a snapshot (freeze) of
    the received document, taken before the call"""
    out = []
    if m in ("datum_page", "event_page"):
        rows = unpack_datum_page(doc) if m == "datum_page" else unpack_event_page(doc)
        for r in rows:
            o, exc = step(st, m[:-5], r, cfg)
            out.extend(o)
            if exc:
                return out, exc
        return out, None
    doc = _patched(cfg, m, doc)
    if m in ("start", "stream_datum"):
        out.append((m, doc))
    elif m == "stop":
        for datum_id, key, desc_uid, seq in list(st["ext_refs"]):
            if datum_id not in st["datum_cache"]:
                return out, "RuntimeError"          # the referenced datum never arrived
            _convert(st, datum_id, key, desc_uid, seq, out)
        out.append(("stop", doc))
    elif m == "descriptor":
        exc = _descriptor(st, doc, out)
        if exc:
            return out, exc
    elif m == "event":
        _event(st, doc, out)
    elif m == "resource":
        s, exc = _stream_resource(doc, cfg)
        if exc:
            return out, exc
        st["sres_cache"][doc["uid"]] = s
    elif m == "stream_resource":
        s, exc = _stream_resource(doc, cfg)
        if exc:
            return out, exc
        out.append(("stream_resource", s))
    elif m == "datum":
        st["datum_cache"][doc["datum_id"]] = doc
    else:
        raise ValueError(m)
    return out, None


def same_out(exp, got):
    if len(exp) != len(got) or [n for n, _ in exp] != [n for n, _ in got]:
        return False
    return And(*[same_descriptor(e, g) if n == "descriptor" else same(e, g) for (n, e), (_, g) in zip(exp, got)])


def same_state(exp, got, skip=()):
    return And(*[same(exp[f], got[f]) for f in exp if f not in skip])


# ----------------------------------------------------------------------------- clauses of one step
def clauses(m, rec):
    """rec: method, doc (received document, after the call), snap (its snapshot before), earlier (list of (doc, snapshot taken
    just before this call) of the documents received before), shared_before (ids of the containers the state shared with
    received documents before the call), log, exc (class name | None), exp_out, exp_exc, exp_state, post (view after),
    state_roots"""
    got = emitted_docs(rec["log"])
    c = {}
    c["frame"] = And(same(rec["snap"], rec["doc"]), *[same(s, d) for d, s in rec["earlier"]])
    c["separate"] = not [x for x in shared_containers(rec["state_roots"], [rec["doc"]] + [d for d, _ in rec["earlier"]])
                         if id(x) not in rec["shared_before"]]
    c["validated"] = validated_first(rec["log"])
    c["raises"] = rec["exc"] == rec["exp_exc"]
    if rec["exc"] == rec["exp_exc"]:
        c["emits"] = same_out(rec["exp_out"], got)
        c["state"] = same_state(rec["exp_state"], rec["post"], skip=("ext_refs",) if m == "stop" else ())
    return c


STATE_ATTRS = tuple(FIELDS.values()) + ("spec_to_mimetype",)


def run_call(get, call, m, doc, cfg, received, log, patch_args):
    """one call of a document method on the real code.  get(attribute) reads the normalizer, call(m, doc) runs the method and
    returns the name of the exception class it raised (or None); `received`: the documents received before (extended);
    `log` / `patch_args` are filled by the collaborators during the call.  -> record for all_clauses"""
    snap = freeze(doc)
    earlier = [(d, freeze(d)) for d in received]
    shared_before = {id(x) for x in shared_containers([get(a) for a in STATE_ATTRS], received)}
    st = view(get)
    conv, wait = to_convert(st, m, snap, cfg)
    exp_out, exp_exc = step(st, m, snap, cfg)
    del log[:], patch_args[:]
    exc = call(m, doc)
    received.append(doc)
    return {"m": m, "doc": doc, "snap": snap, "earlier": earlier, "shared_before": shared_before, "log": list(log), "exc": exc,
            "exp_out": exp_out, "exp_exc": exp_exc, "exp_state": st, "post": view(get), "state_roots": [get(a) for a in STATE_ATTRS],
            "converted": conv, "not_converted": wait, "patch_args": list(patch_args), "patched": m in cfg.get("patches", ())}


def all_clauses(rec):
    m = rec["m"]
    c = clauses(m, rec)
    if rec["patched"]:
        c["patchcopy"] = bool(rec["patch_args"]) and all(a is not rec["doc"] for a in rec["patch_args"])
    if rec["exc"] is None and rec["exp_exc"] is None and m in ("event", "stop", "event_page"):
        c["datum"] = datum_clauses(rec)["exactly one stream datum"]
    return c


def to_convert(st, m, doc, cfg):
    """what the statement asks of a call in abstract state st: ([(datum_id, seq_num | None if frame-indexed)] for the referenced
    datums that are available and must each become one stream datum, [datum_id] of referenced datums that must wait)"""
    cache = dict(st["datum_cache"])
    conv, wait = [], []

    def one(datum_id, seq):
        if datum_id in cache:
            d = cache.pop(datum_id)
            conv.append((datum_id, None if d.get("datum_kwargs", {}).get("frame") is not None else seq))
        else:
            wait.append(datum_id)
    if m == "stop":
        for datum_id, key, desc_uid, seq in st["ext_refs"]:
            one(datum_id, seq)
    elif m in ("event", "event_page"):
        for ev in (unpack_event_page(doc) if m == "event_page" else [doc]):
            ev = _patched(cfg, "event", ev)
            for k, v in ev["data"].items():
                if ren(k) in st["ext_keys"] and not ev.get("filled", {}).get(k, False):
                    one(v, ev["seq_num"])
    return conv, wait


def datum_clauses(rec):
    """statement level, read directly off the emitted documents: each datum the call had to convert (rec['converted']:
    list of (datum_id, seq_num or None when frame-indexed)) appears as exactly one stream datum, with matching ranges"""
    got = emitted_docs(rec["log"])
    conds = []
    for datum_id, seq in rec["converted"]:
        sd = [d for n, d in got if n == "stream_datum" and d.get("uid") == datum_id]
        if len(sd) != 1:
            return {"exactly one stream datum": False}
        i, s = sd[0]["indices"], sd[0]["seq_nums"]
        conds.append(And(Eq(s["start"], i["start"] + 1), Eq(s["stop"], i["stop"] + 1)))
        if seq is not None:
            conds.append(And(Eq(i["start"], seq - 1), Eq(i["stop"], seq)))
    for datum_id in rec["not_converted"]:
        if [d for n, d in got if n == "stream_datum" and d.get("uid") == datum_id]:
            return {"exactly one stream datum": False}
    return {"exactly one stream datum": And(*conds)}


def run_lemma(history, referenced, n_events):
    """a whole run (history: the records of its calls, start first, stop last): each referenced datum appears as exactly one
    stream datum, whose stream resource was emitted exactly once and earlier; every event was re-emitted; no call raised;
    at the end every received document still equals its snapshot"""
    got = [e for rec in history for e in emitted_docs(rec["log"])]
    if any(rec["exc"] is not None for rec in history):
        return False
    for datum_id in referenced:
        sd = [i for i, (n, d) in enumerate(got) if n == "stream_datum" and d["uid"] == datum_id]
        if len(sd) != 1:
            return False
        uid = got[sd[0]][1]["stream_resource"]
        sr = [i for i, (n, d) in enumerate(got) if n == "stream_resource" and d["uid"] == uid]
        if len(sr) != 1 or sr[0] > sd[0]:
            return False
    if [n for n, _ in got].count("event") != n_events or got[0][0] != "start" or got[-1][0] != "stop":
        return False
    return And(*[same(rec["snap"], rec["doc"]) for rec in history])


# ----------------------------------------------------------------------------- scenario encoding (pure data <-> values)
def decode(x, sym):
    """JSON-able description -> value; {'$': name, 'k': kind} is a leaf made by sym(name, kind)"""
    if isinstance(x, dict):
        if "$" in x:
            return sym(x["$"], x["k"])
        if "$set" in x:
            return {decode(e, sym) for e in x["$set"]}
        if "$tuple" in x:
            return tuple(decode(e, sym) for e in x["$tuple"])
        if "$items" in x:
            return {decode(k, sym): decode(v, sym) for k, v in x["$items"]}
        return {k: decode(v, sym) for k, v in x.items()}
    if isinstance(x, list):
        return [decode(e, sym) for e in x]
    return x
