"""C29 clauses (invariants, range clauses, ranking functions), written once and evaluated twice: symbolically by the proof
(contracts/C29.py; numbers are z3 reals) and natively by the replay (replay/scans_c29.py; numbers are tolerant floats).
`L` supplies And / Or / ite / half; everything else is ordinary arithmetic and comparison.  No imports on purpose.

adaptive_scan.adaptive_core  (parameters p: start stop min_step max_step target_delta threshold; state s at the loop head:
next_pos step past_I cur_I, the last two None or numbers)
tune_centroid._tune_core     (parameters q: start0 stop0 min_step step_factor num1 (= num - 1); state s at the loop head:
start stop next_pos step peak_position sum_I sum_xI)"""


# ----------------------------------------------------------------------------------------------- adaptive_scan
def a_fwd(L, p, x):
    """x measured along the scan direction (start -> stop)"""
    return L.ite(p["stop"] >= p["start"], x, -x)


def a_m(L, p):
    """smallest step the loop can ever use: min(initial step, min_step)"""
    step0 = L.half(p["max_step"] - p["min_step"])
    return L.ite(step0 <= p["min_step"], step0, p["min_step"])


def a_inv(L, p, s):
    m = a_m(L, p)
    both = (s["past_I"] is None) == (s["cur_I"] is None)
    if s["past_I"] is None:
        # no reference reading yet: only plain forward steps were taken
        origin = a_fwd(L, p, s["next_pos"] - p["start"]) >= 0
    else:
        # next_pos = (last accepted position) + step along the direction; the accepted position is not before start
        origin = a_fwd(L, p, s["next_pos"] - p["start"]) - s["step"] >= 0
    return L.And(both, m <= s["step"], s["step"] <= 2 * p["max_step"], origin)


def a_range(L, p, pos):
    """the statement: only positions between start and stop, never stop itself or beyond"""
    return L.ite(p["stop"] >= p["start"], L.And(p["start"] <= pos, pos < p["stop"]), L.And(p["stop"] < pos, pos <= p["start"]))


def a_rank(L, p, s):
    """(A, B): A = distance from the last accepted position to stop, B = current step"""
    return a_fwd(L, p, p["stop"] - s["next_pos"]) + s["step"], s["step"]


def a_rank_bounded(L, p, s):
    """whenever the body is entered: A >= 0, 0 <= B <= 2 max_step, and the decrements are positive"""
    A, B = a_rank(L, p, s)
    return L.And(A >= 0, B >= 0, B <= 2 * p["max_step"], a_m(L, p) > 0)


def a_decreases(L, p, s0, s1):
    """one iteration: A drops by at least m, or A does not grow and B drops by at least m (1 - threshold) > 0"""
    m = a_m(L, p)
    A0, B0 = a_rank(L, p, s0)
    A1, B1 = a_rank(L, p, s1)
    return L.Or(A1 <= A0 - m, L.And(A1 <= A0, p["threshold"] < 1, B1 <= B0 - m * (1 - p["threshold"])))


def a_decreases_twin(L, p, s0, s1):
    """deliberately wrong: 'every iteration advances by at least m' (false: a back-step re-reads behind the last position)"""
    m = a_m(L, p)
    A0, B0 = a_rank(L, p, s0)
    A1, B1 = a_rank(L, p, s1)
    return A1 <= A0 - m


# ----------------------------------------------------------------------------------------------- tune_centroid
def t_low(L, q):
    return L.ite(q["start0"] <= q["stop0"], q["start0"], q["stop0"])


def t_high(L, q):
    return L.ite(q["start0"] <= q["stop0"], q["stop0"], q["start0"])


def t_in_window(L, q, pos):
    """the statement: between start and stop (the window given to the plan)"""
    return L.And(t_low(L, q) <= pos, pos <= t_high(L, q))


def t_abs(L, x):
    return L.ite(x >= 0, x, -x)


def t_inv(L, q, s, nonneg):
    lo, hi = t_low(L, q), t_high(L, q)
    smin = L.ite(s["start"] <= s["stop"], s["start"], s["stop"])
    smax = L.ite(s["start"] <= s["stop"], s["stop"], s["start"])
    parts = [lo <= s["start"], s["start"] <= hi, lo <= s["stop"], s["stop"] <= hi,
             s["step"] * q["num1"] == s["stop"] - s["start"],
             smin <= s["next_pos"], s["next_pos"] <= smax]
    if nonneg:
        # centroid bookkeeping of the current pass (non-negative signals, positions reported inside the window)
        parts += [s["sum_I"] >= 0, lo * s["sum_I"] <= s["sum_xI"], s["sum_xI"] <= hi * s["sum_I"]]
        if s["peak_position"] is not None:
            parts += [lo <= s["peak_position"], s["peak_position"] <= hi]
    return L.And(*parts)


def t_rank(L, q, s):
    """(A, B): A = |step| (shrinks from pass to pass), B = distance still to travel in the current pass"""
    smin = L.ite(s["start"] <= s["stop"], s["start"], s["stop"])
    smax = L.ite(s["start"] <= s["stop"], s["stop"], s["start"])
    return t_abs(L, s["step"]), L.ite(s["step"] > 0, smax - s["next_pos"], s["next_pos"] - smin)


def t_rank_bounded(L, q, s):
    A, B = t_rank(L, q, s)
    return L.And(A >= q["min_step"], B >= 0, B <= t_high(L, q) - t_low(L, q), q["min_step"] > 0, q["step_factor"] > 1)


def t_decreases(L, q, s0, s1):
    """one iteration: a new pass shrinks |step| by at least min_step (1 - 1/step_factor) (written without the division), or
    the pass continues: |step| unchanged and the remaining distance drops by at least min_step"""
    A0, B0 = t_rank(L, q, s0)
    A1, B1 = t_rank(L, q, s1)
    new_pass = L.And((A0 - A1) * q["step_factor"] >= q["min_step"] * (q["step_factor"] - 1), B1 >= 0, B1 <= t_high(L, q) - t_low(L, q))
    return L.Or(new_pass, L.And(A1 <= A0, B1 <= B0 - q["min_step"]))


def t_decreases_twin(L, q, s0, s1):
    """deliberately wrong: 'every iteration stays in the current pass'"""
    A0, B0 = t_rank(L, q, s0)
    A1, B1 = t_rank(L, q, s1)
    return L.And(A1 <= A0, B1 <= B0 - q["min_step"])
