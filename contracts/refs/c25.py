"""References for C25 (step scans), written from the property statement and the plans' documentation:

* a scan visits the points of its trajectory in order, one per_step call per point, all with the detectors and ONE
  position cache that starts out empty ("not yet moved": None for every motor);
* the default N-dimensional step is: a checkpoint; every motor of the point that is not already where the scan last
  sent it is set to the point's position (one fresh group; the cache is brought up to date), in the order of the
  point's motors; one wait for that group; then ONE reading of the detectors followed by the point's motors;
* the default 1-dimensional step is: a checkpoint, set the motor to the position, wait for it, ONE reading of the
  detectors followed by the motor; the readings are returned.
"""
import uuid

from bluesky.utils import Msg


def ref_move_per_step(step, pos_cache):
    yield Msg("checkpoint")
    grp = "set-" + str(uuid.uuid4())[:6]
    for motor, pos in step.items():
        if not (pos_cache[motor] == pos):
            yield Msg("set", motor, pos, group=grp)
            pos_cache[motor] = pos
    yield Msg("wait", None, group=grp)


def ref_one_nd_step(detectors, step, pos_cache, take_reading):
    yield from ref_move_per_step(step, pos_cache)
    yield from take_reading(list(detectors) + list(step.keys()))


def ref_one_1d_step(detectors, motor, step, take_reading):
    grp = "set-" + str(uuid.uuid4())[:6]
    yield Msg("checkpoint")
    yield Msg("set", motor, step, group=grp)
    yield Msg("wait", None, group=grp)
    return (yield from take_reading(list(detectors) + [motor]))


def ref_scan_points(detectors, points, per_step, pos_cache, declare):
    """the body of a run of scan_nd: (optionally the stream declaration, then) one per_step per point, in order"""
    if declare is not None:
        yield from declare
    for point in points:
        yield from per_step(detectors, point, pos_cache)


def ref_scan_1d_points(detectors, motor, positions, per_step, declare):
    """the body of a run of a one-motor scan (log_scan): one per_step(detectors, motor, position) per position"""
    if declare is not None:
        yield from declare
    for position in positions:
        yield from per_step(detectors, motor, position)


def ref_delegate(plan):
    """a plan that is exactly another plan (same messages, same responses, same result)"""
    return (yield from plan)


def ref_delegate_noresult(plan):
    yield from plan
