"""Reference for C28 (repeat / count), from the statement: the inner plan runs exactly `num` times (forever when num
is None), each repetition preceded by a checkpoint; after a repetition the next requested delay (if there is one) is
slept for its positive remainder; iterable delays with a known length shorter than num-1 are rejected before anything
runs, and running out of delays before the last repetition raises ValueError without a further repetition."""
import itertools
import time
from collections.abc import Iterable

from bluesky.utils import Msg, ensure_generator


def ref_repeat(plan, num, delay):
    if isinstance(delay, Iterable):
        try:
            n_delays = len(delay)
        except TypeError:
            n_delays = None
        if n_delays is not None and num and num - 1 > n_delays:
            raise ValueError("not enough delays")
        delays = iter(delay)
    else:
        delays = itertools.repeat(delay)
    counter = itertools.count() if num is None else range(num)
    for i in counter:
        now = time.time()
        yield Msg("checkpoint")
        yield from ensure_generator(plan())
        try:
            d = next(delays)
        except StopIteration:
            if num is None or i + 1 == num:
                break
            raise ValueError("ran out of delays")
        if d is not None:
            d = d - (time.time() - now)
            if d > 0:
                yield Msg("sleep", None, d)
