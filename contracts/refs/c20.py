"""Reference for C20: a mutator that changes nothing is observationally the wrapped plan itself (PEP 380 delegation)."""


def ref_transparent(plan):
    return (yield from plan)
