"""References for C23 (paired-action wrappers), written from the statement: every action a wrapper takes on entry is
undone exactly once on every exit except close()/halt (GeneratorExit), in reverse order."""
from bluesky.utils import Msg, RunEngineControlException, root_ancestor, separate_devices
from bluesky.protocols import Status
from bluesky.plan_stubs import stage_all, unstage_all


def _guarded(plan, closed_flag):
    try:
        ret = yield from plan
    except GeneratorExit:
        closed_flag.append(True)
        raise
    return ret


def ref_run_wrapper(plan, md):
    rs_uid = yield Msg("open_run", **(md or {}))
    try:
        yield from plan
    except GeneratorExit:
        raise                                   # closed / halted: no close_run
    except RunEngineControlException as e:
        yield Msg("close_run", exit_status=e.exit_status, reason=None)
        raise
    except Exception as e:
        yield Msg("close_run", exit_status="fail", reason=str(e))
        raise
    else:
        yield Msg("close_run", exit_status=None, reason=None)
    return rs_uid


def ref_stage_all(devices, group):
    statuses = False
    for d in devices:
        ret = yield Msg("stage", d, group=group)
        if isinstance(ret, Status):
            statuses = True
    if statuses:
        yield Msg("wait", None, group=group)


def ref_unstage_all(devices, group):
    statuses = False
    for d in devices:
        ret = yield Msg("unstage", d, group=group)
        if isinstance(ret, Status):
            statuses = True
    if statuses:
        yield Msg("wait", None, group=group)


def ref_stage_wrapper(plan, devices):
    roots = separate_devices(root_ancestor(d) for d in devices)
    closed = []
    try:
        try:
            yield from stage_all(*roots)
            ret = yield from plan
        except GeneratorExit:
            closed.append(True)
            raise
    finally:
        if not closed:
            yield from unstage_all(*reversed(roots))
    return ret


def ref_lazily_stage_wrapper(plan):
    commands = {"read", "set", "trigger", "kickoff"}
    staged = []

    def body():
        resp = None
        exc = None
        while True:
            try:
                if exc is not None:
                    e = exc
                    exc = None
                    msg = plan.throw(e)
                else:
                    msg = plan.send(resp)
            except StopIteration as stop:
                return stop.value
            try:
                if msg.command in commands and root_ancestor(msg.obj) not in staged:
                    root = root_ancestor(msg.obj)
                    ret = yield Msg("stage", root)
                    staged.extend([root] if ret is None else ret)
                resp = yield msg
            except GeneratorExit:
                plan.close()
                raise
            except Exception as e2:
                exc = e2

    closed = []
    try:
        try:
            ret = yield from body()
        except GeneratorExit:
            closed.append(True)
            raise
    finally:
        if not closed:
            yield from unstage_all(*reversed(staged))
    return ret


def ref_subs_wrapper(plan, subs):
    tokens = []
    closed = []
    try:
        try:
            for name, funcs in subs.items():
                for func in funcs:
                    token = yield Msg("subscribe", None, func, name)
                    if token not in tokens:
                        tokens.append(token)
            ret = yield from plan
        except GeneratorExit:
            closed.append(True)
            raise
    finally:
        if not closed:
            for token in _as_set_order(tokens):
                yield Msg("unsubscribe", None, token=token)
    return ret


def _as_set_order(tokens):
    s = set()
    for t in tokens:
        s.add(t)
    return s


def ref_suspend_wrapper(plan, suspenders):
    closed = []
    try:
        try:
            for s in suspenders:
                yield Msg("install_suspender", None, s)
            ret = yield from plan
        except GeneratorExit:
            closed.append(True)
            raise
    finally:
        if not closed:
            for s in suspenders:
                yield Msg("remove_suspender", None, s)
    return ret


def ref_during_wrapper(plan, after_open, before_close):
    """monitor_during / fly_during: after each open_run the `after_open` messages (responses swallowed), before each
    close_run the `before_close` messages and then the close_run itself; an exception received while running inserted
    messages reaches the wrapped plan at the original yield"""
    resp = None
    exc = None
    while True:
        try:
            if exc is not None:
                e = exc
                exc = None
                msg = plan.throw(e)
            else:
                msg = plan.send(resp)
        except StopIteration as stop:
            return stop.value
        try:
            if msg.command == "open_run":
                resp = yield msg
                for m in after_open:
                    yield m
            elif msg.command == "close_run":
                for m in before_close:
                    yield m
                resp = yield msg
            else:
                resp = yield msg
        except GeneratorExit:
            plan.close()
            raise
        except Exception as e2:
            exc = e2
