"""Assumed contracts of callees of the C29 carriers (executable form, run by the same interpreter; validated natively against
the real functions by replay/scans_c29.py:validate_contracts)."""
from bluesky.utils import Msg


def mv_contract(*args, group=None, timeout=None, **kwargs):
    """bluesky.plan_stubs.mv for independent axes (no pseudo-positioner merging): one 'set' per (device, value) pair in
    the order given, then one 'wait'; returns the tuple of the responses to the 'set' messages"""
    status_objects = []
    for i in range(0, len(args), 2):
        ret = yield Msg("set", args[i], args[i + 1], group=group, **kwargs)
        status_objects.append(ret)
    yield Msg("wait", None, group=group, timeout=timeout)
    return tuple(status_objects)
