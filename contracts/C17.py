"""C17 - RunStart metadata merges sources with documented precedence.

Carrier: bluesky/run_engine.py: RunEngine._open_run (+ default_scan_id_source, _default_md_validator,
_default_md_normalizer), RunBundler.open_run.
Clauses: for every key, the RunStart carries the value of the highest-precedence source that has it
(RE(...) keyword metadata > open_run metadata > plan identity {plan_type, plan_name} > persistent RE.md), as transformed
by the normalizer (which receives a deep copy); with the default source scan_id' = scan_id + 1 (1 when absent), kept
in RE.md; a rejecting validator means: nothing emitted, no run registered - and, since the run was not opened, no
scan_id consumed ("increases by exactly one per opened run").
"""
from .lib import *
from .re_lib import *

PROP = "C17"
TRUSTED = EM_ASSUMPTIONS + ["collections.ChainMap modelled as the precedence-ordered merge; copy.deepcopy gives a disjoint isomorphic copy",
                            "metadata keys are strings (concrete representatives: one key present in any subset of the sources, one key private to each source)",
                            "the tracer is a recording fake"]
NOT_DECIDED = "custom scan_id_source callables (an awaitable source is awaited); PersistentDict storage of RE.md (C43)"


def setup(I, which):
    w = I.w
    env = Env(I)
    install_tracer(I, [])
    srcs = {}
    vals = {}
    for name in ("call", "msg", "md"):
        d = {f"only_{name}": w.real(f"v_only_{name}")}
        if which[name]:
            vals[name] = w.real(f"v_shared_{name}")
            d["shared"] = vals[name]
        srcs[name] = d
    if which["plan_name_in_md"]:
        srcs["md"]["plan_name"] = "from_md"
    if which["plan_name_in_msg"]:
        srcs["msg"]["plan_name"] = "from_msg"
    sid = w.choose(["absent", "present"], "scan_id in RE.md")
    s0 = w.int("scan_id")
    if sid == "present":
        srcs["md"]["scan_id"] = s0
    re_ = make_re(I, env, md=srcs["md"], _metadata_per_call=srcs["call"],
                  scan_id_source=I.get_function(f"{MR}:default_scan_id_source"), md_validator=I.get_function(f"{MR}:_default_md_validator"),
                  md_normalizer=I.get_function(f"{MR}:_default_md_normalizer"))
    return env, re_, srcs, vals, (s0 if sid == "present" else None)


@task("_open_run.metadata", PROP, functions=[f"{RE}._open_run", f"{MR}:default_scan_id_source", f"{MR}:_default_md_normalizer", f"{MB}:RunBundler.open_run"],
      expect=[f"{RE}._open_run#ensures[every key comes from the highest-precedence source that has it]",
              f"{RE}._open_run#ensures[scan_id' = scan_id + 1 (1 if absent), stored in RE.md and in the RunStart]"])
def metadata(I):
    w = I.w
    which = {"call": w.choose([True, False], "shared key in RE(...) md"), "msg": w.choose([True, False], "shared key in open_run md"),
             "md": w.choose([True, False], "shared key in RE.md"), "plan_name_in_md": w.choose([False, True], "plan_name in RE.md"),
             "plan_name_in_msg": w.choose([False, True], "plan_name in open_run md")}
    env, re_, srcs, vals, s0 = setup(I, which)
    r = call_async(I, I.getattr(re_, "_open_run"), MsgVal("open_run", None, (), dict(srcs["msg"]), None))
    rp = {"replay": "metadata.precedence"}
    starts = [d for n, d in env.emitted if n == "start"]
    ok = r[0] == "ok" and len(starts) == 1
    if not ok:
        w.fail(f"{RE}._open_run#ensures[every key comes from the highest-precedence source that has it]", rp)
        return
    st = starts[0]
    conds = [st.get("only_call") is srcs["call"]["only_call"], st.get("only_msg") is srcs["msg"]["only_msg"], st.get("only_md") is srcs["md"]["only_md"],
             st.get("plan_type") == "generator"]
    winner = next((n for n in ("call", "msg", "md") if which[n]), None)
    conds.append(("shared" not in st) if winner is None else (st.get("shared") is vals[winner]))
    conds.append(st.get("plan_name") == ("from_msg" if which["plan_name_in_msg"] else "my_plan"))
    w.check(f"{RE}._open_run#ensures[every key comes from the highest-precedence source that has it]", all(conds), rp)
    want = 1 if s0 is None else s0 + 1
    w.check(f"{RE}._open_run#ensures[scan_id' = scan_id + 1 (1 if absent), stored in RE.md and in the RunStart]",
            And(Eq(re_.md["scan_id"], want), Eq(st["scan_id"], want)), rp)
    w.check(f"{RE}._open_run#ensures[run registered once, uid returned and remembered]",
            None in re_._run_bundlers and re_._run_start_uids == [r[1]] and st["uid"] == r[1], rp)


@task("_open_run.normalizer_validator", PROP, functions=[f"{RE}._open_run"],
      expect=[f"{RE}._open_run#ensures[normalizer result is what the RunStart carries; it receives a copy]",
              f"{RE}._open_run#ensures[rejecting validator: nothing emitted, no run registered, no scan_id consumed]"])
def normalizer_validator(I):
    w = I.w
    which = {"call": True, "msg": True, "md": True, "plan_name_in_md": False, "plan_name_in_msg": False}
    env, re_, srcs, vals, s0 = setup(I, which)
    case = w.choose(["normalizer", "validator rejects", "normalizer raises"], "case")
    rp = {"replay": "metadata.precedence"}
    if case == "normalizer":
        seen = {}

        def norm(I_, a, k):
            seen["arg"] = a[0]
            out = dict(a[0])
            out["normalized"] = True
            a[0]["mutated_by_normalizer"] = 1          # must not leak into the sources (it got a deep copy)
            return out
        re_.attrs["md_normalizer"] = native(norm)
        r = call_async(I, I.getattr(re_, "_open_run"), MsgVal("open_run", None, (), dict(srcs["msg"]), None))
        starts = [d for n, d in env.emitted if n == "start"]
        w.check(f"{RE}._open_run#ensures[normalizer result is what the RunStart carries; it receives a copy]",
                r[0] == "ok" and len(starts) == 1 and starts[0].get("normalized") is True and "mutated_by_normalizer" not in re_.md
                and "mutated_by_normalizer" not in re_._metadata_per_call and "mutated_by_normalizer" not in srcs["msg"], rp)
        return
    bad = Obj(BUILTIN_CLASSES["ValueError"], {"args": ("rejected",), "__cause__": None}, label="rejected")
    got = {}

    def validator(I_, a, k):
        got["md"] = a[0]
        raise PyRaise(bad)
    if case == "validator rejects":
        re_.attrs["md_validator"] = native(validator)
    else:
        re_.attrs["md_normalizer"] = native(validator)      # the normalizer refuses the metadata: the run is not opened either
    had = "scan_id" in re_.md
    r = call_async(I, I.getattr(re_, "_open_run"), MsgVal("open_run", None, (), dict(srcs["msg"]), None))
    unchanged = Eq(re_.md["scan_id"], s0) if had else ("scan_id" not in re_.md)
    w.check(f"{RE}._open_run#ensures[rejecting validator: nothing emitted, no run registered, no scan_id consumed]",
            And(r[0] == "raise" and r[1] is bad and len(env.emitted) == 0 and len(re_._run_bundlers) == 0 and re_._run_start_uids == []
                and got.get("md") is not None, unchanged), rp)
