"""C17 - RunStart metadata merges sources with documented precedence.

Carrier: bluesky/run_engine.py: RunEngine._open_run (+ default_scan_id_source, _default_md_validator,
_default_md_normalizer), RunBundler.open_run; RunEngine.__call__ / _clear_call_cache for the RE(...) keyword layer.
Clauses (from the statement):
  merge      every RunStart is  normalizer(persistent RE.md [holding the new scan_id] < plan identity {plan_type, plan_name}
             < open_run metadata < RE(...) keyword metadata)  - for an ordinary key, and for the keys the engine itself
             writes (plan_name, plan_type, scan_id), held by any subset of the three user sources; for the first and for a
             later run of the same call; whatever the validator / normalizer do with the mapping they are handed;
  scan_id    with the default source RE.md['scan_id'] goes up by exactly one per opened run (1 when absent) - whatever the
             other sources say about 'scan_id' - and a run that is not opened (validator or normalizer refuses, run key
             already open) consumes none;
  frame      _open_run leaves the sources as they were (RE.md: only scan_id changes) - otherwise a later RunStart would not be
             the documented merge;
  shown      the validator and the normalizer are shown exactly that merge; the normalizer gets a private (deep) copy;
  refused    a rejecting validator (or a refusing normalizer): nothing emitted, no run registered;
  per-call   the RE(...) keyword layer of a call is exactly that call's keyword arguments (nothing left from the call before).
"""
import ast as _ast
import os

from .lib import *
from .re_lib import *
from .run_lib import TRUSTED_T2
from pyvc.bisim import reference_module
from pyvc.stdstubs import deepcopy_value

PROP = "C17"
TRUSTED = EM_ASSUMPTIONS + [
    "collections.ChainMap behaves as the executable model `live_chainmap` below (CPython 3.12 semantics: a live view over the very maps "
    "it was given; look-ups take the first map that has the key; writes, deletions, pop, setdefault, update, clear go to maps[0]; "
    "dict(cm) / iteration give the merged content; copy.deepcopy gives a ChainMap over disjoint isomorphic copies of the maps)",
    "copy.deepcopy gives a disjoint isomorphic copy",
    "metadata keys are strings (concrete representatives: one key private to each source; one key under test - an ordinary one, "
    "'plan_name', 'plan_type' or 'scan_id' - present in any subset of the three user sources); values symbolic",
    "validators / normalizers: the representatives in contracts/refs/c17.py (accepting, rejecting, writing into the mapping they "
    "are handed; returning a new dict or the transformed argument, raising)",
    "the tracer is a recording fake",
    "call.metadata (T2, one concrete two-run plan, two calls, no interruptions): the T2 base below; the RunBundler stand-in records the "
    "metadata it is constructed with (= the RunStart content by the contract proved in _open_run.metadata through the real RunBundler.open_run)",
] + TRUSTED_T2
NOT_DECIDED = ("custom scan_id_source callables (an awaitable source is awaited); PersistentDict storage of RE.md (C43); metadata "
               "keys 'uid' / 'time' (event_model refuses them); validators that write into *nested* values of the shallow copy they get")

REF_FILE = "contracts/refs/c17.py"
REF = open(os.path.join(os.path.dirname(os.path.dirname(os.path.abspath(__file__))), REF_FILE)).read()
_spec_ns = {}
exec(compile(_ast.Module([n for n in _ast.parse(REF).body if isinstance(n, _ast.FunctionDef) and n.name == "merged"], []), REF_FILE, "exec"), _spec_ns)
merged = _spec_ns["merged"]          # the statement's merge, the same function the native replay uses

O_MERGE = f"{RE}._open_run#ensures[every RunStart is normalizer(RE.md < plan identity < open_run md < RE(...) md)]"
O_SCAN = f"{RE}._open_run#ensures[RE.md scan_id' = scan_id + 1 (1 if absent) per opened run, whatever the other sources say]"
O_REG = f"{RE}._open_run#ensures[run registered once, uid returned and remembered]"
O_FRAME = f"{RE}._open_run#ensures[the metadata sources are left as they were (RE.md: only scan_id changes)]"
O_SHOWN = f"{RE}._open_run#ensures[validator and normalizer are shown the merged metadata; the normalizer gets a private copy]"
O_REFUSED = f"{RE}._open_run#ensures[refused run: nothing emitted, no run registered, no scan_id consumed]"
O_CALL = f"{RE}.__call__#ensures[the RE(...) keyword layer is exactly this call's keyword metadata]"


# ------------------------------------------------------------------------------------------------ collections.ChainMap
def live_chainmap(I, a, k):
    """collections.ChainMap(*maps) as a *live view* (assumed contract, see TRUSTED)"""
    if k:
        raise EngineError("ChainMap(**kwargs)")
    maps = list(a) if a else [{}]
    for m in maps:
        if not isinstance(m, dict):
            raise EngineError(f"ChainMap over a non-dict mapping {m!r} (not modelled)")
    return _chainmap_over(maps)


def _chainmap_over(maps):
    def find(I, key):
        I.check_hashable(key)
        for m in maps:
            if key in m:
                return m
        return None

    def as_dict(I, o=None):
        out = {}
        for m in reversed(maps):
            for kk in m:
                out.setdefault(kk, None)
        for kk in out:
            out[kk] = find(I, kk)[kk]
        return out

    def getitem(I, o, key):
        m = find(I, key)
        if m is None:
            I.raise_("KeyError", key)
        return m[key]

    def setitem(I, o, key, v):
        I.check_hashable(key)
        I.note_write(maps[0], key)
        maps[0][key] = v

    def delitem(I, o, key):
        I.check_hashable(key)
        if key not in maps[0]:
            I.raise_("KeyError", f"Key not found in the first mapping: {key!r}")
        I.note_write(maps[0], key)
        del maps[0][key]

    def get(I, o, a, k):
        m = find(I, a[0])
        return (a[1] if len(a) > 1 else k.get("default")) if m is None else m[a[0]]

    def setdefault(I, o, a, k):
        m = find(I, a[0])
        if m is not None:
            return m[a[0]]
        d = a[1] if len(a) > 1 else k.get("default")
        setitem(I, o, a[0], d)
        return d

    def pop(I, o, a, k):
        I.check_hashable(a[0])
        if a[0] in maps[0]:
            I.note_write(maps[0], a[0])
            return maps[0].pop(a[0])
        if len(a) > 1:
            return a[1]
        I.raise_("KeyError", f"Key not found in the first mapping: {a[0]!r}")

    def popitem(I, o, a, k):
        if not maps[0]:
            I.raise_("KeyError", "No keys found in the first mapping.")
        return maps[0].popitem()

    def update(I, o, a, k):
        if a:
            src = a[0]
            if isinstance(src, Opaque) and "as_dict" in src.spec:
                src = src.spec["as_dict"](I, src)
            items = list(src.items()) if isinstance(src, dict) else [tuple(I.run(I.iterate(kv))) for kv in I.run(I.iterate(src))]
            for kk, vv in items:
                setitem(I, o, kk, vv)
        for kk, vv in k.items():
            setitem(I, o, kk, vv)

    def new_child(I, o, a, k):
        m = a[0] if a else k.pop("m", None)
        if m is None:
            m = dict(k)
        return _chainmap_over([m] + maps)

    methods = {
        "get": get, "setdefault": setdefault, "pop": pop, "popitem": popitem, "update": update, "new_child": new_child,
        "clear": lambda I, o, a, k: maps[0].clear(),
        "keys": lambda I, o, a, k: list(as_dict(I)), "values": lambda I, o, a, k: list(as_dict(I).values()),
        "items": lambda I, o, a, k: list(as_dict(I).items()),
        "copy": lambda I, o, a, k: _chainmap_over([dict(maps[0])] + maps[1:]),
        "__copy__": lambda I, o, a, k: _chainmap_over([dict(maps[0])] + maps[1:]),
        "__getitem__": lambda I, o, a, k: getitem(I, o, a[0]), "__setitem__": lambda I, o, a, k: setitem(I, o, a[0], a[1]),
        "__delitem__": lambda I, o, a, k: delitem(I, o, a[0]), "__contains__": lambda I, o, a, k: find(I, a[0]) is not None,
        "__len__": lambda I, o, a, k: len(as_dict(I)), "__iter__": lambda I, o, a, k: iter(list(as_dict(I))),
    }

    def deepcopy(I, o):
        memo = {}
        return _chainmap_over([deepcopy_value(I, m, memo) for m in maps])
    # truth: bool(ChainMap) is any(maps); the maps of _open_run always hold the plan identity (static True is exact there)
    cm = Opaque("ChainMap", {"token": "ChainMap", "truth": True, "isinstance_default": False,
                             "isinstance": {"ChainMap": True, "Mapping": True, "MutableMapping": True, "object": True},
                             "getitem": getitem, "setitem": setitem, "delitem": delitem,
                             "contains": lambda I, o, key: find(I, key) is not None, "iter": lambda I, o: list(as_dict(I)),
                             "len": lambda I, o: len(as_dict(I)), "as_dict": as_dict, "deepcopy": deepcopy,
                             "copy": lambda I, o: _chainmap_over([dict(maps[0])] + maps[1:]), "methods": methods,
                             "dyn_attrs": {"parents": lambda I, o: _chainmap_over(maps[1:] or [{}])}})
    cm.attrs["maps"] = maps
    return cm


def plain(I, md):
    """a mapping as the plain dict that `**md` / dict(md) gives"""
    if isinstance(md, Opaque) and "as_dict" in md.spec:
        return md.spec["as_dict"](I, md)
    return md


# ------------------------------------------------------------------------------------------------ harness
SOURCES = ("call", "msg", "md")
WHERE = {"call": "RE(...) md", "msg": "open_run md", "md": "RE.md"}
KEYS = ("shared", "plan_name", "plan_type", "scan_id")


def value(w, key, src, tag=""):
    nm = f"v_{key}_{src}{tag}"
    if key == "scan_id":
        return w.int("scan_id" if src == "md" else nm)
    if key in ("plan_name", "plan_type"):
        return w.str(nm)
    return w.real(nm)


class H:
    """_open_run from a RunEngine state given field by field: the three user sources each hold a private key; `key` is
    held by the sources listed in `holders`; RE.md holds a scan_id iff `sid_present`"""

    def __init__(self, I, key="shared", holders=(), sid_present=True, nested=False, validator="default", normalizer="default"):
        self.I, self.w = I, I.w
        w = I.w
        self.env = env = Env(I)
        install_tracer(I, [])
        w.stubs["collections.ChainMap"] = live_chainmap
        # event_model.compose_run takes any mapping: RunStart(uid=..., time=..., **metadata)
        w.stubs[(MB, "compose_run")] = native(lambda I_, a, k: env.compose_run(I_, a, {**k, "metadata": plain(I_, k.get("metadata"))}))
        self.users = reference_module(I.P, "verif_ref_c17", REF)
        self.srcs = {n: {f"only_{n}": w.real(f"v_only_{n}")} for n in SOURCES}
        for n in holders:
            self.srcs[n][key] = value(w, key, n)
        if sid_present and "scan_id" not in self.srcs["md"]:
            self.srcs["md"]["scan_id"] = w.int("scan_id")
        if nested:
            self.srcs["md"]["sample"] = {"name": w.str("v_sample_name")}
        self.s0 = self.srcs["md"].get("scan_id")
        self.vseen, self.nseen = [], []
        self.modes = {"validator": validator, "normalizer": normalizer}
        fv = I.get_function(f"{MR}:_default_md_validator") if validator == "default" else \
            I.call_value(I.get_function("verif_ref_c17:make_validator"), self.vseen, validator)
        fn = I.get_function(f"{MR}:_default_md_normalizer") if normalizer == "default" else \
            I.call_value(I.get_function("verif_ref_c17:make_normalizer"), self.nseen, normalizer)
        self.re = make_re(I, env, md=self.srcs["md"], _metadata_per_call=self.srcs["call"],
                          scan_id_source=I.get_function(f"{MR}:default_scan_id_source"), md_validator=fv, md_normalizer=fn)
        self.runs = []           # the replay script: one entry per _open_run issued
        self.case = {"md": sorted(self.srcs["md"]), "call": sorted(self.srcs["call"]), "runs": self.runs, "nested": nested,
                     "validator": validator, "normalizer": normalizer, "pre_open": []}

    def info(self, clause):
        return {"replay": "metadata.scenario", "clause": clause, "case": self.case, "ref_file": REF_FILE}

    def snapshot(self):
        return {n: deepcopy_value(self.I, self.srcs[n]) for n in SOURCES}

    def sid(self, opened):
        """the persistent scan_id after `opened` runs were opened (None: absent)"""
        if opened == 0:
            return self.s0
        return opened if self.s0 is None else self.s0 + opened

    def open_run(self, msg_md=None, run=None):
        if msg_md is not None:
            self.srcs["msg"] = msg_md
        self.runs.append({"run": run, "md": sorted(self.srcs["msg"])})
        n0 = len(self.env.emitted)
        r = call_async(self.I, self.I.getattr(self.re, "_open_run"), MsgVal("open_run", None, (), self.srcs["msg"], run))
        return r, self.env.emitted[n0:]

    def want(self, pre, sid):
        """the RunStart content the statement asks for, before the normalizer"""
        return merged(pre["md"], "generator", "my_plan", pre["msg"], pre["call"], sid)

    def frame(self, pre, sid):
        now = dict(self.re.md)
        if sid is None:
            ok_sid = "scan_id" not in now
        else:
            ok_sid = "scan_id" in now and Eq(now.pop("scan_id"), sid)
        was = {k: v for k, v in pre["md"].items() if k != "scan_id"}
        return And(ok_sid, Eq(now, was), Eq(self.re._metadata_per_call, pre["call"]), Eq(self.srcs["msg"], pre["msg"]),
                   self.re.md is self.srcs["md"] and self.re._metadata_per_call is self.srcs["call"])

    def check_opened(self, r, emitted, pre, opened, transform=lambda d: d, uids=None):
        """the obligations of one successfully opened run (the `opened`-th of this engine)"""
        w = self.w
        starts = [d for n, d in emitted if n == "start"]
        if not (r[0] == "ok" and len(starts) == 1 and len(emitted) == 1):
            w.fail(O_MERGE, self.info("merge"))
            return None
        st = starts[0]
        sid = self.sid(opened)
        got = {k: v for k, v in st.items() if k not in ("uid", "time")}
        w.check(O_MERGE, Eq(got, transform(self.want(pre, sid))), self.info("merge"))
        w.check(O_SCAN, "scan_id" in self.re.md and Eq(self.re.md["scan_id"], sid), self.info("scan_id"))
        w.check(O_FRAME, self.frame(pre, sid), self.info("frame"))
        uids = [r[1]] if uids is None else uids
        w.check(O_REG, "uid" in st and st["uid"] == r[1] and self.re._run_start_uids == uids and self.runs[-1]["run"] in self.re._run_bundlers
                and len(self.re._run_bundlers) == len(uids), self.info("registered"))
        return st

    def check_refused(self, r, emitted, pre, opened, exc_ok, bundlers=0):
        w = self.w
        ok = r[0] == "raise" and exc_ok(r[1]) and len(emitted) == 0 and len(self.re._run_bundlers) == bundlers and \
            len(self.re._run_start_uids) == 0
        sid = self.sid(opened)
        unchanged = ("scan_id" not in self.re.md) if sid is None else ("scan_id" in self.re.md and Eq(self.re.md["scan_id"], sid))
        w.check(O_REFUSED, And(ok, unchanged), self.info("refused"))
        w.check(O_FRAME, self.frame(pre, sid), self.info("frame"))


# ------------------------------------------------------------------------------------------------ tasks
@task("_open_run.metadata", PROP, functions=[f"{RE}._open_run", f"{MR}:default_scan_id_source", f"{MR}:_default_md_validator",
                                            f"{MR}:_default_md_normalizer", f"{MB}:RunBundler.open_run"],
      expect=[O_MERGE, O_SCAN, O_FRAME, O_REG])
def metadata(I):
    """one run, default validator / normalizer / scan_id source: the key under test in every subset of the sources"""
    w = I.w
    key = w.choose(list(KEYS), "key under test")
    holders = [n for n in SOURCES if w.choose([False, True], f"{key} in {WHERE[n]}")]
    sid_present = ("md" in holders) if key == "scan_id" else w.choose([True, False], "scan_id in RE.md")
    h = H(I, key, holders, sid_present)
    pre = h.snapshot()
    r, emitted = h.open_run()
    h.check_opened(r, emitted, pre, 1)


def shown_once(seen, want):
    return len(seen) == 1 and Eq(seen[0], want)


def exc_value_error(text):
    return lambda e: isinstance(e, Obj) and e.cls is BUILTIN_CLASSES["ValueError"] and e.attrs.get("args") == (text,)


@task("_open_run.normalizer_validator", PROP, functions=[f"{RE}._open_run"], expect=[O_MERGE, O_SHOWN, O_REFUSED, O_FRAME, O_SCAN])
def normalizer_validator(I):
    """one run with user-supplied validators / normalizers (contracts/refs/c17.py), and the run key that is already open"""
    w = I.w
    case = w.choose(["validator accepts", "validator writes into its argument", "validator rejects", "normalizer returns a new dict",
                     "normalizer transforms its argument", "normalizer raises", "run key already open"], "case")
    key = w.choose(["shared", "scan_id"], "key under test")
    holders = [n for n in SOURCES if w.choose([True, False], f"{key} in {WHERE[n]}")]
    vmode = {"validator accepts": "accept", "validator writes into its argument": "scribble", "validator rejects": "reject"}.get(case, "accept")
    nmode = {"normalizer returns a new dict": "new", "normalizer transforms its argument": "inplace", "normalizer raises": "raise"}.get(case, "default")
    h = H(I, key, holders, ("md" in holders) if key == "scan_id" else True, nested=True, validator=vmode, normalizer=nmode)
    if case == "run key already open":
        other = Opaque("open-run-bundler", {"token": "bundler", "truth": True, "isinstance_default": False})
        h.re._run_bundlers[None] = other
        h.case["pre_open"] = [None]
        pre = h.snapshot()
        r, emitted = h.open_run()
        ims = I.P.class_info("bluesky.utils", "IllegalMessageSequence")
        h.check_refused(r, emitted, pre, 0, lambda e: isinstance(e, Obj) and e.cls.issubclass(ims), bundlers=1)
        w.check(O_REFUSED, h.re._run_bundlers.get(None) is other and h.vseen == [], h.info("refused"))
        return
    pre = h.snapshot()
    r, emitted = h.open_run()
    shown = h.want(pre, h.sid(1))
    if case == "validator rejects":
        h.check_refused(r, emitted, pre, 0, exc_value_error("rejected"))
        w.check(O_SHOWN, And(shown_once(h.vseen, shown), h.nseen == []), h.info("shown"))
        return
    if case == "normalizer raises":
        h.check_refused(r, emitted, pre, 0, exc_value_error("normalizer refuses"))
        w.check(O_SHOWN, And(shown_once(h.vseen, shown), shown_once(h.nseen, shown)), h.info("shown"))
        return

    def transform(d):
        if nmode == "default":
            return d
        out = dict(d)
        out["normalized"] = nmode
        if nmode == "new":
            del out["only_md"]
        else:
            out["only_md"] = "normalizer:only_md"
            out["sample"] = {"name": "normalizer:sample"}
        return out
    st = h.check_opened(r, emitted, pre, 1, transform)
    if st is None:
        return
    w.check(O_SHOWN, And(shown_once(h.vseen, shown), nmode == "default" or shown_once(h.nseen, shown)), h.info("shown"))


@task("_open_run.sequence", PROP, functions=[f"{RE}._open_run", f"{MR}:default_scan_id_source"], expect=[O_MERGE, O_SCAN, O_FRAME, O_REG, O_REFUSED],
      covers=["sequence: second run opened after an opened first run", "sequence: second run opened after a refused first run"])
def sequence(I):
    """'every RunStart' / 'per opened run': a second run of the same call, after a first one that was ordinary, overrode the
    scan_id for itself, had a validator that wrote into its argument, or was refused"""
    w = I.w
    first = w.choose(["ordinary", "scan_id in open_run md", "scan_id in RE(...) md", "validator writes into its argument", "validator rejects",
                      "normalizer raises"], "first run")
    sid_present = w.choose([True, False], "scan_id in RE.md")
    vmode = {"validator writes into its argument": "scribble", "validator rejects": "reject"}.get(first, "accept")
    nmode = "raise" if first == "normalizer raises" else "default"
    h = H(I, "scan_id" if first == "scan_id in RE(...) md" else "shared", ["call"] if first == "scan_id in RE(...) md" else ["md", "msg"],
          sid_present, validator=vmode, normalizer=nmode)
    if first == "scan_id in open_run md":
        h.srcs["msg"]["scan_id"] = value(w, "scan_id", "msg")
    pre = h.snapshot()
    r1, em1 = h.open_run(run="first")
    if first in ("validator rejects", "normalizer raises"):
        h.check_refused(r1, em1, pre, 0, exc_value_error("rejected" if first == "validator rejects" else "normalizer refuses"))
        opened, uids = 0, []
        # the next attempt is accepted
        h.re.attrs["md_validator"] = I.call_value(I.get_function("verif_ref_c17:make_validator"), h.vseen, "accept")
        h.re.attrs["md_normalizer"] = I.get_function(f"{MR}:_default_md_normalizer")
        h.case["then"] = "accept"
    else:
        if h.check_opened(r1, em1, pre, 1) is None:
            return
        opened, uids = 1, [r1[1]]
    msg2 = {"only_msg2": w.real("v_only_msg2"), "shared": w.real("v_shared_msg2")}
    h.srcs["msg"] = msg2
    pre2 = h.snapshot()
    r2, em2 = h.open_run(msg2, run="second")
    if r2[0] == "ok":
        w.cover("sequence: second run opened after an opened first run" if opened else "sequence: second run opened after a refused first run")
    h.check_opened(r2, em2, pre2, opened + 1, uids=uids + [r2[1]] if r2[0] == "ok" else None)


# ------------------------------------------------------------------------------------------------ RE(...) keyword layer (T2)
@task("call.metadata", PROP, functions=[f"{RE}.__call__", f"{RE}._clear_call_cache", f"{RE}._run", f"{RE}._open_run", f"{RE}._close_run"],
      expect=[O_CALL, O_MERGE, O_SCAN], covers=["call.metadata: second call completed"])
def call_metadata(I):
    """two RE(plan, **md) calls on an engine built by the real __init__: the real __call__ / _run / _open_run / _close_run
    under the asyncio model; each call's plan opens two runs"""
    from .run_lib import Engine, Bundler
    w = I.w
    sid_present = w.choose([True, False], "scan_id in RE.md")
    md = {"only_md": w.real("v_only_md"), "shared": w.real("v_shared_md")}
    if sid_present:
        md["scan_id"] = w.int("scan_id")
    s0 = md.get("scan_id")
    case = {"md": sorted(md), "calls": [], "two_calls": True}
    eng = Engine(I, md=md)
    # the scenario is finite and deterministic (concrete plan, no environment): no co-inductive closure - every cut point is
    # made distinct (RE.md is not part of the canonical configuration, the two cases / the two calls would be identified)
    eng.ghost["key"] = gk = {"scan_id in RE.md": sid_present, "cuts": 0}
    eng.loop.on_cut = lambda what: gk.__setitem__("cuts", gk["cuts"] + 1)
    w.stubs["collections.ChainMap"] = live_chainmap
    reference_module(I.P, "verif_ref_c17", REF)
    started = []          # (metadata handed to the RunBundler = RunStart content by the bundler contract, per-call layer then)
    w.stubs[(MR, "RunBundler")] = native(lambda I_, a, k: (started.append((plain(I_, a[0]), dict(eng.re._metadata_per_call))),
                                                           Bundler(eng, a[0], a[1]).facade)[1])
    calls = [{"only_call": w.real("v_only_call"), "shared": w.real("v_shared_call"), "first_call_only": w.real("v_first_call_only")},
             {"only_call": w.real("v_only_call2")}]
    info = lambda clause: {"replay": "metadata.scenario", "clause": clause, "case": case, "ref_file": REF_FILE}
    pre_md = dict(md)
    n = 0
    for ci, kw in enumerate(calls):
        runs = [("a", {"only_msg": w.real(f"v_only_msg_{ci}a"), "shared": w.real(f"v_shared_msg_{ci}a")}), ("b", {"only_msg": w.real(f"v_only_msg_{ci}b")})]
        case["calls"].append({"call": sorted(kw), "runs": [{"run": rk, "md": sorted(m)} for rk, m in runs]})
        plan = I.call_value(I.get_function("verif_ref_c17:my_plan"), runs)
        pname = I.getattr(plan, "__name__")          # the plan identity: the generator's own name (the engine qualifies it with its module)
        before = len(started)
        r = eng.call("__call__", plan, **kw)
        mine = started[before:]
        if r[0] != "ok" or len(mine) != 2 or eng.state != "idle":
            w.fail(O_CALL, info("per_call"))
            return
        w.check(O_CALL, And(*[Eq(layer, kw) for _, layer in mine]), info("per_call"))
        for (got, _), (rk, m) in zip(mine, runs):
            n += 1
            sid = n if s0 is None else s0 + n
            w.check(O_MERGE, Eq(got, merged(pre_md, "generator", pname, m, kw, sid)), info("merge"))
        w.check(O_SCAN, "scan_id" in eng.re.md and Eq(eng.re.md["scan_id"], n if s0 is None else s0 + n), info("scan_id"))
        if ci == 1:
            w.cover("call.metadata: second call completed")


# ------------------------------------------------------------------------------------------------ must-fail twins
@task("_open_run.twin", PROP, twin="twin:open_run metadata beats RE(...) metadata")
def twin_precedence(I):
    w = I.w
    h = H(I, "shared", ["call", "msg", "md"], True)
    r, emitted = h.open_run()
    st = [d for n, d in emitted if n == "start"][0]
    w.check("twin:open_run metadata beats RE(...) metadata", Eq(st["shared"], h.srcs["msg"]["shared"]))


@task("_open_run.twin_scan_id", PROP, twin="twin:an overriding scan_id moves the persistent counter")
def twin_scan_id(I):
    w = I.w
    h = H(I, "scan_id", ["call", "md"], True)
    r, emitted = h.open_run()
    w.check("twin:an overriding scan_id moves the persistent counter", Eq(h.re.md["scan_id"], h.srcs["call"]["scan_id"] + 1))


@task("_open_run.twin_validator", PROP, twin="twin:what the validator writes reaches the RunStart")
def twin_validator(I):
    w = I.w
    h = H(I, "shared", ["md"], True, validator="scribble")
    r, emitted = h.open_run()
    st = [d for n, d in emitted if n == "start"][0]
    w.check("twin:what the validator writes reaches the RunStart", st.get("checked") is True)
