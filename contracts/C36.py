"""C36 - stream datums concatenate and consolidate into consistent array shapes.

Carriers: bluesky/consolidators.py: ConsolidatorBase.shape, .chunks (+ nested list_summands),
.consume_stream_datum; bluesky/callbacks/tiled_writer.py: concatenate_stream_datums.
Clauses from the statement:
  chunks: for every dimension d, sum(chunks[d]) == shape[d] ("chunk sizes add up to each dimension"), one
          entry per dimension of shape; the only licensed exception is ValueError for len(chunk_shape) > len(shape)
  list_summands(A, b, repeat): sum == A*repeat, every summand in [1, b] (or the single summand 0 for an empty dim)
  consume_stream_datum: rows += stop - start; every consumed seq_num s is mapped to indices.start + (s - seq_nums.start)
  concatenate: accepts exactly the contiguous sets for one descriptor and resource, in any order, and returns
          [min start, max stop) for indices and the matching seq_num range
"""
import itertools

from .lib import *
from pyvc.vals import RLESeq

PROP = "C36"
MC = "bluesky.consolidators"
MT = "bluesky.callbacks.tiled_writer"
QB = f"{MC}:ConsolidatorBase"
TRUSTED = ["tensor rank is enumerated (datum rank 0..3, chunk rank 0..4): each rank case is proved for all dimension sizes, "
           "row counts and join modes; the rank bound itself is a stated bound",
           "Python // and % by a symbolic divisor are introduced by their defining property a == b*q + r, 0 <= r < b",
           "dict(zip(range(a,b), range(c,d))) maps a+k to c+k for 0 <= k < min(b-a, d-c) (built-in semantics, not re-proved)",
           "event_model StreamDatum/StreamRange constructors build plain dicts with the given fields"]
NOT_DECIDED = ("asset bookkeeping of MultipartRelatedConsolidator.consume_stream_datum (one asset per file index) is not under "
               "contract yet; concatenate_stream_datums is checked for up to 4 documents only (bounded stand-in)")


def nested_closure(I, qual):
    """closure for a nested function that captures nothing (taken from the real AST)"""
    m, chain, node = I.P.find_function(qual)
    return Closure(node, m, None, None, qual)


# ------------------------------------------------------------------------------------------------ list_summands
LS = f"{QB}.chunks.list_summands"


@task("list_summands", PROP, functions=[LS],
      expect=[f"{LS}#ensures[sum == A*repeat]", f"{LS}#ensures[every summand in 1..b, or the single summand 0]"],
      covers=["remainder", "no remainder", "empty"])
def list_summands(I):
    w = I.w
    f = nested_closure(I, LS)
    A, b, rep = w.int("A"), w.int("b"), w.int("repeat")
    w.add(And(A >= 0, b >= 1, rep >= 0))
    res = I.call_value(f, A, b, rep)
    rp = {"replay": "consolidators.list_summands"}
    total = A * rep
    if isinstance(res, tuple):
        w.cover("empty")
        w.check(f"{LS}#ensures[sum == A*repeat]", And(Eq(sum(res), total)), rp)
        w.check(f"{LS}#ensures[every summand in 1..b, or the single summand 0]", And(Eq(total, 0), res == (0,)), rp)
        return
    if not isinstance(res, RLESeq):
        w.fail(f"{LS}#ensures[result is a tuple]", rp)
        return
    from pyvc import builtins_ as B
    if len(res.segments) == 2:
        w.cover("remainder")
    else:
        w.cover("no remainder")
    w.check(f"{LS}#ensures[result is a tuple]", res.is_tuple, rp)
    w.check(f"{LS}#ensures[sum == A*repeat]", Eq(B.rle_sum(I, res), total), rp)
    ok = True
    for val, cnt in res.segments:
        present = ops.compare(">", I.run(I.binop("*", cnt, res.times)), 0)
        ok = And(ok, Implies(present, And(val >= 1, val <= b)))
    w.check(f"{LS}#ensures[every summand in 1..b, or the single summand 0]", And(ok, total > 0), rp)


@task("list_summands.twin", PROP, twin="twin:list_summands sum off by one")
def list_summands_twin(I):
    w = I.w
    f = nested_closure(I, LS)
    A, b = w.int("A"), w.int("b")
    w.add(And(A >= 1, b >= 1))
    res = I.call_value(f, A, b, 1)
    from pyvc import builtins_ as B
    w.check("twin:list_summands sum off by one", Eq(B.rle_sum(I, res), A + 1))


# ------------------------------------------------------------------------------------------------ shape / chunks
def consolidator(I, rank_d, rank_c):
    w = I.w
    ds = tuple(w.int(f"datum_shape{i}") for i in range(rank_d))
    cs = tuple(w.int(f"chunk_shape{i}") for i in range(rank_c))
    for d in ds:
        w.add(d >= 0)
    for c in cs:
        w.add(c >= 1)          # established by the constructor ("Chunk size in all dimensions must be at least 1")
    rows = w.int("num_rows")
    w.add(rows >= 0)
    jm = w.choose(["stack", "concat"], "join_method")
    jc = w.bool("join_chunks")
    o = Obj(I.P.class_info(MC, "ConsolidatorBase"), {"datum_shape": ds, "chunk_shape": cs, "_num_rows": rows,
                                                      "join_method": jm, "join_chunks": jc})
    return o, ds, cs, rows, jm, jc


def install_ls_contract(I):
    """callee contract of list_summands inside chunks: requires checked at the call site, result abstract with
    the proved sum"""
    w = I.w

    def hook(I_, f, args, kwargs):
        A, b = args[0], args[1]
        rep = args[2] if len(args) > 2 else kwargs.get("repeat", 1)
        w.check(f"{QB}.chunks#call@list_summands.requires[A >= 0, b >= 1, repeat >= 0]",
                And(ops.compare(">=", A, 0), ops.compare(">=", b, 1), ops.compare(">=", rep, 0)), {"replay": "consolidators.chunks"})
        s = w.int("summands", fresh=True)
        w.add(Eq(s, I_.run(I_.binop("*", A, rep))))
        return RLESeq([(s, 1)], 1, True)
        yield
    I.call_hooks[LS] = hook


for _rd in range(0, 4):
    for _rc in range(0, 5):
        def _mk(rd=_rd, rc=_rc):
            @task(f"chunks[rank_d={rd},rank_c={rc}]", PROP, functions=[f"{QB}.chunks", f"{QB}.shape"],
                  expect=[] if rc > rd + 1 else [f"{QB}.chunks#ensures[chunk sizes add up to each dimension of shape]"])
            def t(I):
                w = I.w
                o, ds, cs, rows, jm, jc = consolidator(I, rd, rc)
                install_ls_contract(I)
                shape = I.getattr(o, "shape")
                rp = {"replay": "consolidators.chunks", "rank_d": rd, "rank_c": rc, "join_method": jm}
                # shape, from the documentation of the join methods
                if jm == "concat" and rd > 0:
                    want = (rows * ds[0],) + ds[1:]
                else:
                    want = (rows,) + ds
                w.check(f"{QB}.shape#ensures[stack: rows x datum; concat: rows*datum[0] x rest]", I.eq(shape, want), rp)
                res = catch(I, lambda: None) if False else None
                try:
                    ch = I.getattr(o, "chunks")
                except PyRaise as pr:
                    w.check(f"{QB}.chunks#raises[only ValueError, iff chunk_shape longer than shape]",
                            And(exc_is(I, pr.exc, "ValueError"), rc > len(shape)), rp)
                    return
                w.check(f"{QB}.chunks#ensures[no error when chunk_shape fits]", rc <= len(shape), rp)
                from pyvc import builtins_ as B
                ok = isinstance(ch, tuple) and len(ch) == len(shape)
                conds = [ok]
                if ok:
                    for c, dim in zip(ch, shape):
                        s = B.rle_sum(I, c) if isinstance(c, RLESeq) else sum(c) if isinstance(c, tuple) else None
                        conds.append(Eq(s, dim) if s is not None else False)
                w.check(f"{QB}.chunks#ensures[chunk sizes add up to each dimension of shape]", And(*conds), rp)
        _mk()


@task("chunks.twin", PROP, twin="twin:chunks sum to shape+1")
def chunks_twin(I):
    w = I.w
    o, ds, cs, rows, jm, jc = consolidator(I, 1, 1)
    install_ls_contract(I)
    shape = I.getattr(o, "shape")
    ch = I.getattr(o, "chunks")
    from pyvc import builtins_ as B
    w.check("twin:chunks sum to shape+1", Eq(B.rle_sum(I, ch[0]), shape[0] + 1))


# ------------------------------------------------------------------------------------------------ consume_stream_datum
class SymRange:
    def __init__(self, a, b):
        self.a, self.b = a, b


class SymZipDict:
    def __init__(self, keys, vals):
        self.keys, self.vals = keys, vals


@task("consume_stream_datum", PROP, functions=[f"{QB}.consume_stream_datum"],
      expect=[f"{QB}.consume_stream_datum#ensures[rows' = rows + (stop - start)]",
              f"{QB}.consume_stream_datum#ensures[every consumed seq_num mapped to its row index]"])
def consume(I):
    w = I.w
    rows = w.int("num_rows")
    i0, i1, s0, s1 = w.int("idx_start"), w.int("idx_stop"), w.int("seq_start"), w.int("seq_stop")
    w.add(And(rows >= 0, i0 <= i1, Eq(s1 - s0, i1 - i0)))
    updates = []
    smap = opaque(I, "seqnums_to_indices_map", methods={"update": lambda I_, o, a, k: updates.append(a[0])})
    o = Obj(I.P.class_info(MC, "ConsolidatorBase"), {"_num_rows": rows, "_seqnums_to_indices_map": smap})
    doc = {"indices": {"start": i0, "stop": i1}, "seq_nums": {"start": s0, "stop": s1}}
    w.stubs["range"] = lambda I_, a: SymRange(a[0], a[1])
    I.builtins["zip"] = native(lambda I_, a, k: ("zip", a[0], a[1]))
    I.builtins["dict"] = native(lambda I_, a, k: SymZipDict(a[0][1], a[0][2]) if isinstance(a[0], tuple) and a[0][0] == "zip" else None)
    call_method(I, o, "consume_stream_datum", doc)
    rp = {"replay": "consolidators.consume"}
    w.check(f"{QB}.consume_stream_datum#ensures[rows' = rows + (stop - start)]", Eq(o._num_rows, rows + (i1 - i0)), rp)
    if len(updates) == 1 and isinstance(updates[0], tuple) and updates[0][:1] == ("zip",):
        updates[0] = SymZipDict(updates[0][1], updates[0][2])       # update(zip(...)) is update(dict(zip(...)))
    ok = (len(updates) == 1 and isinstance(updates[0], SymZipDict) and isinstance(updates[0].keys, SymRange)
          and isinstance(updates[0].vals, SymRange))
    cond = ok
    if ok:
        u = updates[0]
        # dict(zip(range(ka,kb), range(va,vb))): key ka+k -> va+k ; must be seq_start+k -> idx_start+k for all consumed k
        # (zip pairs min(len, len) items; an empty datum maps nothing whatever the end points are)
        nk, nv, n = u.keys.b - u.keys.a, u.vals.b - u.vals.a, i1 - i0
        nk, nv = ite(nk < 0, 0, nk), ite(nv < 0, 0, nv)
        cond = And(Eq(ite(nk < nv, nk, nv), n), Implies(n > 0, And(Eq(u.keys.a, s0), Eq(u.vals.a, i0))))
    w.check(f"{QB}.consume_stream_datum#ensures[every consumed seq_num mapped to its row index]", cond, rp)
    w.check(f"{QB}.consume_stream_datum#frame[map object kept, only updated]", o._seqnums_to_indices_map is smap, rp)


# ------------------------------------------------------------------------------------------------ concatenate_stream_datums
CS = f"{MT}:concatenate_stream_datums"


def _mk_concat(n):
    @task(f"concatenate_stream_datums[n={n}]", PROP, functions=[CS], bounded="number of stream datum documents n <= 4 (values symbolic)",
          expect=[f"{CS}#ensures[accepts exactly contiguous sets of one descriptor/resource; combined ranges] (n={n})"])
    def t(I):
        w = I.w
        docs = []
        for i in range(n):
            a, b = w.int(f"idx_start{i}"), w.int(f"idx_stop{i}")
            s = w.int(f"seq_start{i}")
            w.add(a < b)
            docs.append({"uid": w.str(f"uid{i}"), "descriptor": w.str(f"desc{i}"), "stream_resource": w.str(f"res{i}"),
                         "indices": {"start": a, "stop": b}, "seq_nums": {"start": s, "stop": s + (b - a)}})
        w.stubs["event_model.documents.StreamDatum"] = lambda I_, a, k: dict(k)
        w.stubs["event_model.StreamRange"] = lambda I_, a, k: dict(k)
        w.stubs["event_model.documents.StreamRange"] = lambda I_, a, k: dict(k)
        w.stubs["event_model.documents.stream_datum.StreamRange"] = lambda I_, a, k: dict(k)
        f = I.get_function(CS)
        res = catch(I, f, *docs)
        rp = {"replay": "consolidators.concatenate", "n": n}
        name = f"{CS}#ensures[accepts exactly contiguous sets of one descriptor/resource; combined ranges] (n={n})"
        if n == 1:
            w.check(name, res[0] == "ok" and res[1] is docs[0], rp)
            return
        same = And(*[And(Eq(docs[0]["descriptor"], d["descriptor"]), Eq(docs[0]["stream_resource"], d["stream_resource"])) for d in docs[1:]])
        # independent oracle: some ordering chains stop_i == start_{i+1}
        chains = False
        for perm in itertools.permutations(range(n)):
            c = And(*[Eq(docs[perm[i]]["indices"]["stop"], docs[perm[i + 1]]["indices"]["start"]) for i in range(n - 1)])
            chains = Or(chains, c)
        acceptable = And(same, chains)
        if res[0] == "raise":
            w.check(name, And(exc_is(I, res[1], "ValueError"), Not(acceptable)), rp)
            return
        out = res[1]
        lo = docs[0]["indices"]["start"]
        hi = docs[0]["indices"]["stop"]
        for d in docs[1:]:
            lo = ite(d["indices"]["start"] < lo, d["indices"]["start"], lo)
            hi = ite(d["indices"]["stop"] > hi, d["indices"]["stop"], hi)
        # seq range: start of the document that holds the lowest index, stop of the one holding the highest
        slo = docs[0]["seq_nums"]["start"]
        shi = docs[0]["seq_nums"]["stop"]
        for d in docs[1:]:
            slo = ite(Eq(d["indices"]["start"], lo), d["seq_nums"]["start"], slo)
            shi = ite(Eq(d["indices"]["stop"], hi), d["seq_nums"]["stop"], shi)
        slo = ite(Eq(docs[0]["indices"]["start"], lo), docs[0]["seq_nums"]["start"], slo)
        shi = ite(Eq(docs[0]["indices"]["stop"], hi), docs[0]["seq_nums"]["stop"], shi)
        w.check(name, And(acceptable, Eq(out["indices"]["start"], lo), Eq(out["indices"]["stop"], hi),
                          Eq(out["seq_nums"]["start"], slo), Eq(out["seq_nums"]["stop"], shi),
                          Eq(out["descriptor"], docs[0]["descriptor"]), Eq(out["stream_resource"], docs[0]["stream_resource"])), rp)


for _n in (1, 2, 3, 4):
    _mk_concat(_n)
