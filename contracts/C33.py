"""C33 - 0MQ publishing delivers documents intact and filters by prefix.

Carriers: bluesky/callbacks/zmq.py: Publisher.__init__ (prefix checks), Publisher.__call__ (framing),
RemoteDispatcher.__init__ (prefix checks), RemoteDispatcher._poll (one loop iteration: parsing, filtering, delivery).
Framing: frame = prefix ++ " " ++ encode(name) ++ " " ++ serialize(deepcopy(doc)); parsing: split(b" ", 2), defined through
indexof.  Obligations (bytes are SMT strings; z3 with cvc5 taking z3's unknowns):
  round trip: for every prefix without a space (checked by the constructor), every document name (no name contains a space)
     and every payload (arbitrary bytes, spaces allowed), one _poll iteration on the frame built by Publisher.__call__
     schedules exactly process(DocumentNames[name], deserialize(payload)) when the dispatcher's prefix is empty or equal,
     and nothing when it differs; order is the loop's FIFO order (call_soon)
  malformed frames (arbitrary bytes not of that form: fewer than two spaces, undecodable or unknown name, payload that
     does not deserialize): non-strict -> nothing is scheduled and the iteration completes normally (the loop goes on);
     strict -> Bluesky0MQDecodeError
  constructors reject str prefixes and prefixes containing a space.
"""
import z3

from .lib import *
from .bundler_lib import run_coro

PROP = "C33"
MZ = "bluesky.callbacks.zmq"
TRUSTED = ["bytes are strings over code points 0..255; bytes.split(b' ', 2) is defined through indexof (first two spaces); b' '.join concatenates with separators",
           "str.encode / bytes.decode: identity on the model's strings, decode raising UnicodeDecodeError exactly for byte strings outside an (uninterpreted) "
           "'decodable' set that contains every encoded str",
           "pickle: deserialize(serialize(doc)) is doc's value; a payload either deserializes or raises (arbitrary)",
           "the transport delivers frames whole and in order (in-memory transport of the property); loop.call_soon is FIFO",
           "event_model.DocumentNames[name] raises KeyError for unknown names; known names contain no space",
           "zmq / zmq.asyncio objects are opaque (connect / socket / setsockopt are effect-free here)"]
NOT_DECIDED = "real sockets, the Proxy, high-water marks; the start/stop of the polling task"
KF = "C33-unknown-document-name-kills-poll-loop"
KNOWN = ["start", "stop", "event", "descriptor", "event_page", "datum", "resource", "datum_page", "stream_resource", "stream_datum", "bulk_events", "bulk_datum"]
DECODABLE = z3.Function("utf8_decodable", z3.StringSort(), z3.BoolSort())


def B(term):
    return Sym(term, ("bytes",))


def install(I, scheduled, printed):
    w = I.w
    w.quick_z3(250)

    def split(I_, s, args, kwargs):
        sep = args[0] if args else kwargs.get("sep")
        maxsplit = args[1] if len(args) > 1 else kwargs.get("maxsplit", -1)
        if not (isinstance(sep, (bytes, str)) and len(sep) == 1 and isinstance(maxsplit, int)):
            raise EngineError("only split(<one char>[, <concrete maxsplit>]) is modelled")
        st, sp = s.t, z3.StringVal(sep.decode("latin-1") if isinstance(sep, bytes) else sep)
        out, start, n = [], z3.IntVal(0), 0
        while maxsplit < 0 or n < maxsplit:
            i = z3.IndexOf(st, sp, start)
            if not w.branch(ops.mk(i >= 0), f"frame has separator #{n + 1}"):
                break
            if maxsplit < 0 and n == 3:
                # unlimited split with more than three separators: the pieces beyond are not modelled - only the length
                # of the result (>= 5) may be used; the poison elements make any other use an engine error
                return out + [Opaque("unmodelled split piece", {}), Opaque("unmodelled split piece", {})]
            out.append(B(z3.SubString(st, start, i - start)))
            start = i + 1
            n += 1
        return out + [B(z3.SubString(st, start, z3.Length(st) - start))]
    w.stubs["str.split"] = split
    w.stubs["str.encode"] = lambda I_, s, args: B(s.t) if isinstance(s, Sym) else B(z3.StringVal(s))

    def decode(I_, s, args):
        if w.branch(ops.mk(DECODABLE(s.t)), "name bytes decodable"):
            return Sym(s.t)
        raise PyRaise(Obj(BUILTIN_CLASSES["UnicodeDecodeError"], {"args": ("utf-8",), "__cause__": None}))
    w.stubs["str.decode"] = decode

    def docnames_getitem(I_, o, k):
        for n in KNOWN:
            if I_.truth(ops.eq(k, n), f"name == {n}"):
                return o.spec["attrs"][n]
        I_.raise_("KeyError", k)
    names = {n: Opaque(f"DocumentNames.{n}", {"token": "docname", "attrs": {"name": n}, "truth": True}) for n in KNOWN}
    w.stubs[(MZ, "DocumentNames")] = Opaque("DocumentNames", {"getitem": docnames_getitem, "attrs": names, "isinstance_default": False})
    I.builtins["print"] = native(lambda I_, a, k: printed.append(1))
    return names


def dispatcher(I, w, prefix, strict, scheduled, deser_ok, payload_marker):
    loop = Opaque("loop", {"methods": {"call_soon": lambda I_, o, a, k: scheduled.append(tuple(a))}})

    def deser(I_, a, k):
        if deser_ok is not True and not w.branch(deser_ok, "payload deserializes"):
            raise PyRaise(Obj(BUILTIN_CLASSES["ValueError"], {"args": ("unpickling error",), "__cause__": None}))
        return payload_marker(a[0])
    d = bare(I, f"{MZ}:RemoteDispatcher", _prefix=prefix, _strict=strict, loop=loop, _deserializer=native(deser),
             _socket=Opaque("socket", {"methods": {"recv": lambda I_, o, a, k: Opaque("recv()", {"awaitable": True})}}))
    d.attrs["process"] = native(lambda I_, a, k: None)
    return d


def one_iteration(I, d, message):
    """runs _poll until it asks for the second message"""
    coro = I.call_value(I.getattr(d, "_poll"))
    n = [0]

    def on_await(payload):
        n[0] += 1
        if n[0] == 1:
            return ("send", message)
        raise PathEnd("second recv")
    try:
        run_coro(I, coro, on_await)
        return ("returned", None)
    except PyRaise as pr:
        return ("raise", pr.exc)
    except PathEnd:
        return ("next", None)


@task("roundtrip", PROP, functions=[f"{MZ}:Publisher.__call__", f"{MZ}:RemoteDispatcher._poll"],
      expect=[f"{MZ}:RemoteDispatcher._poll#ensures[a published frame is delivered intact iff the prefixes match]"],
      covers=["delivered", "filtered out"])
def roundtrip(I):
    w = I.w
    scheduled, printed = [], []
    names = install(I, scheduled, printed)
    pub_prefix = B(w.str("pub_prefix").t)
    w.add(ops.not_(I.contains(pub_prefix, b" ")))                       # established by Publisher.__init__ (task constructors)
    name = w.choose(["start", "event", "stream_datum"], "document name")   # no known name contains a space (enumerated below)
    payload = B(w.str("payload").t)
    sent = []
    sock = Opaque("socket", {"methods": {"send": lambda I_, o, a, k: sent.append(a[0])}})
    doc = Opaque("doc", {"token": "doc"})
    w.stubs["copy.deepcopy"] = lambda I_, a, k: a[0]
    pub = bare(I, f"{MZ}:Publisher", _prefix=pub_prefix, _socket=sock, _serializer=native(lambda I_, a, k: payload))
    w.add(ops.mk(DECODABLE(z3.StringVal(name))))
    I.call_value(pub, name, doc)
    if len(sent) != 1:
        w.fail(f"{MZ}:Publisher.__call__#ensures[exactly one frame sent]")
        return
    filt = w.choose(["no prefix", "same prefix", "other prefix"], "dispatcher prefix")
    if filt == "no prefix":
        dprefix = b""
    elif filt == "same prefix":
        dprefix = pub_prefix
    else:
        dprefix = B(w.str("disp_prefix").t)
        w.add(And(ops.not_(ops.eq(dprefix, pub_prefix)), ops.not_(ops.eq(dprefix, b""))))
    strict = w.choose([False, True], "strict")
    d = dispatcher(I, w, dprefix, strict, scheduled, True, lambda p: ("deserialized", p))
    out = one_iteration(I, d, sent[0])
    nm = f"{MZ}:RemoteDispatcher._poll#ensures[a published frame is delivered intact iff the prefixes match]"
    rp = {"replay": "zmqframes.roundtrip"}
    if filt == "other prefix":
        w.cover("filtered out")
        w.check(nm, out[0] == "next" and scheduled == [], rp)
        return
    w.cover("delivered")
    ok = out[0] == "next" and len(scheduled) == 1
    cond = ok
    if ok:
        f, dn, pl = scheduled[0]
        cond = And(dn is names[name], pl[0] == "deserialized", ops.eq(pl[1], payload))
    w.check(nm, cond, rp)


@task("malformed", PROP, functions=[f"{MZ}:RemoteDispatcher._poll"],
      expect=[f"{MZ}:RemoteDispatcher._poll#ensures[a frame that is not well-formed is never delivered; non-strict: dropped and the loop continues; strict: Bluesky0MQDecodeError]"],
      covers=["no space", "one space", "undecodable name", "unknown name", "bad payload", "well-formed"])
def malformed(I):
    w = I.w
    scheduled, printed = [], []
    names = install(I, scheduled, printed)
    message = B(w.str("message").t)
    strict = w.choose([False, True], "strict")
    deser_ok = w.bool("payload_deserializes")
    d = dispatcher(I, w, b"", strict, scheduled, deser_ok, lambda p: ("deserialized", p))
    out = one_iteration(I, d, message)
    # classify the frame independently of the code
    st = message.t
    i1 = z3.IndexOf(st, z3.StringVal(" "), 0)
    i2 = z3.IndexOf(st, z3.StringVal(" "), i1 + 1)
    two_spaces = ops.mk(z3.And(i1 >= 0, i2 >= 0))
    name_t = z3.SubString(st, i1 + 1, i2 - i1 - 1)
    decodable = ops.mk(DECODABLE(name_t))
    known = ops.mk(z3.Or(*[name_t == z3.StringVal(n) for n in KNOWN]))
    well_formed = And(two_spaces, decodable, known, deser_ok)
    for label, c in (("no space", ops.mk(i1 < 0)), ("one space", ops.mk(z3.And(i1 >= 0, i2 < 0))), ("undecodable name", And(two_spaces, Not(decodable))),
                     ("unknown name", And(two_spaces, decodable, Not(known))), ("bad payload", And(two_spaces, decodable, known, Not(deser_ok))),
                     ("well-formed", well_formed)):
        if w.feasible(c):
            w.cover(label)
    nm = f"{MZ}:RemoteDispatcher._poll#ensures[a frame that is not well-formed is never delivered; non-strict: dropped and the loop continues; strict: Bluesky0MQDecodeError]"
    rp = {"replay": "zmqframes.malformed"}
    unknown_name = And(two_spaces, decodable, Not(known))
    if out[0] == "next":
        cond = And(Implies(Not(well_formed), len(scheduled) == 0), Implies(well_formed, len(scheduled) == 1),
                   Implies(Not(well_formed), strict is False))
        w.check(nm, cond, rp)
    elif out[0] == "raise":
        is_decode_error = exc_is(I, out[1], f"{MZ}:Bluesky0MQDecodeError")
        # the only licensed exception: strict mode on a malformed frame
        w.check_kf(nm, And(is_decode_error, strict is True, Not(well_formed), len(scheduled) == 0), KF, unknown_name, rp)
    else:
        w.fail(nm, rp)


@task("constructors", PROP, functions=[f"{MZ}:Publisher.__init__", f"{MZ}:RemoteDispatcher.__init__"],
      expect=[f"{MZ}:Publisher.__init__#raises[ValueError iff the prefix is a str or contains a space]",
              f"{MZ}:RemoteDispatcher.__init__#raises[ValueError iff the prefix is a str or contains a space]"])
def constructors(I):
    w = I.w
    install(I, [], [])
    kind = w.choose(["bytes", "str"], "prefix type")
    p = w.str("prefix")
    prefix = B(p.t) if kind == "bytes" else p
    has_space = I.contains(prefix, b" " if kind == "bytes" else " ")
    sock = Opaque("socket", {"default_attr": "method", "methods": {}, "noop": True, "truth": True})
    ctx = Opaque("context", {"methods": {"socket": lambda I_, o, a, k: sock}, "truth": True})
    zmq = Opaque("zmq", {"attrs": {"Context": native(lambda I_, a, k: ctx), "PUB": 1, "SUB": 2, "SUBSCRIBE": 6}, "truth": True})
    w.stubs["asyncio.new_event_loop"] = lambda I_, a, k: Opaque("loop", {"truth": True})
    w.stubs[(MZ, "warnings")] = Opaque("warnings", {"noop": True, "default_attr": "method"})
    which = w.choose(["Publisher", "RemoteDispatcher"], "class")
    I.call_hooks["bluesky.run_engine:Dispatcher.__init__"] = lambda I_, f, a, k: _ret(None)
    kw = {"prefix": prefix, "zmq": zmq}
    if which == "RemoteDispatcher":
        kw["zmq_asyncio"] = zmq
    r = catch(I, I.P.class_info(MZ, which), ("localhost", 5578), **kw)
    bad = Or(kind == "str", has_space)
    nm = f"{MZ}:{which}.__init__#raises[ValueError iff the prefix is a str or contains a space]"
    if r[0] == "raise":
        w.check(nm, And(exc_is(I, r[1], "ValueError"), bad), {"replay": "zmqframes.roundtrip"})
    else:
        w.check(nm, And(Not(bad), ops.eq(r[1]._prefix, prefix)), {"replay": "zmqframes.roundtrip"})


def _ret(v):
    return v
    yield


@task("names_have_no_space", PROP, expect=["lemma:C33.no document name contains a space"])
def names_no_space(I):
    I.w.check("lemma:C33.no document name contains a space", all(" " not in n for n in KNOWN))
