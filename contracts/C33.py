"""C33 - 0MQ publishing delivers documents intact and filters by prefix.

Carriers: bluesky/callbacks/zmq.py: Publisher.__init__ (prefix checks), Publisher.__call__ (framing),
RemoteDispatcher.__init__ (prefix checks), RemoteDispatcher._poll (loop iterations: parsing, filtering, delivery).
Framing: frame = prefix ++ " " ++ encode(name) ++ " " ++ serialize(deepcopy(doc)); parsing: split(b" ", 2), defined by
recursion through indexof.  Obligations (bytes are SMT strings; z3 with cvc5 taking z3's unknowns):
  round trip: for every prefix without a space (checked by the constructor), every document name (no name contains a space)
     and every payload (arbitrary bytes, spaces allowed), one _poll iteration on the frame built by Publisher.__call__
     schedules exactly process(DocumentNames[name], deserialize(payload)) when the dispatcher's prefix is empty or equal,
     and nothing when it differs (ANY other space-free byte string: shorter, longer, sharing a head or a tail)
  histories: two publishers with arbitrary distinct prefixes interleave their frames on one proxy; a dispatcher delivers
     exactly the frames of its publisher (all frames when it has no prefix), in arrival order (call_soon is FIFO)
  malformed frames (arbitrary bytes not of that form: fewer than two spaces, undecodable or unknown name, payload on which
     the deserializer raises ANY Exception): non-strict -> nothing is scheduled, the iteration completes normally and the
     frame that follows is delivered; strict -> Bluesky0MQDecodeError; for dispatchers with and without a prefix
  constructors reject str prefixes and prefixes containing a space.
Query hygiene: the frames built by the real Publisher are concatenations whose head pieces are space-free, so the split
stub resolves their separators syntactically (rule proved once from the indexof definition: task split_lemma) and only
falls back to indexof terms for pieces that may contain a space (payloads, arbitrary messages).
"""
import z3

from .lib import *
from .bundler_lib import run_coro
from pyvc.source import ClassInfo

PROP = "C33"
MZ = "bluesky.callbacks.zmq"
TRUSTED = ["bytes are strings over code points 0..255; bytes.split(b' ', n) is defined by recursion through indexof: no space -> [s]; "
           "otherwise [s[:i]] + split(s[i+1:], n-1) with i the first space (for a concatenation a ++ ' ' ++ r with a space-free this is "
           "[a] + split(r, n-1): lemma proved in task split_lemma); rsplit symmetrically (the last space of x is where x == u ++ ' ' ++ v with v "
           "space-free); b' '.join concatenates with separators",
           "str.encode / bytes.decode: identity on the model's strings, decode raising UnicodeDecodeError exactly for byte strings outside an (uninterpreted) "
           "'decodable' set that contains every encoded str",
           "serializer / deserializer: deserialize(serialize(doc)) is doc's value (copy.deepcopy(doc) has doc's value); on any other payload the "
           "deserializer either returns or raises an arbitrary Exception (a class unrelated to every built-in one, ValueError, KeyError, "
           "UnicodeDecodeError - the classes _poll names in its handlers - are the enumerated representatives)",
           "the transport delivers frames whole and in order (in-memory transport of the property); loop.call_soon is FIFO",
           "event_model.DocumentNames[name] raises KeyError for unknown names; known names contain no space",
           "zmq / zmq.asyncio objects are opaque (connect / socket / setsockopt are effect-free here)"]
NOT_DECIDED = ("real sockets, the Proxy, high-water marks; the start/stop of the polling task; deserializers that raise a BaseException outside "
               "Exception; bytes-versus-str type errors inside the diagnostics printed for dropped frames (both are strings in the model)")
KF = "C33-unknown-document-name-kills-poll-loop"
KNOWN = ["start", "stop", "event", "descriptor", "event_page", "datum", "resource", "datum_page", "stream_resource", "stream_datum", "bulk_events", "bulk_datum"]
DECODABLE = z3.Function("utf8_decodable", z3.StringSort(), z3.BoolSort())
SP = z3.StringVal(" ")
SPACE = "<space>"          # marker in flattened concatenations
ANY_EXC = ClassInfo("SomeDeserializerError", bases=[BUILTIN_CLASSES["Exception"]], builtin=True)
DESER_RAISES = [ANY_EXC, "ValueError", "KeyError", "UnicodeDecodeError"]

NM_RT = f"{MZ}:RemoteDispatcher._poll#ensures[a published frame is delivered intact iff the prefixes match]"
NM_HIST = f"{MZ}:RemoteDispatcher._poll#ensures[interleaved frames of two publishers: exactly the frames of the dispatcher's publisher are delivered, in order]"
NM_MAL = (f"{MZ}:RemoteDispatcher._poll#ensures[a frame that is not well-formed is never delivered; non-strict: dropped and the loop continues; "
          "strict: Bluesky0MQDecodeError]")
NM_FRAME = f"{MZ}:Publisher.__call__#ensures[exactly one frame sent]"


def B(term):
    return Sym(term, ("bytes",))


# ----------------------------------------------------------------------------- split
def flatten(t):
    """a string term as a list of items (z3 terms / SPACE): concatenations are flattened, constants are cut at spaces"""
    t = z3.simplify(t)
    out = []

    def walk(x):
        if z3.is_app_of(x, z3.Z3_OP_SEQ_CONCAT):
            for c in x.children():
                walk(c)
        elif z3.is_string_value(x) and " " in x.as_string():
            parts = x.as_string().split(" ")
            items = []
            for j, p in enumerate(parts):
                if j:
                    items.append(SPACE)
                if p:
                    items.append(z3.StringVal(p))
            if z3.is_true(z3.simplify(unflatten(items) == x)):
                out.extend(items)
            else:                      # a constant whose text form does not round-trip: leave it whole (general path)
                out.append(x)
        elif z3.is_string_value(x) and x.as_string() == "":
            pass
        else:
            out.append(x)
    walk(t)
    return out


def unflatten(items):
    ts = [SP if it is SPACE else it for it in items]
    if not ts:
        return z3.StringVal("")
    return ts[0] if len(ts) == 1 else z3.Concat(*ts)


def space_free(w, item):
    """is the item provably free of spaces on this path (constants syntactically, terms by one small query)"""
    if item is SPACE:
        return False
    if z3.is_string_value(item):
        return " " not in item.as_string()
    cache = w.ghost.setdefault("$spacefree", {})
    k = (item.get_id(), len(w.assertions))
    if k not in cache:
        cache[k] = not w.feasible(ops.mk(z3.Contains(item, SP)))
    return cache[k]


def split_sym(w, st, maxsplit):
    """s.split(b' ', maxsplit) by the recursive definition; separators of a concatenation whose leading pieces are space-free are
    resolved syntactically (lemma split_lemma), all others through indexof"""
    items = flatten(st)
    base, off = None, None           # general mode: the rest of the string is base[off:]
    out, n = [], 0
    while maxsplit < 0 or n < maxsplit:
        if maxsplit < 0 and n == 3:
            # unlimited split with more than three separators: the pieces beyond are not modelled - only the length
            # of the result (>= 5) may be used; the poison elements make any other use an engine error
            return out + [Opaque("unmodelled split piece", {}), Opaque("unmodelled split piece", {})]
        if base is None:
            k = items.index(SPACE) if SPACE in items else None
            if k is not None and all(space_free(w, x) for x in items[:k]):
                out.append(B(unflatten(items[:k])))
                items = items[k + 1:]
                n += 1
                continue
            base, off = unflatten(items), z3.IntVal(0)
        i = z3.IndexOf(base, SP, off)
        if not w.branch(ops.mk(i >= 0), f"frame has separator #{n + 1}"):
            break
        out.append(B(z3.SubString(base, off, i - off)))
        off = i + 1
        n += 1
    return out + [B(unflatten(items) if base is None else z3.SubString(base, off, z3.Length(base) - off))]


def install(I, printed):
    w = I.w
    w.quick_z3(250)

    def split(I_, s, args, kwargs):
        sep = args[0] if args else kwargs.get("sep")
        maxsplit = args[1] if len(args) > 1 else kwargs.get("maxsplit", -1)
        if not (isinstance(sep, (bytes, str)) and sep in (b" ", " ") and isinstance(maxsplit, int)):
            raise EngineError("only split(<space>[, <concrete maxsplit>]) is modelled")
        return split_sym(w, s.t, maxsplit)
    w.stubs["str.split"] = split

    def rsplit(I_, s, args, kwargs):
        """s.rsplit(b' ', n), n concrete >= 0: by recursion from the right (only mutated code uses it)"""
        sep = args[0] if args else kwargs.get("sep")
        maxsplit = args[1] if len(args) > 1 else kwargs.get("maxsplit", -1)
        if not (isinstance(sep, (bytes, str)) and sep in (b" ", " ") and isinstance(maxsplit, int) and maxsplit >= 0):
            raise EngineError("only rsplit(<space>, <concrete maxsplit>) is modelled")
        # the last separator of x is characterised by x == u ++ ' ' ++ v with v space-free (u, v unique); trailing space-free pieces of a
        # concatenation are resolved syntactically as in split_sym
        items, out, n = flatten(s.t), [], 0
        while n < maxsplit:
            cand = [j for j in range(len(items)) if items[j] is SPACE or not space_free(w, items[j])]
            if not cand:
                break                                     # no space left
            c = cand[-1]                                  # everything to the right of position c is space-free
            if items[c] is SPACE:
                out.insert(0, B(unflatten(items[c + 1:])))
                items = items[:c]
                n += 1
                continue
            x = items[c]
            if not w.branch(ops.mk(z3.Contains(x, SP)), f"frame has separator #{n + 1} from the right"):
                continue                                  # x is space-free on this path: look again
            u, v = w.str("rsplit_head", fresh=True).t, w.str("rsplit_tail", fresh=True).t
            w.add(ops.mk(z3.And(x == z3.Concat(u, SP, v), z3.Not(z3.Contains(v, SP)))))
            out.insert(0, B(unflatten([v] + items[c + 1:])))
            items = items[:c] + [u]
            n += 1
        return [B(unflatten(items))] + out
    w.stubs["str.rsplit"] = rsplit
    w.stubs["str.encode"] = lambda I_, s, args: B(s.t) if isinstance(s, Sym) else B(z3.StringVal(s))

    def decode(I_, s, args):
        if w.branch(ops.mk(DECODABLE(s.t)), "name bytes decodable"):
            return Sym(s.t)
        raise PyRaise(Obj(BUILTIN_CLASSES["UnicodeDecodeError"], {"args": ("utf-8",), "__cause__": None}))
    w.stubs["str.decode"] = decode

    def docnames_getitem(I_, o, k):
        """DocumentNames[k]: the member named k (one object per name) / KeyError for any other key"""
        hits = [ops.eq(k, n) for n in KNOWN]
        if all(isinstance(h, bool) for h in hits):
            if any(hits):
                return o.spec["attrs"][KNOWN[hits.index(True)]]
            I_.raise_("KeyError", k)
        if I_.truth(Or(*hits), "name is a document name"):
            return Opaque("DocumentNames[name]", {"token": "docname", "attrs": {"name": k}, "truth": True})
        I_.raise_("KeyError", k)
    names = {n: Opaque(f"DocumentNames.{n}", {"token": "docname", "attrs": {"name": n}, "truth": True}) for n in KNOWN}
    w.stubs[(MZ, "DocumentNames")] = Opaque("DocumentNames", {"getitem": docnames_getitem, "attrs": names, "isinstance_default": False})
    I.builtins["print"] = native(lambda I_, a, k: printed.append(1))
    return names


def space_free_bytes(w, name):
    """a symbolic byte string without a space (what both constructors establish for prefixes: task constructors)"""
    s = B(w.str(name).t)
    w.add(ops.mk(z3.Not(z3.Contains(s.t, SP))))
    return s


def dispatcher(I, w, prefix, strict, scheduled, outcomes):
    """RemoteDispatcher pre-state; outcomes[k] says whether the payload of the k-th frame deserializes (True / symbolic bool; frames
    beyond the list do).  A failing call raises an arbitrary Exception (DESER_RAISES)."""
    # deliveries (observed at the subscribed callbacks' entry, Dispatcher.process): through loop.call_soon (FIFO: they run in the order
    # recorded) or by a direct call; a mixture of the two routes would not keep the order and is rejected by `iterations`
    routes = w.ghost.setdefault("$routes", [])

    def call_soon(I_, o, a, k):
        scheduled.append(tuple(a))
        routes.append("soon")
    loop = Opaque("loop", {"methods": {"call_soon": call_soon}})
    received = w.ghost.setdefault("$frames received", [0])

    def deser(I_, a, k):
        ok = outcomes[received[0] - 1] if 0 < received[0] <= len(outcomes) else True
        if ok is not True and not w.branch(ok, "payload deserializes"):
            cls = w.choose(DESER_RAISES, "deserializer raises")
            raise PyRaise(Obj(I_.exc_class(cls), {"args": ("cannot deserialize",), "__cause__": None}))
        return ("deserialized", a[0])
    d = bare(I, f"{MZ}:RemoteDispatcher", _prefix=prefix, _strict=strict, loop=loop, _deserializer=native(deser),
             _socket=Opaque("socket", {"methods": {"recv": lambda I_, o, a, k: Opaque("recv()", {"awaitable": True})}}))
    def direct(I_, a, k):
        scheduled.append((process,) + tuple(a))
        routes.append("direct")
    process = native(direct)
    d.attrs["process"] = process
    return d, process


def iterations(I, d, messages):
    """runs _poll over the given frames until it asks for one more"""
    coro = I.call_value(I.getattr(d, "_poll"))
    n = I.w.ghost.setdefault("$frames received", [0])

    def on_await(payload):
        n[0] += 1
        if n[0] <= len(messages):
            return ("send", messages[n[0] - 1])
        raise _Consumed("all frames consumed")
    try:
        run_coro(I, coro, on_await)
        return ("returned", None, n[0])
    except PyRaise as pr:
        return ("raise", pr.exc, n[0])
    except _Consumed:
        if len(set(I.w.ghost.get("$routes", []))) > 1:
            return ("mixed delivery routes", None, n[0])
        return ("next", None, n[0])


class _Consumed(PathEnd):
    pass


def publisher(I, w, prefix, sent, docs):
    """the real Publisher over a recording socket; the serializer maps doc k (or its deep copy) to payload k"""
    sock = Opaque("socket", {"methods": {"send": lambda I_, o, a, k: sent.append(a[0])}})
    copies = {}

    def deepcopy(I_, a, k):
        for dk, (doc, payload) in enumerate(docs):
            if a[0] is doc:
                return copies.setdefault(dk, Opaque(f"deepcopy(doc{dk})", {"token": "doc"}))
        return Opaque("deepcopy(?)", {})
    w.stubs["copy.deepcopy"] = deepcopy

    def ser(I_, a, k):
        for dk, (doc, payload) in enumerate(docs):
            if a[0] is doc or a[0] is copies.get(dk):
                return payload
        return B(w.str("payload of something else", fresh=True).t)
    return bare(I, f"{MZ}:Publisher", _prefix=prefix, _socket=sock, _serializer=native(ser))


def delivered_is(entry, process, docname, payload):
    """the scheduled call is process(docname, deserialize(payload))"""
    if len(entry) != 3:
        return False
    f, dn, pl = entry
    if not (f is process and dn is docname and isinstance(pl, tuple) and len(pl) == 2 and pl[0] == "deserialized"):
        return False
    return ops.eq(pl[1], payload)


@task("roundtrip", PROP, functions=[f"{MZ}:Publisher.__call__", f"{MZ}:RemoteDispatcher._poll"], expect=[NM_RT],
      covers=["delivered", "filtered out", "dispatcher prefix extends the publisher's", "publisher prefix extends the dispatcher's"])
def roundtrip(I):
    w = I.w
    scheduled, printed, sent = [], [], []
    names = install(I, printed)
    pub_prefix = space_free_bytes(w, "pub_prefix")
    name = w.choose(KNOWN, "document name")                  # no known name contains a space (lemma below)
    payload = B(w.str("payload").t)
    doc = Opaque("doc", {"token": "doc"})
    pub = publisher(I, w, pub_prefix, sent, [(doc, payload)])
    w.add(ops.mk(DECODABLE(z3.StringVal(name))))
    I.call_value(pub, name, doc)
    if len(sent) != 1:
        w.fail(NM_FRAME, {"replay": "zmqframes.roundtrip"})
        return
    filt = w.choose(["no prefix", "same prefix", "other prefix"], "dispatcher prefix")
    if filt == "no prefix":
        dprefix = b""
    elif filt == "same prefix":
        dprefix = pub_prefix
    else:
        dprefix = space_free_bytes(w, "disp_prefix")
        w.add(And(ops.not_(ops.eq(dprefix, pub_prefix)), ops.not_(ops.eq(dprefix, b""))))
        for label, c in (("dispatcher prefix extends the publisher's", z3.PrefixOf(pub_prefix.t, dprefix.t)),
                         ("publisher prefix extends the dispatcher's", z3.PrefixOf(dprefix.t, pub_prefix.t))):
            if label not in w.covered and w.feasible(ops.mk(c)):
                w.covered.add(label)
    strict = w.choose([False, True], "strict")
    d, process = dispatcher(I, w, dprefix, strict, scheduled, [])
    out = iterations(I, d, [sent[0]])
    rp = {"replay": "zmqframes.roundtrip"}
    if filt == "other prefix":
        w.cover("filtered out")
        w.check(NM_RT, out[0] == "next" and scheduled == [], rp)
        return
    w.cover("delivered")
    w.check(NM_RT, out[0] == "next" and len(scheduled) == 1 and delivered_is(scheduled[0], process, names[name], payload), rp)


TWIN_RT = "twin:C33.the delivered document is the deserialization of some other payload"


@task("roundtrip_twin", PROP, functions=[f"{MZ}:Publisher.__call__", f"{MZ}:RemoteDispatcher._poll"], twin=TWIN_RT)
def roundtrip_twin(I):
    """must fail (whatever the code does): the round-trip clause with another payload in the place of the published one"""
    w = I.w
    scheduled, sent = [], []
    names = install(I, [])
    prefix = space_free_bytes(w, "pub_prefix")
    doc = Opaque("doc", {"token": "doc"})
    pub = publisher(I, w, prefix, sent, [(doc, B(w.str("payload").t))])
    w.add(ops.mk(DECODABLE(z3.StringVal("start"))))
    I.call_value(pub, "start", doc)
    d, process = dispatcher(I, w, prefix, False, scheduled, [])
    out = iterations(I, d, sent)
    w.check(TWIN_RT, out[0] == "next" and len(scheduled) == 1 and delivered_is(scheduled[0], process, names["start"], B(w.str("other_payload").t)))


@task("history", PROP, functions=[f"{MZ}:Publisher.__call__", f"{MZ}:RemoteDispatcher._poll"], expect=[NM_HIST],
      covers=["both delivered", "one delivered", "none delivered"])
def history(I):
    """two publishers A, B (arbitrary distinct space-free prefixes) publish two frames in some interleaving; the dispatcher has no
    prefix, A's prefix, or a third prefix"""
    w = I.w
    scheduled, printed = [], []
    names = install(I, printed)
    pa, pb = space_free_bytes(w, "prefix_a"), space_free_bytes(w, "prefix_b")
    w.add(ops.not_(ops.eq(pa, pb)))
    docs = [(Opaque("doc0", {"token": "doc"}), B(w.str("payload0").t)), (Opaque("doc1", {"token": "doc"}), B(w.str("payload1").t))]
    docnames = ["start", "event"]
    for n in docnames:
        w.add(ops.mk(DECODABLE(z3.StringVal(n))))
    order = w.choose(["AA", "AB", "BA", "BB"], "publishers of the two frames")
    sent = []
    for k, who in enumerate(order):
        out_k = []
        pub = publisher(I, w, pa if who == "A" else pb, out_k, docs)
        I.call_value(pub, docnames[k], docs[k][0])
        if len(out_k) != 1:
            w.fail(NM_FRAME, {"replay": "zmqframes.history"})
            return
        sent.append(out_k[0])
    filt = w.choose(["no prefix", "prefix of A", "third prefix"], "dispatcher prefix")
    if filt == "no prefix":
        dprefix, mine = b"", [0, 1]
    elif filt == "prefix of A":
        dprefix, mine = pa, [k for k in (0, 1) if order[k] == "A"]
        w.add(ops.not_(ops.eq(pa, b"")))                 # a dispatcher *with* a prefix
    else:
        dprefix, mine = space_free_bytes(w, "disp_prefix"), []
        w.add(And(ops.not_(ops.eq(dprefix, pa)), ops.not_(ops.eq(dprefix, pb)), ops.not_(ops.eq(dprefix, b""))))
    strict = w.choose([False, True], "strict")
    d, process = dispatcher(I, w, dprefix, strict, scheduled, [])
    out = iterations(I, d, sent)
    w.cover(["none delivered", "one delivered", "both delivered"][len(mine)])
    cond = out[0] == "next" and out[2] == 3 and len(scheduled) == len(mine)
    if cond:
        cond = And(*[delivered_is(scheduled[j], process, names[docnames[k]], docs[k][1]) for j, k in enumerate(mine)])
    w.check(NM_HIST, cond, {"replay": "zmqframes.history"})


@task("malformed", PROP, functions=[f"{MZ}:RemoteDispatcher._poll"], expect=[NM_MAL],
      covers=["no space", "one space", "undecodable name", "unknown name", "bad payload", "well-formed", "foreign prefix",
              "deserializer raises an unrelated Exception"], timeout_s=2400)
def malformed(I):
    w = I.w
    scheduled, printed = [], []
    names = install(I, printed)
    message = B(w.str("message").t)
    pfx = w.choose(["no prefix", "prefix"], "dispatcher prefix")
    dprefix = b"" if pfx == "no prefix" else space_free_bytes(w, "disp_prefix")
    if pfx == "prefix":
        w.add(ops.not_(ops.eq(dprefix, b"")))
    strict = w.choose([False, True], "strict")
    deser_ok = w.bool("payload_deserializes")
    d, process = dispatcher(I, w, dprefix, strict, scheduled, [deser_ok])
    # the frame that follows: a well-formed one addressed to this dispatcher
    payload2 = B(w.str("payload_after").t)
    w.add(ops.mk(DECODABLE(z3.StringVal("stop"))))
    follow = B(z3.Concat(dprefix.t if isinstance(dprefix, Sym) else z3.StringVal(""), z3.StringVal(" stop "), payload2.t))
    out = iterations(I, d, [message, follow])
    # classify the frame independently of the code
    st = message.t
    i1 = z3.IndexOf(st, SP, 0)
    i2 = z3.IndexOf(st, SP, i1 + 1)
    two_spaces = ops.mk(z3.And(i1 >= 0, i2 >= 0))
    prefix_t = z3.SubString(st, 0, i1)
    name_t = z3.SubString(st, i1 + 1, i2 - i1 - 1)
    payload_t = z3.SubString(st, i2 + 1, z3.Length(st) - i2 - 1)
    decodable = ops.mk(DECODABLE(name_t))
    known = ops.mk(z3.Or(*[name_t == z3.StringVal(n) for n in KNOWN]))
    well_formed = And(two_spaces, decodable, known, deser_ok)
    addressed = True if pfx == "no prefix" else ops.mk(prefix_t == dprefix.t)
    foreign = And(two_spaces, Not(addressed))
    deliverable = And(well_formed, addressed)
    for label, c in (("no space", ops.mk(i1 < 0)), ("one space", ops.mk(z3.And(i1 >= 0, i2 < 0))), ("undecodable name", And(two_spaces, Not(decodable))),
                     ("unknown name", And(two_spaces, decodable, Not(known))), ("bad payload", And(two_spaces, decodable, known, Not(deser_ok))),
                     ("well-formed", well_formed), ("foreign prefix", foreign)):
        if label not in w.covered and w.feasible(c):
            w.cover(label)
    if any(lbl == "deserializer raises" and v == 0 for lbl, v in w.decisions):
        w.cover("deserializer raises an unrelated Exception")
    rp = {"replay": "zmqframes.malformed"}
    unknown_name = And(two_spaces, decodable, Not(known))
    if out[0] == "next":
        # both frames consumed: the first is delivered iff it is a well-formed frame for this dispatcher, the second always;
        # a malformed frame for this dispatcher passes silently only in non-strict mode (foreign frames: the statement only
        # demands that nothing is delivered)
        n_first = len(scheduled) - 1
        ok = out[2] == 3 and n_first in (0, 1) and delivered_is(scheduled[-1], process, names["stop"], payload2)
        if ok is False:
            w.fail(NM_MAL, rp)
            return
        cond = And(ok, Implies(Not(deliverable), n_first == 0), Implies(deliverable, n_first == 1),
                   Implies(And(Not(well_formed), Not(foreign)), strict is False))
        if n_first == 1:
            f, dn, pl = scheduled[0]
            same = f is process and isinstance(dn, Opaque) and dn.spec.get("token") == "docname" and isinstance(pl, tuple) and pl[0] == "deserialized"
            cond = And(cond, same and And(ops.eq(Sym(name_t), dn.spec["attrs"]["name"]), ops.eq(pl[1], B(payload_t))))
        w.check(NM_MAL, cond, rp)
    elif out[0] == "raise":
        is_decode_error = exc_is(I, out[1], f"{MZ}:Bluesky0MQDecodeError")
        # the only licensed exception: strict mode on a malformed frame (before anything of it is delivered)
        w.check_kf(NM_MAL, And(is_decode_error, strict is True, out[2] == 1, Not(well_formed), len(scheduled) == 0), KF, unknown_name, rp)
    else:
        w.fail(NM_MAL, rp)


@task("constructors", PROP, functions=[f"{MZ}:Publisher.__init__", f"{MZ}:RemoteDispatcher.__init__"],
      expect=[f"{MZ}:Publisher.__init__#raises[ValueError iff the prefix is a str or contains a space]",
              f"{MZ}:RemoteDispatcher.__init__#raises[ValueError iff the prefix is a str or contains a space]",
              f"{MZ}:Publisher.__init__#ensures[the strict flag (default: not strict) and the (de)serializer are stored as given]",
              f"{MZ}:RemoteDispatcher.__init__#ensures[the strict flag (default: not strict) and the (de)serializer are stored as given]"])
def constructors(I):
    w = I.w
    install(I, [])
    kind = w.choose(["bytes", "str"], "prefix type")
    p = w.str("prefix")
    prefix = B(p.t) if kind == "bytes" else p
    has_space = I.contains(prefix, b" " if kind == "bytes" else " ")
    sock = Opaque("socket", {"default_attr": "method", "methods": {}, "noop": True, "truth": True})
    ctx = Opaque("context", {"methods": {"socket": lambda I_, o, a, k: sock}, "truth": True})
    zmq = Opaque("zmq", {"attrs": {"Context": native(lambda I_, a, k: ctx), "PUB": 1, "SUB": 2, "SUBSCRIBE": 6}, "truth": True})
    w.stubs["asyncio.new_event_loop"] = lambda I_, a, k: Opaque("loop", {"truth": True})
    w.stubs[(MZ, "warnings")] = Opaque("warnings", {"noop": True, "default_attr": "method"})
    which = w.choose(["Publisher", "RemoteDispatcher"], "class")
    I.call_hooks["bluesky.run_engine:Dispatcher.__init__"] = lambda I_, f, a, k: _ret(None)
    kw = {"prefix": prefix, "zmq": zmq}
    codec = Opaque("codec", {"token": "codec"})
    strict = None
    if which == "RemoteDispatcher":
        kw["zmq_asyncio"] = zmq
        kw["deserializer"] = codec
        strict = w.choose([False, True, "default"], "strict")
        if strict != "default":
            kw["strict"] = strict
    else:
        kw["serializer"] = codec
    r = catch(I, I.P.class_info(MZ, which), ("localhost", 5578), **kw)
    bad = Or(kind == "str", has_space)
    nm = f"{MZ}:{which}.__init__#raises[ValueError iff the prefix is a str or contains a space]"
    if r[0] == "raise":
        w.check(nm, And(exc_is(I, r[1], "ValueError"), bad), {"replay": "zmqframes.roundtrip"})
    else:
        w.check(nm, And(Not(bad), ops.eq(r[1]._prefix, prefix)), {"replay": "zmqframes.roundtrip"})
        # the pre-state of the _poll / __call__ contracts is what the constructor was given
        a = r[1].attrs
        if which == "RemoteDispatcher":
            stored = a.get("_deserializer") is codec and a.get("_strict") is (False if strict == "default" else strict)
        else:
            stored = a.get("_serializer") is codec
        w.check(f"{MZ}:{which}.__init__#ensures[the strict flag (default: not strict) and the (de)serializer are stored as given]", stored,
                {"replay": "zmqframes.constructed"})


def _ret(v):
    return v
    yield


@task("names_have_no_space", PROP, expect=["lemma:C33.no document name contains a space"])
def names_no_space(I):
    I.w.check("lemma:C33.no document name contains a space", all(" " not in n for n in KNOWN))


LEMMA = "lemma:C33.split of a concatenation whose head has no space (indexof definition)"


@task("split_lemma", PROP, expect=[LEMMA])
def split_lemma(I):
    """the syntactic rule of split_sym, from the indexof definition: for a without a space, s = a ++ ' ' ++ r has its first space
    at len(a), s[:len(a)] == a and s[len(a)+1:] == r; and a itself has no separator"""
    w = I.w
    w.quick_z3(250)
    a, r = w.str("a").t, w.str("r").t
    s = z3.Concat(a, SP, r)
    w.add(ops.mk(z3.Not(z3.Contains(a, SP))))
    i = z3.IndexOf(s, SP, 0)
    import pyvc.world as W
    budget = W.QUERY_TIMEOUT_MS
    # z3's sequence solver gives up on the first part and cvc5 needs ~0.2 s; on a heavily loaded machine that can exceed the
    # default budget, and every other task relies on this lemma: allow it a minute
    W.QUERY_TIMEOUT_MS = max(budget, 60000)
    try:
        for g in (i == z3.Length(a), z3.SubString(s, 0, i) == a, z3.SubString(s, i + 1, z3.Length(s) - i - 1) == r, z3.IndexOf(a, SP, 0) < 0):
            w.check(LEMMA, ops.mk(g))
    finally:
        W.QUERY_TIMEOUT_MS = budget


@task("split_lemma_twin", PROP, twin="twin:C33.split rule without the space-free hypothesis")
def split_lemma_twin(I):
    """must fail: without the hypothesis the head piece is not a"""
    w = I.w
    w.quick_z3(250)
    a, r = w.str("a").t, w.str("r").t
    s = z3.Concat(a, SP, r)
    w.check("twin:C33.split rule without the space-free hypothesis", ops.mk(z3.IndexOf(s, SP, 0) == z3.Length(a)))
