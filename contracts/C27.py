"""C27 - spiral patterns stay in bounds and square spirals cover the grid.

Carriers: bluesky/plan_patterns.py: spiral, spiral_fermat, spiral_square_pattern (real ASTs, executed by pyvc).

Clauses, written from the statement:

  spiral / spiral_fermat ("only produce points inside the requested (possibly tilted) rectangle around the center"):
     the result is the cycler  x_motor: xs + y_motor: ys  with len(xs) == len(ys), and for EVERY k, with
     u = xs[k] - x_start, v = ys[k] - y_start, a = dr_y/dr (1 when dr_y is None), T = tan(tilt + pi/2):
        R-y   |v| <= y_range / 2
        R-x   |u - (v / a) / T| <= x_range / 2        (the rectangle sheared by `tilt`; x_range is measured along the tilted axis)
     and for the default tilt (T = tan(pi/2) >= 1e16 in IEEE doubles) the plain rectangle up to that float artefact:
        R-x0  |u| <= x_range / 2 + |v / a| / 1e16
     No exception under the documented preconditions (dr > 0, dr_y > 0, nth > 0 / factor > 0), except StopIteration out of
     cycler's `+=` when NO point was produced (cycler cannot add two empty cycles; the contract licenses exactly that case).
     Proof shape: the loops are cut (contracts/loopcut.py); the element invariant R-y /\ R-x is checked for the pairs appended
     by an ARBITRARY iteration of the real loop body (ring number, angle index, cos and sin values arbitrary), so the obligation
     is "the guard in the code implies the documented rectangle", for all real parameters.

  spiral_square_pattern ("produces every point of the x_num by y_num grid exactly once"), grid point (i, j), 0 <= i < x_num,
     0 <= j < y_num:  ( x_center + (i - (x_num-1)/2) * x_range/(x_num-1),  y_center + (j - (y_num-1)/2) * y_range/(y_num-1) )
     i.e. num evenly spaced values from center - range/2 to center + range/2 (a single column / row sits at the centre):
        G-on     every emitted point is a grid point: (X_k, Y_k) == grid(I_k, J_k) for an explicit index witness 0 <= I_k < x_num,
                 0 <= J_k < y_num (witness given per loop by cut position, not by variable name)
        G-count  at most x_num * y_num points are emitted, the two lists have equal length
        G-once   for an ARBITRARY grid index (i, j): exactly one k has (I_k, J_k) == (i, j)        (Skolem constant + ghost counter)
        G-total  exactly x_num * y_num points are emitted
        no exception for x_num, y_num >= 1
     all proved for ALL x_num, y_num >= 1 and all real centres and ranges, by cutting the five real loops (ring loop + four side
     loops) with invariants that give the number of emitted points and the ghost counter in closed form (see "G-once" below).
     G-on + G-once + G-total: the emitted sequence is a bijection onto the grid.  In addition, as an independent cross-check of the
     contract itself, a BOUNDED stand-in runs the real loops unrolled for every 1 <= x_num, y_num <= N (centre, ranges symbolic).
"""
import math

import z3

from .lib import *
from .loopcut import ForCut, PointLog, install, range_stub, require_append_only, loops_of
from pyvc.vals import numeric_kind

PROP = "C27"
M = "bluesky.plan_patterns"
SP, SF, SQ = f"{M}:spiral", f"{M}:spiral_fermat", f"{M}:spiral_square_pattern"
BOUND_QUICK, BOUND_THOROUGH = 12, 40

TRUSTED = [
    "A-REAL: floats are mathematical reals (no rounding, no overflow); float constants in the code keep their exact double value",
    "numpy: np.cos / np.sin return reals in [-1, 1] (nothing else is used); np.sqrt returns a real >= 0; np.pi is the double math.pi; "
    "np.tan(tilt + pi/2) is an arbitrary non-zero real T (tilt = -pi/2 + k*pi, where T would be 0 and numpy compares with inf/nan, is "
    "outside A-REAL); for the default tilt, T = tan(double(pi/2)) >= 1e16 (it is 1.633e16)",
    "cycler: cycler(key, values) is the cycle of the points {key: values[i]}; a + b (and +=) zips two cycles of equal length with "
    "disjoint keys, raises ValueError otherwise, and (cycler 0.12) raises StopIteration when both cycles are EMPTY",
    "x_points / y_points are local, append-only lists (checked syntactically on the real AST on every run: bound once to [], used only "
    "as receiver of .append(v) and as argument of cycler()); 'every element satisfies P' is proved per appended pair",
    "loop cuts (contracts/loopcut.py): establish / havoc / arbitrary iteration of the real body / preserve / exit; the havoc set is the "
    "syntactic write set of the body, complete because the body is checked (on every run) to only bind local names, append to the two "
    "point lists and call abs/int/range/np.cos/np.sin",
    "the reading of 'tilted rectangle' is the one of the carriers' own geometry: |v| <= y_range/2 and |u - (v/a)/tan(tilt+pi/2)| <= "
    "x_range/2 (a shear of the rectangle by `tilt`, in ring-normalised coordinates v/a)",
    "the x_num by y_num grid is centred: spacing range/(num-1), a single column/row (num == 1) lies at the centre",
    "spiral_square_pattern: x_num and y_num are Python ints >= 1 (the docstring says float; x_num % 2 == 0 on a non-integer is outside the statement)",
]
NOT_DECIDED = ("Floating-point rounding is outside A-REAL: a point within an ulp of the border, the error of x_start + x, and grid values "
               "that differ from linspace in the last bit are not judged.  'Exactly once' for spiral_square_pattern is by grid INDEX (with "
               "x_range == 0 or y_range == 0 distinct grid positions have equal coordinates).  Whether the round spirals *fill* the "
               "rectangle (density, number of rings) is not part of the statement and not examined; when no point passes the guard the "
               "carriers raise StopIteration out of cycler's `+=` on empty cycles (library behaviour, licensed by the contract).  The bounded "
               "task (all grid sizes up to 12 quick / 40 thorough) is a cross-check only; the claim rests on the loop-cut proof.")


def Abs(v):
    return ite(v < 0, -v, v)


def real_div(a, b):
    return ops.binop("/", a, b)


# ------------------------------------------------------------------------------------------------ assumed contracts: numpy, cycler
class Env27:
    pass


def numpy_stubs(I, env):
    w = I.w
    memo = {}

    def key(v):
        return v.t.sexpr() if isinstance(v, Sym) else repr(v)

    def tan(I_, a, k):
        x = a[0]
        kk = ("tan", key(x))
        if kk not in memo:
            if isinstance(x, Sym):
                t = w.real("tilt_tan") if not any(q[0] == "tan" for q in memo) else w.real("tan", fresh=True)
                w.add(t != 0)
            elif isinstance(x, float) and abs(math.tan(x)) >= 1e16:
                t = w.real("tan_half_pi")
                w.add(t >= 10 ** 16)
            elif isinstance(x, (int, float)):
                raise EngineError(f"np.tan of the constant {x!r}: no assumed contract")
            else:
                I_.raise_("TypeError", "np.tan of a non-number")
            memo[kk] = t
        return memo[kk]

    def unit(nm):
        def f(I_, a, k):
            if not numeric_kind(a[0]):
                I_.raise_("TypeError", f"np.{nm} of a non-number")
            kk = (nm, key(a[0]))
            if kk not in memo:
                t = w.real(nm, fresh=True)
                w.add(And(t >= -1, t <= 1))
                memo[kk] = t
            return memo[kk]
        return f

    def sqrt(I_, a, k):
        if not numeric_kind(a[0]):
            I_.raise_("TypeError", "np.sqrt of a non-number")
        kk = ("sqrt", key(a[0]))
        if kk not in memo:
            t = w.real("sqrt", fresh=True)
            w.add(t >= 0)
            memo[kk] = t
        return memo[kk]

    w.stubs["numpy.tan"] = tan
    w.stubs["numpy.cos"] = unit("cos")
    w.stubs["numpy.sin"] = unit("sin")
    w.stubs["numpy.sqrt"] = sqrt

    def extattr(I_, obj, name):
        if obj.dotted == "numpy" and name == "pi":
            return math.pi
        return NotImplemented
    w.stubs["extattr"] = extattr
    env.tan = lambda x: tan(I, [x], {})


class Cyc:
    """assumed model of a cycler: ordered (key, list) columns of equal length"""

    def __init__(self, cols):
        self.cols = cols


def cycler_stub(I):
    def length(lst):
        if isinstance(lst, list):
            return ("host", len(lst))
        if isinstance(lst, Opaque) and lst.spec.get("ghost_log") is not None:
            g = lst.spec["ghost_log"]
            return ("ghost", id(g), g.in_step)
        raise EngineError(f"cycler over {lst!r}")

    def binop(I_, op, a, b):
        if op != "+" or not (isinstance(a, Opaque) and isinstance(b, Opaque) and "cyc" in a.spec and "cyc" in b.spec):
            raise EngineError(f"cycler {op}")
        ca, cb = a.spec["cyc"].cols, b.spec["cyc"].cols
        if any(ka is kb for ka, _ in ca for kb, _ in cb):
            I_.raise_("ValueError", "Cannot compose overlapping cycles")
        la, lb = length(ca[0][1]), length(cb[0][1])
        same = (la == lb) if la[0] == "host" or lb[0] == "host" else (la[1] == lb[1] and la[2])
        if not same:
            I_.raise_("ValueError", "Can only add equal length cycles")
        # cycler 0.12: adding two EMPTY cycles raises StopIteration (next(iter(left)) in _process_keys)
        n = la[1] if la[0] == "host" else ca[0][1].spec["ghost_log"].total
        if I_.truth(ops.eq(n, 0), "cycler + on empty cycles"):
            I_.raise_("StopIteration")
        return mk(ca + cb)

    def mk(cols):
        return Opaque("cycler", {"cyc": Cyc(cols), "binop": binop})

    def cycler(I_, a, k):
        if len(a) != 2 or k:
            raise EngineError("cycler(): only cycler(key, values) has an assumed contract")
        return mk([(a[0], a[1])])
    I.w.stubs["cycler.cycler"] = cycler


def columns(res):
    if isinstance(res, Opaque) and "cyc" in res.spec:
        return res.spec["cyc"].cols
    return None


# ------------------------------------------------------------------------------------------------ spiral, spiral_fermat
class Params:
    pass


def spiral_params(I, which, mode, tilted=True):
    w = I.w
    p = Params()
    p.x_motor, p.y_motor = opaque(I, "x_motor"), opaque(I, "y_motor")
    p.x_start, p.y_start = w.real("x_start"), w.real("y_start")
    p.x_range, p.y_range = w.real("x_range"), w.real("y_range")
    p.dr = w.real("dr")
    w.add(p.dr > 0)
    p.last = w.real("nth" if which == "spiral" else "factor")
    w.add(p.last > 0)
    p.dr_y = None
    if mode == "given":
        p.dr_y = w.real("dr_y")
        w.add(p.dr_y > 0)
    p.aspect = real_div(p.dr_y, p.dr) if p.dr_y is not None else 1
    p.tilt = w.real("tilt") if tilted else None
    return p


def rect_y(p, X, Y):
    return Abs(Y - p.y_start) <= real_div(p.y_range, 2)


def rect_x(p, X, Y, T):
    u, v = X - p.x_start, Y - p.y_start
    vn = real_div(v, p.aspect) if isinstance(p.aspect, Sym) else v
    return Abs(u - real_div(vn, T)) <= real_div(p.x_range, 2)


def rect_x0(p, X, Y):
    u, v = X - p.x_start, Y - p.y_start
    vn = real_div(v, p.aspect) if isinstance(p.aspect, Sym) else v
    return Abs(u) <= real_div(p.x_range, 2) + real_div(Abs(vn), 10 ** 16)


def run_spiral(I, which, mode, tilted, clause, prefix=None):
    """-> (outcome, params, ghost); `clause(p, X, Y, T)` is the element invariant"""
    w = I.w
    q = SP if which == "spiral" else SF
    env = Env27()
    numpy_stubs(I, env)
    cycler_stub(I)
    w.stubs["range"] = range_stub
    p = spiral_params(I, which, mode, tilted)
    T = env.tan(ops.binop("+", p.tilt, math.pi / 2.0)) if tilted else env.tan(0.0 + math.pi / 2.0)
    p.T = T
    g = PointLog(I, "x_points", "y_points", lambda X, Y: clause(p, X, Y, T))
    nloops = 2 if which == "spiral" else 1
    cuts = [ForCut(q, i, g, prefix=prefix) for i in range(nloops)]
    rp = {"replay": "patterns.spiral_bounds", "which": which, "dr_y": mode, "tilted": tilted}
    for c in cuts:
        c.info = rp
    node = install(I, q, cuts, nloops)
    require_append_only(node, {"x_points", "y_points"})
    f = I.get_function(q)
    kw = {}
    if p.dr_y is not None:
        kw["dr_y"] = p.dr_y
    if tilted:
        kw["tilt"] = p.tilt
    res = catch(I, f, p.x_motor, p.y_motor, p.x_start, p.y_start, p.x_range, p.y_range, p.dr, p.last, **kw)
    return res, p, g, rp, q


def post_spiral(I, res, p, g, rp, q, clause_name):
    w = I.w
    if res[0] == "raise":
        if exc_is(I, res[1], "StopIteration") and g.attached and g.in_step:
            w.cover("empty pattern")
            w.check(f"{q}#raises[StopIteration only when no point was produced (cycler cannot add empty cycles)]", Eq(g.total, 0), rp)
        else:
            w.fail(f"{q}#no-unlicensed-exception", {**rp, "exception": res[1].cls.name})
        return
    w.check(f"{q}#no-unlicensed-exception", True, rp)
    cols = columns(res[1])
    shape_ok = (cols is not None and len(cols) == 2 and cols[0][0] is p.x_motor and cols[0][1] is g.xobj
                and cols[1][0] is p.y_motor and cols[1][1] is g.yobj)
    w.check(f"{q}#ensures[result is cycler(x_motor, x_points) + cycler(y_motor, y_points)]", bool(shape_ok), rp)
    w.check(f"{q}#ensures[{clause_name}]", g.pending_ok(), rp)
    w.cover("returns")


RECT = "every point inside the requested tilted rectangle: |v| <= y_range/2 and |u - (v/a)/tan(tilt+pi/2)| <= x_range/2"
RECT0 = "default tilt: |v| <= y_range/2 and |u| <= x_range/2 (+ |v/a|/1e16, the float value of tan(pi/2))"


def _mk_spiral(which, mode):
    q = SP if which == "spiral" else SF
    loops = ["loop0", "loop1"] if which == "spiral" else ["loop0"]
    inner = loops[-1]

    @task(f"{which}[dr_y={mode}]", PROP, functions=[q],
          expect=[f"{q}#{l}.{k}" for l in loops for k in ("establish", "preserve")] + [f"{q}#ensures[{RECT}]",
                  f"{q}#ensures[result is cycler(x_motor, x_points) + cycler(y_motor, y_points)]", f"{q}#no-unlicensed-exception",
                  f"{q}#raises[StopIteration only when no point was produced (cycler cannot add empty cycles)]"],
          covers=[f"{inner}: an iteration appends a point", f"{inner}: an iteration starts", f"{loops[0]}: loop exits", "returns",
                  "empty pattern"])
    def t(I):
        res, p, g, rp, q_ = run_spiral(I, which, mode, True, lambda p_, X, Y, T: And(rect_y(p_, X, Y), rect_x(p_, X, Y, T)))
        post_spiral(I, res, p, g, rp, q_, RECT)

    @task(f"{which}[dr_y={mode},default tilt]", PROP, functions=[q],
          expect=[f"{q}#{inner}.preserve", f"{q}#ensures[{RECT0}]"], covers=[f"{inner}: an iteration appends a point", "returns"])
    def t0(I):
        res, p, g, rp, q_ = run_spiral(I, which, mode, False, lambda p_, X, Y, T: And(rect_y(p_, X, Y), rect_x0(p_, X, Y)))
        post_spiral(I, res, p, g, rp, q_, RECT0)


for _w in ("spiral", "spiral_fermat"):
    for _m in ("None", "given"):
        _mk_spiral(_w, _m)


TWIN = "twin:spiral stays within a QUARTER of the requested y range"


@task("spiral.twin", PROP, twin=f"{TWIN}#loop1.preserve")
def spiral_twin(I):
    def wrong(p, X, Y, T):
        return Abs(Y - p.y_start) <= real_div(p.y_range, 4)
    run_spiral(I, "spiral", "given", True, wrong, prefix=TWIN)


# ------------------------------------------------------------------------------------------------ spiral_square_pattern
KF_SINGLE = "C27-square-single-row"       # x_num == 1 or y_num == 1: ZeroDivisionError in range / (num - 1)
G_ON = "G-on: every emitted point is a point of the x_num by y_num grid"
G_COUNT = "G-count: at most x_num*y_num points, x and y lists of equal length"
G_ONCE = "G-once: the emitted sequence is a bijection onto the grid"


def grid_value(center, rng, num, idx):
    """coordinate of grid index `idx` (the statement's grid: centred, spacing rng/(num-1); one column/row sits at the centre)"""
    if isinstance(num, int):
        if num == 1:
            return center
        return center + (idx - real_div(num - 1, 2)) * real_div(rng, num - 1)
    return ite(Eq(num, 1), center, center + (idx - real_div(num - 1, 2)) * real_div(rng, num - 1))


def square_params(I, x_num=None, y_num=None):
    w = I.w
    p = Params()
    p.x_motor, p.y_motor = opaque(I, "x_motor"), opaque(I, "y_motor")
    p.x_center, p.y_center = w.real("x_center"), w.real("y_center")
    p.x_range, p.y_range = w.real("x_range"), w.real("y_range")
    p.x_num = w.int("x_num") if x_num is None else x_num
    p.y_num = w.int("y_num") if y_num is None else y_num
    if x_num is None:
        w.add(And(p.x_num >= 1, p.y_num >= 1))
    return p


def is_int(v):
    return ops.mk(z3.IsInt(v.t)) if isinstance(v, Sym) and v.kind == "real" else True


def square_witness(p, g):
    """grid index (as real-valued terms) of the pair appended by the current arbitrary iteration; by loop ORDINAL and cut
    position (not by variable name): the first point is the centre, ring loop position i, side loop position n give
    side 1 (i-1, n), side 2 (n, -(i-1)), side 3 (-(i-1), n), side 4 (n, i-1), relative to the (parity dependent) centre"""
    st = g.cut_stack
    if not st:
        mx, my = 0, 0
    elif len(st) == 2 and st[0][0] == 0 and st[1][0] in (1, 2, 3, 4):
        r, n = st[0][1] - 1, st[1][1]
        mx, my = {1: (r, n), 2: (n, -r), 3: (-r, n), 4: (n, r)}[st[1][0]]
    else:
        return None
    half = ops.binop("/", 1, 2)
    xoff = ite(Eq(ops.binop("%", p.x_num, 2), 0), half, 0 * half)
    yoff = ite(Eq(ops.binop("%", p.y_num, 2), 0), -half, 0 * half)
    Ir = mx - xoff + real_div(p.x_num - 1, 2)
    Jr = my - yoff + real_div(p.y_num - 1, 2)
    # the same indices as integer terms: (x_num-1)//2 and y_num//2 are the centre's indices for either parity
    Ii = mx + ops.binop("//", p.x_num - 1, 2)
    Ji = my + ops.binop("//", p.y_num, 2)
    return Ir, Jr, Ii, Ji


def on_grid(p, g, X, Y):
    """exists integers 0 <= i < x_num, 0 <= j < y_num with (X, Y) == grid point (i, j); the witness (i, j) is given both as an
    integer term and as the equal real-valued term in which the grid equation is a polynomial identity"""
    wit = square_witness(p, g)
    if wit is None:
        return False
    Ir, Jr, Ii, Ji = wit
    return And(Eq(Ir, Ii), Ii >= 0, Ii <= p.x_num - 1, Eq(X, grid_value(p.x_center, p.x_range, p.x_num, Ir)),
               Eq(Jr, Ji), Ji >= 0, Ji <= p.y_num - 1, Eq(Y, grid_value(p.y_center, p.y_range, p.y_num, Jr)))


def square_common(I):
    numpy_stubs(I, Env27())
    cycler_stub(I)
    I.w.stubs["range"] = range_stub


def product_lemma(I, p):
    """x_num >= 1 and y_num >= 1 give x_num * y_num >= 1: checked once, then used (the only non-linear fact of G-count)"""
    w = I.w
    fact = (p.x_num * p.y_num) >= 1
    if w.check("lemma:x_num*y_num >= 1", fact):
        w.add(fact)


@task("spiral_square_pattern.on_grid", PROP, functions=[SQ],
      expect=[f"{SQ}#loop{k}.{s}" for k in range(5) for s in ("establish", "preserve")] +
             [f"{SQ}#ensures[{G_ON}]", f"{SQ}#ensures[{G_COUNT}]", f"{SQ}#no-unlicensed-exception",
              f"{SQ}#ensures[result is cycler(x_motor, x_points) + cycler(y_motor, y_points)]"],
      covers=[f"loop{k}: an iteration appends a point" for k in (1, 2, 3, 4)] + ["returns", "loop0: loop exits"])
def square_on_grid(I):
    w = I.w
    square_common(I)
    p = square_params(I)
    product_lemma(I, p)
    rp = {"replay": "patterns.square"}
    g = PointLog(I, "x_points", "y_points", lambda X, Y: on_grid(p, g, X, Y))
    total = p.x_num * p.y_num

    def inv(env, pos):
        return And(Eq(env["num_pnts_fnd"], g.total), g.total >= 1, g.total <= total)
    cuts = [ForCut(SQ, k, g, inv=inv, scalars={"num_pnts_fnd": "int"}) for k in range(5)]
    for c in cuts:
        c.info = rp
    node = install(I, SQ, cuts, 5)
    require_append_only(node, {"x_points", "y_points"})
    f = I.get_function(SQ)
    res = catch(I, f, p.x_motor, p.y_motor, p.x_center, p.y_center, p.x_range, p.y_range, p.x_num, p.y_num)
    single = Or(Eq(p.x_num, 1), Eq(p.y_num, 1))
    if res[0] == "raise":
        w.check_kf(f"{SQ}#no-unlicensed-exception", False, KF_SINGLE, single, {**rp, "exception": res[1].cls.name})
        return
    w.check(f"{SQ}#no-unlicensed-exception", True, rp)
    cols = columns(res[1])
    shape_ok = (cols is not None and len(cols) == 2 and cols[0][0] is p.x_motor and cols[0][1] is g.xobj
                and cols[1][0] is p.y_motor and cols[1][1] is g.yobj)
    w.check(f"{SQ}#ensures[result is cycler(x_motor, x_points) + cycler(y_motor, y_points)]", bool(shape_ok), rp)
    w.check(f"{SQ}#ensures[{G_ON}]", g.pending_ok(), rp)
    w.check(f"{SQ}#ensures[{G_COUNT}]", And(g.in_step, g.total <= total), rp)
    w.cover("returns")


@task("spiral_square_pattern.twin", PROP, twin="twin:square spiral stays inside the inner (x_num-1) columns#loop1.preserve")
def square_twin(I):
    w = I.w
    square_common(I)
    p = square_params(I)

    def wrong(X, Y):
        wit = square_witness(p, g)
        if wit is None:
            return False
        if not (len(g.cut_stack) == 2 and g.cut_stack[1][0] == 1):
            return True                                        # only side 1 (the column right of the centre) is judged
        return And(wit[2] >= 0, wit[2] <= p.x_num - 2)          # wrong: the last column is never visited
    g = PointLog(I, "x_points", "y_points", wrong)
    cuts = [ForCut(SQ, k, g, scalars={"num_pnts_fnd": "int"},
                   prefix="twin:square spiral stays inside the inner (x_num-1) columns") for k in range(5)]
    install(I, SQ, cuts, 5)
    catch(I, I.get_function(SQ), p.x_motor, p.y_motor, p.x_center, p.y_center, p.x_range, p.y_range, p.x_num, p.y_num)


# ---- bounded stand-in for G-once: exhaustive over grid sizes, centre and ranges symbolic; the real loops run unrolled
def _bound():
    import os
    return BOUND_THOROUGH if os.environ.get("VERIF_TIER") == "thorough" else BOUND_QUICK


def _subst_value(term, pairs):
    v = z3.simplify(z3.substitute(to_real(term), *pairs))
    if not z3.is_rational_value(v):
        return None
    return v.as_fraction()


def to_real(v):
    from pyvc.vals import to_real_term
    return to_real_term(v)


def _mk_square_bounded(x_num):
    """x_num >= 2: all y_num in 2..N;  x_num == None: the single-row / single-column grids (1, k) and (k, 1), k in 1..N"""
    N = _bound()
    tag = f"x_num={x_num}" if x_num else "single row or column"
    sizes = [(x_num, k) for k in range(2, N + 1)] if x_num else [(1, k) for k in range(1, N + 1)] + [(k, 1) for k in range(2, N + 1)]

    @task(f"spiral_square_pattern.exactly_once[{tag}]", PROP, functions=[SQ],
          bounded=f"all grid sizes 1 <= x_num, y_num <= {N} (centre and ranges symbolic reals)",
          expect=[f"{SQ}#bounded[{G_ONCE}] ({tag})"])
    def t(I, x_num=x_num):
        w = I.w
        square_common(I)
        x_num, y_num = sizes[w.choose(list(range(len(sizes))), "grid size")]
        p = square_params(I, x_num, y_num)
        rp = {"replay": "patterns.square", "x_num": x_num, "y_num": y_num}
        name = f"{SQ}#bounded[{G_ONCE}] ({tag})"
        single = x_num == 1 or y_num == 1
        res = catch(I, I.get_function(SQ), p.x_motor, p.y_motor, p.x_center, p.y_center, p.x_range, p.y_range, x_num, y_num)
        if res[0] == "raise":
            w.check_kf(name, False, KF_SINGLE, single, {**rp, "exception": res[1].cls.name})
            return
        cols = columns(res[1])
        if not (cols is not None and len(cols) == 2 and cols[0][0] is p.x_motor and cols[1][0] is p.y_motor
                and isinstance(cols[0][1], list) and isinstance(cols[1][1], list) and len(cols[0][1]) == len(cols[1][1])):
            w.fail(name, rp)
            return
        xs, ys = cols[0][1], cols[1][1]
        # the grid index of every emitted point, read off at centre 0 and unit spacing ...
        sx = [(p.x_center.t, z3.RealVal(0)), (p.x_range.t, z3.RealVal(max(x_num - 1, 1)))]
        sy = [(p.y_center.t, z3.RealVal(0)), (p.y_range.t, z3.RealVal(max(y_num - 1, 1)))]
        idx = []
        for X, Y in zip(xs, ys):
            a, b = _subst_value(X, sx + sy), _subst_value(Y, sx + sy)
            if a is None or b is None:
                w.fail(name, rp)
                return
            i = (a * 2 + (x_num - 1)) / 2
            j = (b * 2 + (y_num - 1)) / 2
            if i.denominator != 1 or j.denominator != 1 or not (0 <= i < x_num and 0 <= j < y_num):
                w.fail(name, {**rp, "emission": len(idx)})
                return
            idx.append((int(i), int(j)))
        if len(idx) != x_num * y_num or len(set(idx)) != len(idx):
            w.fail(name, rp)
            return
        # ... and the proof that it IS that grid point for every centre and every range
        conds = []
        for (i, j), X, Y in zip(idx, xs, ys):
            conds.append(Eq(X, grid_value(p.x_center, p.x_range, x_num, i)))
            conds.append(Eq(Y, grid_value(p.y_center, p.y_range, y_num, j)))
        w.check_kf(name, And(*conds), KF_SINGLE, single, rp)


for _k in [None] + list(range(2, _bound() + 1)):
    _mk_square_bounded(_k)


# ------------------------------------------------------------------------------------------------ G-once, for ALL grid sizes
# Coordinates relative to the centre's grid index: column index i = mx + (x_num-1)//2, row index j = my + y_num//2, so the grid is
# xlo <= mx <= xhi, ylo <= my <= yhi.  Ring r is the border of the square [-r, r]^2; the walk emits, for ring r = i_ring - 1,
#   side 1: column  r, rows r-1 down to -r      side 2: row -r, columns r-1 down to -r
#   side 3: column -r, rows -r+1 up to r        side 4: row  r, columns -r+1 up to r              (each clipped to the grid).
# For an ARBITRARY grid point P = (a, b) the ghost counter cnt = number of emissions whose index is P; invariants state cnt and the
# number of emitted points in closed form (clip = size of an interval intersection).  The code's early-stop guard
# `num_pnts_fnd < x_num*y_num` must be shown true wherever a grid point is still to be emitted: that is the only non-linear step.
G_ONCE_ALL = "G-once: an arbitrary grid point (i, j) occurs exactly once in the emitted index sequence"
G_TOTAL = "G-total: exactly x_num*y_num points are emitted"


def ind(c):
    return ite(c, 1, 0)


def clip(lo, hi, L, H):
    """number of integers in [lo, hi] intersected with [L, H]"""
    a = ite(lo > L, lo, L)
    b = ite(hi < H, hi, H)
    return ite(b >= a, b - a + 1, 0)


class SquareGeom:
    def __init__(self, I, p):
        w = I.w
        self.I, self.p = I, p
        self.cxc = ops.binop("//", p.x_num - 1, 2)
        self.cyc = ops.binop("//", p.y_num, 2)
        self.xlo, self.xhi = -self.cxc, p.x_num - 1 - self.cxc
        self.ylo, self.yhi = -self.cyc, p.y_num - 1 - self.cyc
        # the arbitrary grid point (Skolem constant of "for every grid point")
        self.a, self.b = w.int("P_mx"), w.int("P_my")
        w.add(And(self.a >= self.xlo, self.a <= self.xhi, self.b >= self.ylo, self.b <= self.yhi))
        self.memo = {}

    def inside(self, s):
        return And(self.a <= s, -self.a <= s, self.b <= s, -self.b <= s)

    def square(self, s):
        """(A, B) = number of grid columns / rows within [-s, s], as fresh integers with their definitions, plus the columns /
        rows outside on either side; the decomposition x_num = A + el + eh, y_num = B + fl + fh is CHECKED and then used"""
        w = self.I.w
        key = s.t.sexpr() if isinstance(s, Sym) else repr(s)
        if key not in self.memo:
            A, B = w.int("A", fresh=True), w.int("B", fresh=True)
            el, eh, fl, fh = (w.int(n, fresh=True) for n in ("el", "eh", "fl", "fh"))
            w.add(And(Eq(A, clip(-s, s, self.xlo, self.xhi)), Eq(B, clip(-s, s, self.ylo, self.yhi)),
                      Eq(el, ite(-self.xlo > s, -self.xlo - s, 0)), Eq(eh, ite(self.xhi > s, self.xhi - s, 0)),
                      Eq(fl, ite(-self.ylo > s, -self.ylo - s, 0)), Eq(fh, ite(self.yhi > s, self.yhi - s, 0))))
            self.memo[key] = (A, B, el, eh, fl, fh)
        return self.memo[key]

    def decomposition(self, s):
        A, B, el, eh, fl, fh = self.square(s)
        return And(Eq(self.p.x_num, A + el + eh), Eq(self.p.y_num, B + fl + fh))


def witness_m(g):
    st = g.cut_stack
    if not st:
        return 0, 0
    if len(st) == 2 and st[0][0] == 0 and st[1][0] in (1, 2, 3, 4):
        r, n = st[0][1] - 1, st[1][1]
        return {1: (r, n), 2: (n, -r), 3: (-r, n), 4: (n, r)}[st[1][0]]
    return None


def square_once(I, twin=None):
    w = I.w
    square_common(I)
    p = square_params(I)
    product_lemma(I, p)
    G = SquareGeom(I, p)
    rp = {"replay": "patterns.square"}

    def hit(X, Y):
        m = witness_m(g)
        if m is None:
            raise EngineError("a point is appended outside the five loops of the contract")
        return ind(And(Eq(m[0], G.a), Eq(m[1], G.b)))
    g = PointLog(I, "x_points", "y_points", lambda X, Y: on_grid(p, g, X, Y), accs={"cnt": hit})
    T = p.x_num * p.y_num
    a, b = G.a, G.b

    def ring(env):
        i = g.cut_stack[0][1]
        r = i - 1
        A, B, el, eh, fl, fh = G.square(r - 1)
        hR, hL, hD, hU = r <= G.xhi, -r >= G.xlo, -r >= G.ylo, r <= G.yhi
        c1 = ite(hR, clip(-r, r - 1, G.ylo, G.yhi), 0)
        c2 = ite(hD, clip(-r, r - 1, G.xlo, G.xhi), 0)
        c3 = ite(hL, clip(-r + 1, r, G.ylo, G.yhi), 0)
        on1 = ind(And(Eq(a, r), b >= -r, b <= r - 1))
        on2 = ind(And(Eq(b, -r), a >= -r, a <= r - 1))
        on3 = ind(And(Eq(a, -r), b >= -r + 1, b <= r))
        return r, A * B, ind(G.inside(r - 1)), (hR, hD, hL, hU), (c1, c2, c3), (on1, on2, on3)

    def common(env):
        return Eq(env["num_pnts_fnd"], g.total)

    def inv0(env, i):
        A, B, el, eh, fl, fh = G.square(i - 2)
        return And(common(env), i >= 2, Eq(g.total, A * B), G.decomposition(i - 2), Eq(g.acc("cnt"), ind(G.inside(i - 2))))

    def inv1(env, n):
        r, AB, ins, (hR, hD, hL, hU), (c1, c2, c3), (on1, on2, on3) = ring(env)
        if twin:       # deliberately wrong: counts the row that is still to be visited
            return And(common(env), hR, Eq(g.total, AB + clip(n, r - 1, G.ylo, G.yhi)))
        return And(common(env), hR, Eq(g.total, AB + clip(n + 1, r - 1, G.ylo, G.yhi)),
                   Eq(g.acc("cnt"), ins + ind(And(Eq(a, r), b >= n + 1, b <= r - 1))))

    def inv2(env, n):
        r, AB, ins, (hR, hD, hL, hU), (c1, c2, c3), (on1, on2, on3) = ring(env)
        return And(common(env), hD, Eq(g.total, AB + c1 + clip(n + 1, r - 1, G.xlo, G.xhi)),
                   Eq(g.acc("cnt"), ins + on1 + ind(And(Eq(b, -r), a >= n + 1, a <= r - 1))))

    def inv3(env, n):
        r, AB, ins, (hR, hD, hL, hU), (c1, c2, c3), (on1, on2, on3) = ring(env)
        return And(common(env), hL, Eq(g.total, AB + c1 + c2 + clip(-r + 1, n - 1, G.ylo, G.yhi)),
                   Eq(g.acc("cnt"), ins + on1 + on2 + ind(And(Eq(a, -r), b >= -r + 1, b <= n - 1))))

    def inv4(env, n):
        r, AB, ins, (hR, hD, hL, hU), (c1, c2, c3), (on1, on2, on3) = ring(env)
        return And(common(env), hU, Eq(g.total, AB + c1 + c2 + c3 + clip(-r + 1, n - 1, G.xlo, G.xhi)),
                   Eq(g.acc("cnt"), ins + on1 + on2 + on3 + ind(And(Eq(b, r), a >= -r + 1, a <= n - 1))))

    invs = [inv0, inv1, inv2, inv3, inv4]
    cuts = [ForCut(SQ, k, g, inv=invs[k], scalars={"num_pnts_fnd": "int"}, label=f"once.loop{k}", prefix=twin) for k in range(5)]
    for c in cuts:
        c.info = rp
    node = install(I, SQ, cuts, 5)
    require_append_only(node, {"x_points", "y_points"})
    res = catch(I, I.get_function(SQ), p.x_motor, p.y_motor, p.x_center, p.y_center, p.x_range, p.y_range, p.x_num, p.y_num)
    if res[0] == "raise" or twin:
        # the exception clause is judged by the on_grid task; nothing is emitted here
        return
    w.check(f"{SQ}#ensures[{G_ONCE_ALL}]", And(g.pending_ok(), Eq(g.acc("cnt"), 1)), rp)
    w.check(f"{SQ}#ensures[{G_TOTAL}]", And(g.in_step, Eq(g.total, T)), rp)
    w.cover("returns")


@task("spiral_square_pattern.exactly_once", PROP, functions=[SQ],
      expect=[f"{SQ}#once.loop{k}.{s}" for k in range(5) for s in ("establish", "preserve")] +
             [f"{SQ}#ensures[{G_ONCE_ALL}]", f"{SQ}#ensures[{G_TOTAL}]"],
      covers=[f"once.loop{k}: an iteration appends a point" for k in (1, 2, 3, 4)] + ["returns", "once.loop0: loop exits"])
def square_exactly_once(I):
    square_once(I)


TWIN_ONCE = "twin:side 1 of a ring has already visited the row it is about to visit"


@task("spiral_square_pattern.exactly_once.twin", PROP, twin=f"{TWIN_ONCE}#once.loop1.preserve")
def square_exactly_once_twin(I):
    square_once(I, twin=TWIN_ONCE)
