"""C37 - file-name templates expand exactly like printf.

Carrier: bluesky/consolidators.py: MultipartRelatedConsolidator.__init__.int_replacer (the function that turns one
printf conversion %[flags][width][.precision]d into a Python format field).
Oracle: C99 7.21.6.1 for the conversion 'd' applied to an index n >= 0, against Python's format-spec semantics
for 'd' applied to the string int_replacer returns.  Both are reduced to *rendering parameters*
   (left spaces, sign char, zeros, digits of n, right padding count + char)
as linear-integer functions of W = width, P = precision, L = number of decimal digits of n; the obligation is their
equality for every flag set, every W >= 1 / absent, every P >= W / absent (the property's grammar) and every n >= 0.
width / precision are symbolic decimal digit strings linked to W, P by str.to_int, so that string-level operations
of the real code (e.g. max() of two digit strings) keep their string semantics.
"""
from .lib import *

PROP = "C37"
MC = "bluesky.consolidators"
IR = f"{MC}:MultipartRelatedConsolidator.__init__.int_replacer"
TRUSTED = ["re.sub / the regular expression are replaced by the group decomposition (flags, width, precision, 'd') the pattern defines: "
           "flags is a string over '-+#0 ', width a decimal string without leading zero, precision a decimal string",
           "Python format-spec semantics for 'd' ([[fill]align][sign][0][width], precision rejected) and C99 printf semantics for %d "
           "are stated as spec functions in this file (cross-checked natively against str.format and libc sprintf in the replay)",
           "indices are non-negative integers; (P == 0 and n == 0) excluded (printf prints no digits there)",
           "the %s / filename substitution of the template is not under contract"]
NOT_DECIDED = ("the %s handling of the template and templates with several integer conversions; which index is expanded for which frame "
               "(consume_stream_datum) is checked for datums of 0-2 frames only (bounded stand-in, not counted)")

FLAGSETS = ["", "0", "-", "+", " ", "#", "-0", "+0", " 0", "-+", "- ", "+ ", "-+0", "- 0", "+ 0", "#0", "-#", "-+ 0"]


def pieces(t):
    """flatten a z3 string term into literal strings and atomic (non-literal) terms"""
    import z3
    out = []

    def walk(x):
        if z3.is_string_value(x):
            out.append(x.as_string())
        elif x.decl().kind() == z3.Z3_OP_SEQ_CONCAT:
            for c in x.children():
                walk(c)
        else:
            out.append(x)
    walk(t)
    # merge adjacent literals
    merged = []
    for p in out:
        if isinstance(p, str) and merged and isinstance(merged[-1], str):
            merged[-1] += p
        else:
            merged.append(p)
    return merged


def py_render(I, spec_pieces, L):
    """Python: '{:<spec>}'.format(n) for n >= 0 with L digits -> rendering tuple or ('error', why)"""
    import z3
    w = I.w
    if not spec_pieces or not isinstance(spec_pieces[0], str) or not spec_pieces[0].startswith("{:"):
        return ("error", "not a replacement field")
    ps = list(spec_pieces)
    ps[0] = ps[0][2:]
    if not isinstance(ps[-1], str) or not ps[-1].endswith("d}"):
        return ("error", "does not end with 'd}'")
    ps[-1] = ps[-1][:-2]
    ps = [p for p in ps if not (isinstance(p, str) and p == "")]
    # [[fill]align][sign][0] literal prefix
    lit = ps[0] if ps and isinstance(ps[0], str) else ""
    rest = ps[1:] if ps and isinstance(ps[0], str) else ps
    align, sign, zero = None, "-", False
    i = 0
    if i < len(lit) and lit[i] in "<>^=":
        align = lit[i]
        i += 1
    if i < len(lit) and lit[i] in "+- ":
        sign = lit[i]
        i += 1
    if i < len(lit) and lit[i] == "0":
        zero = True
        i += 1
    tail = lit[i:]
    width = 0
    if tail:
        if tail.isdigit() and not rest:
            width = int(tail)
        else:
            return ("error", f"unparsable format spec near {tail!r}")
    if rest:
        atom = rest[0]
        if isinstance(atom, str):
            return ("error", "unparsable format spec")
        width = Sym(z3.StrToInt(atom))
        if len(rest) > 1:
            nxt = rest[1]
            if isinstance(nxt, str) and nxt.startswith("."):
                return ("error", "Precision not allowed in integer format specifier")
            return ("error", "unparsable format spec")
    signch = 1 if sign in "+ " else 0           # n >= 0: '+' or ' ' occupy one column, '-' policy prints nothing
    signkind = sign if sign in "+ " else ""
    body = signch + L
    pad = ite(width - body > 0, width - body, 0)
    if align == "<":
        return ("ok", 0, signkind, 0, pad, "0" if zero else " ")
    if align in (">", None) and not zero:
        return ("ok", pad, signkind, 0, 0, " ")
    if zero and align in (None, "="):
        return ("ok", 0, signkind, pad, 0, " ")
    return ("error", f"alignment {align!r} not modelled")


def c_render(flags, W, P, L):
    """C99 printf %[flags][W][.P]d for n >= 0 with L digits"""
    signkind = "+" if "+" in flags else " " if " " in flags else ""
    signch = 1 if signkind else 0
    zeros_p = ite(P - L > 0, P - L, 0) if P is not None else 0
    body = signch + zeros_p + L
    Wv = W if W is not None else 0
    pad = ite(Wv - body > 0, Wv - body, 0)
    if "-" in flags:
        return ("ok", 0, signkind, zeros_p, pad, " ")
    if "0" in flags and P is None:
        return ("ok", 0, signkind, zeros_p + pad, 0, " ")
    return ("ok", pad, signkind, zeros_p, 0, " ")


def same_render(a, b):
    if a[0] != "ok" or b[0] != "ok":
        return False
    _, la, sa, za, ra, ca = a
    _, lb, sb, zb, rb, cb = b
    conds = [Eq(la, lb), sa == sb, Eq(za, zb), Eq(ra, rb)]
    if ca != cb:
        conds.append(Eq(ra, 0))
    return And(*conds)


def digit_string(w, name):
    """a symbolic canonical decimal string with its value"""
    import z3
    s = w.str(name)
    v = w.int(name.upper()[0])
    w.add(ops.mk(z3.StrToInt(s.t) == v.t))
    w.add(ops.mk(s.t == z3.IntToStr(v.t)))
    return s, v


for _fl in FLAGSETS:
    def _mk(flags=_fl):
        @task(f"int_replacer[flags={flags!r}]", PROP, functions=[IR],
              expect=[f"{IR}#ensures[format field renders like printf] (flags={flags!r}, form={fm})" for fm in ("%W.Pd", "%Wd", "%.Pd", "%d")])
        def t(I):
            import z3
            w = I.w
            m, chain, node = I.P.find_function(IR)
            f = Closure(node, m, None, None, IR)
            has_w = w.choose([True, False], "width given")
            has_p = w.choose([True, False], "precision given")
            wstr = pstr = W = P = None
            if has_w:
                wstr, W = digit_string(w, "width")
                w.add(W >= 1)
            if has_p:
                pstr, P = digit_string(w, "precision")
                w.add(P >= 0)
            if has_w and has_p:
                w.add(P >= W)                      # the property's grammar: precision no smaller than the width
            L = w.int("L")                         # number of decimal digits of the index n >= 0
            w.add(L >= 1)
            if has_p:
                w.add(P >= 1)                      # excludes the (P == 0, n == 0) corner
            match = opaque(I, "match", methods={"groups": lambda I_, o, a, k: (flags, wstr, pstr, "d")})
            res = catch(I, f, match)
            form = {(True, True): "%W.Pd", (True, False): "%Wd", (False, True): "%.Pd", (False, False): "%d"}[(has_w, has_p)]
            name = f"{IR}#ensures[format field renders like printf] (flags={flags!r}, form={form})"
            rp = {"replay": "consolidators.int_replacer", "flags": flags, "has_w": has_w, "has_p": has_p}
            if res[0] == "raise":
                w.fail(name, rp)
                return
            out = res[1]
            while isinstance(out, Sym) and z3.is_app_of(out.t, z3.Z3_OP_ITE):
                # the simplifier may float an if-then-else to the top of the string term: split on it
                c_, a_, b_ = out.t.children()
                out = ops.mk(a_) if w.branch(ops.mk(c_), "ite in result") else ops.mk(b_)
            ps = pieces(out.t) if isinstance(out, Sym) else [out]
            py = py_render(I, ps, L)
            c = c_render(flags, W, P, L)
            if py[0] == "error":
                rp["py_error"] = py[1]
                w.fail(name, rp)
                return
            w.check(name, same_render(py, c), rp)
    _mk()


@task("int_replacer.twin", PROP, twin="twin:zero flag ignored")
def twin(I):
    w = I.w
    m, chain, node = I.P.find_function(IR)
    f = Closure(node, m, None, None, IR)
    wstr, W = digit_string(w, "width")
    w.add(W >= 1)
    L = w.int("L")
    w.add(L >= 1)
    match = opaque(I, "match", methods={"groups": lambda I_, o, a, k: ("0", wstr, None, "d")})
    out = I.call_value(f, match)
    py = py_render(I, pieces(out.t), L)
    w.check("twin:zero flag ignored", same_render(py, c_render("", W, None, L)))


# ------------------------------------------------------------------------------------------------ which index is expanded for which frame
MQ = f"{MC}:MultipartRelatedConsolidator"
E_IDX = (f"{MQ}.consume_stream_datum#ensures[the files registered for a datum with indices [a, b) are get_datum_uri(i) for i = a*f .. b*f - 1 in order "
         "(f = files per datum), whatever was registered before; assets numbered on from the existing ones]")
E_URI = f"{MQ}.get_datum_uri#ensures[uri + template.format(index), for a permitted extension]"


@task("multipart.consume_stream_datum", PROP, functions=[f"{MQ}.consume_stream_datum", f"{MQ}.get_datum_uri"], expect=[E_IDX, E_URI],
      bounded="a stream datum of 0-2 frames and 1 or 2 files per frame (the first index and the number of files registered earlier are arbitrary)")
def multipart_consume(I):
    """the statement's 'file names derived for each frame index': the index handed to the (proved) template expansion is the frame's own
    file index, a function of the datum's indices only - not of how many files happen to be registered already"""
    w = I.w
    shape = w.choose(["1/1", "4/2", "6/3"], "datum_shape[0] / chunk_shape[0]")
    d0, c0 = (int(x) for x in shape.split("/"))
    jm = w.choose(["concat", "stack"], "join_method")
    f = d0 // c0 if jm == "concat" else 1
    a = w.int("idx_start")
    k = w.choose([0, 1, 2], "frames in the datum")
    n0 = w.choose([0, 3], "files registered earlier")
    w.add(a >= 0)
    asked = []
    fmt_calls = []
    template = opaque(I, "template", methods={"format": lambda I_, o, a_, k_: fmt_calls.append(a_[0]) or Opaque(w.fresh("name"), {"token": "name", "arg": a_[0]})})
    uri = opaque(I, "uri", binop=lambda I_, op, x, y: ("uri+", y))
    old_assets = [Opaque(f"asset{i}", {"token": "asset"}) for i in range(n0)]
    old_uris = [Opaque(f"uri{i}", {"token": "olduri"}) for i in range(n0)]
    assets, uris = list(old_assets), list(old_uris)
    o = Obj(I.P.class_info(MC, "MultipartRelatedConsolidator"),
            {"datum_shape": (d0, 4, 4), "chunk_shape": (c0, 4, 4), "join_method": jm, "assets": assets, "data_uris": uris,
             "template": template, "uri": uri, "permitted_extensions": {".tif", ".tiff"}})
    w.stubs["os.path.splitext"] = lambda I_, a_, k_: ("img", ".tif")
    w.stubs[(MC, "Asset")] = native(lambda I_, a_, k_: dict(k_))
    base_calls = []

    def base_hook(I_, fn, args, kwargs):
        base_calls.append(args[1])          # (ConsolidatorBase.consume_stream_datum has its own contract: C36)
        return None
        yield
    I.call_hooks[f"{MC}:ConsolidatorBase.consume_stream_datum"] = base_hook
    doc = {"indices": {"start": a, "stop": a + k}, "seq_nums": {"start": w.int("seq_start"), "stop": w.int("seq_start") + k}}
    rp = {"replay": "consolidators.multipart_consume", "shape": shape, "join_method": jm, "frames": k, "earlier": n0}
    res = catch(I, I.getattr(o, "consume_stream_datum"), doc)
    if res[0] == "raise":
        w.fail(E_IDX, rp)
        return
    n = k * f
    ok_len = len(fmt_calls) == n and len(uris) == n0 + n and len(assets) == n0 + n
    cond = ok_len
    if ok_len:
        cond = And(*([Eq(fmt_calls[j], a * f + j) for j in range(n)] or [True]))
        struct = (all(x is y for x, y in zip(uris[:n0], old_uris)) and all(x is y for x, y in zip(assets[:n0], old_assets))
                  and all(isinstance(uris[n0 + j], tuple) and uris[n0 + j][0] == "uri+" and uris[n0 + j][1].spec.get("arg") is fmt_calls[j]
                          and isinstance(assets[n0 + j], dict) and assets[n0 + j].get("data_uri") is uris[n0 + j]
                          and assets[n0 + j].get("num") == n0 + j + 1 and assets[n0 + j].get("parameter") == "data_uris" for j in range(n))
                  and len(base_calls) == 1 and base_calls[0] is doc)
        cond = And(cond, struct)
    w.check(E_IDX, cond, rp)
    # get_datum_uri itself
    got = call_method(I, o, "get_datum_uri", w.int("index"))
    w.check(E_URI, isinstance(got, tuple) and got[0] == "uri+" and got[1].spec.get("arg") is fmt_calls[-1] and Eq(fmt_calls[-1], w.int("index")), rp)


# ------------------------------------------------------------------------------------------------ the assumed group decomposition, validated
E_RE = (f"{MQ}.__init__#assumes-validated[the regular expression handed to re.sub matches every integer conversion of the grammar as a whole and "
        "decomposes it into (flags, width, precision, 'd'); nothing else in such a template matches]")


@task("template.regex_decomposition", PROP, functions=[f"{MQ}.__init__"], expect=[E_RE],
      bounded="the 18 flag sets of the proof (and every permutation of their characters) x widths '', '1', '6', '12' x precisions absent, '0', '6', '12' "
              "(host re module applied to the pattern literal found in the source)")
def regex_decomposition(I):
    """the int_replacer proof replaces re.sub by the decomposition its pattern defines (TRUSTED); this task reads the pattern literal out of the
    real __init__ and checks that decomposition with Python's own re engine, so a change of the pattern cannot slip behind the assumption"""
    import ast as _ast
    import itertools
    import re
    w = I.w
    m, chain, node = I.P.find_function(f"{MQ}.__init__")
    pats = []
    for n in _ast.walk(node):
        if (isinstance(n, _ast.Call) and isinstance(n.func, _ast.Attribute) and n.func.attr == "sub" and len(n.args) >= 2
                and isinstance(n.args[0], _ast.Constant) and isinstance(n.args[0].value, str) and isinstance(n.args[1], _ast.Name)
                and n.args[1].id == "int_replacer"):
            pats.append(n.args[0].value)
    rp = {"replay": "consolidators.regex_decomposition"}
    if len(pats) != 1:
        w.check(E_RE, False, dict(rp, note=f"expected exactly one re.sub(<pattern literal>, int_replacer, ...) in __init__, found {len(pats)}"))
        return
    pat = re.compile(pats[0])
    bad = []
    flagsets = set()
    for fl in FLAGSETS:
        for perm in itertools.permutations(fl):
            flagsets.add("".join(perm))
    for fl in sorted(flagsets):
        for wd in ("", "1", "6", "12"):
            for pr in (None, "0", "6", "12"):
                conv = "%" + fl + wd + ("" if pr is None else "." + pr) + "d"
                text = "img_" + conv + ".tif"
                ms = list(pat.finditer(text))
                ok = (len(ms) == 1 and ms[0].group(0) == conv and tuple(ms[0].groups()) == (fl, wd or None, pr, "d"))
                if not ok and len(bad) < 3:
                    bad.append((conv, [mm.group(0) for mm in ms], [mm.groups() for mm in ms]))
    w.check(E_RE, not bad, dict(rp, pattern=pats[0], examples=repr(bad)))
