"""C04 - resuming replays exactly the work done since the last checkpoint.

Carriers: RunEngine._run (the caching fragment), _rewind, _checkpoint, _clear_checkpoint, _reset_checkpoint_state_meth, the rewindable
setter / _rewindable, _stage, _unstage, _monitor, _unmonitor, _subscribe, _unsubscribe, _close_run, _start_suspender, resume,
_UNCACHEABLE_COMMANDS.

Modular argument (callee contracts, then the loop):
  H   (T1, one real handler at a time, from an arbitrary RunEngine state with an arbitrary non-empty message cache) each of stage,
      unstage, monitor, unmonitor, subscribe, unsubscribe, close_run, checkpoint, and a *toggle* of rewindable ends with the cache empty
      and every open run's checkpoint state reset (an implicit checkpoint); none of the implicit ones makes a non-resumable section
      resumable; clear_checkpoint leaves no cache; a rewindable message that does not toggle leaves the cache alone
  W   (T1) _rewind returns a plan that yields exactly the cached messages, the identical objects in their order, leaves an empty cache,
      and rewinds the open runs iff something is replayed
  U   the non-replayable commands are exactly the documented ones
  INV (T2, the real _run under the asyncio model, arbitrary plan, pauses / suspensions at every step, every post-pause decision):
      at every scheduling point the cache holds exactly the messages the statement says are to be replayed - those seen by msg_hook
      since the most recent (explicit or implicit) checkpoint, minus non-replayable commands and anything executed while not
      rewindable - identical objects in order; no cache inside a non-resumable section; and what resume / a suspension hands to _rewind
      is that list.  After the replayed messages the interrupted plan continues (it is never restarted or closed by a resume).
The ghost list of INV is compared with the cache at every cut point but is not part of the closure key: RunEngine uses the cache
content only through append / len / list (structural side condition `cache_uses_ok`, checked on every run), so a step's effect on
(cache, ghost list) does not depend on what they contain."""
import ast
import collections
import os

from .t2 import *
from .re_lib import make_re, install_tracer
from .bundler_lib import Env, call_async, ret, Ready

PROP = "C04"
TRUSTED = TRUSTED_T2 + [
    "A-ENV: at most one request of another thread is in flight at a time; no new pause / suspension is requested while two or more plans are stacked",
    "T1 handler contracts: devices / bundlers / dispatcher are recording fakes (only the checkpoint bookkeeping is observed)",
    "the documented non-replayable commands are: pause, subscribe, unsubscribe, stage, unstage, monitor, unmonitor, open_run, close_run, "
    "install_suspender, remove_suspender, _start_suspender",
    "the T2 alphabets do not contain the implicit-checkpoint commands that need devices (their effect on the cache is the T1 contract H)",
]
NOT_DECIDED = ("pauses landing *inside* an implicit-checkpoint handler that awaits a device (e.g. an asynchronous stage) are not explored; "
               "Pausable devices raising NoReplayAllowed; the bundlers' own rewind (C05)")
THOROUGH = os.environ.get("VERIF_TIER") == "thorough"
NONREPLAYABLE = ["pause", "subscribe", "unsubscribe", "stage", "unstage", "monitor", "unmonitor", "open_run", "close_run",
                 "install_suspender", "remove_suspender", "_start_suspender"]
IMPLICIT = ["stage", "unstage", "monitor", "unmonitor", "subscribe", "unsubscribe", "close_run"]


# ------------------------------------------------------------------------------------------------ U
@task("uncacheable_commands", PROP, functions=[f"{RE}._run"], expect=[f"{RE}._UNCACHEABLE_COMMANDS#ensures[exactly the documented non-replayable commands]"])
def uncacheable(I):
    w = I.w
    m, chain, node = I.P.find_function(RE)
    found = None
    for st in node.body:
        if isinstance(st, ast.Assign) and isinstance(st.targets[0], ast.Name) and st.targets[0].id == "_UNCACHEABLE_COMMANDS":
            found = ast.literal_eval(st.value)
    w.check(f"{RE}._UNCACHEABLE_COMMANDS#ensures[exactly the documented non-replayable commands]",
            found is not None and sorted(found) == sorted(NONREPLAYABLE), {"replay": "lifecycle.uncacheable", "found": list(found or [])})
    bad = cache_uses_ok(I)
    w.check(f"{RE}#frame[the message cache is only assigned deque() / None, tested for None, appended to, and read by _rewind]", not bad, {"uses": bad})


# ------------------------------------------------------------------------------------------------ H
def fake_run(log, key):
    def m(name, val=None):
        def f(I_, o, a, k):
            log.append((key, name))
            return Ready(val) if name in ("monitor", "unmonitor", "close_run", "clear_checkpoint") else val
        return f
    return Opaque(f"run[{key}]", {"token": "bundler", "truth": True, "isinstance_default": False, "attrs": {"bundling": False, "run_is_open": True},
                                  "methods": {n: m(n) for n in ("reset_checkpoint_state", "monitor", "unmonitor", "close_run", "clear_checkpoint", "rewind")}})


def handler_state(I, cache_kind):
    """an arbitrary RunEngine state: message cache None / empty / holding arbitrary earlier messages; two open runs"""
    w = I.w
    env = Env(I)
    install_tracer(I, [])
    log = []
    old = [MsgVal("custom", None, (), {}, None), MsgVal("set", None, (1,), {}, None)]
    cache = None if cache_kind == "none" else collections.deque([] if cache_kind == "empty" else old)
    runs = {None: fake_run(log, "default"), "b": fake_run(log, "b")}
    disp = Opaque("dispatcher", {"token": "dispatcher", "isinstance_default": False,
                                 "methods": {"subscribe": lambda I_, o, a, k: 7, "unsubscribe": lambda I_, o, a, k: None}})
    re_ = make_re(I, env, _msg_cache=cache, _run_bundlers=dict(runs), dispatcher=disp, _temp_callback_ids={5},
                  _deferred_pause_requested=False, _state_lock=Opaque("lock", {"ctx": "transparent", "isinstance_default": False}))
    I.call_hooks[f"{RE}._add_status_to_group"] = lambda I_, f, a, k: ret(None)
    I.call_hooks[f"{RE}._close_run_trace"] = lambda I_, f, a, k: ret(None)
    w.stubs[(MR, "check_supports")] = native(lambda I_, a, k: a[0])
    dev = Opaque("dev", {"token": "dev", "truth": True, "attrs": {"name": "dev"}, "isinstance_default": False,
                         "isinstance": {"Stageable": True},
                         "methods": {"stage": lambda I_, o, a, k: [o], "unstage": lambda I_, o, a, k: [o]}})
    return re_, log, dev, old


HANDLER_MSGS = {
    "_stage": lambda dev: MsgVal("stage", dev, (), {}, None),
    "_unstage": lambda dev: MsgVal("unstage", dev, (), {}, None),
    "_monitor": lambda dev: MsgVal("monitor", dev, (), {}, None),
    "_unmonitor": lambda dev: MsgVal("unmonitor", dev, (), {}, None),
    "_subscribe": lambda dev: MsgVal("subscribe", None, (Opaque("callback", {"token": "cb"}), "all"), {}, None),
    "_unsubscribe": lambda dev: MsgVal("unsubscribe", None, (5,), {}, None),
    "_close_run": lambda dev: MsgVal("close_run", None, (), {}, None),
    "_checkpoint": lambda dev: MsgVal("checkpoint", None, (), {}, None),
}


def _mk_handler(h):
    explicit = h == "_checkpoint"
    name = f"{RE}.{h}#ensures[{'an explicit' if explicit else 'an implicit'} checkpoint: afterwards nothing executed before it is left to replay, every open run's checkpoint state is reset]"
    name_nr = f"{RE}.{h}#ensures[{'ends a non-resumable section: an empty cache' if explicit else 'inside a non-resumable section the plan stays non-resumable'}]"

    @task(f"handler{h}", PROP, functions=[f"{RE}.{h}", f"{RE}._reset_checkpoint_state_meth", f"{RE}._reset_checkpoint_state_coro"], expect=[name, name_nr])
    def t(I):
        w = I.w
        kind = w.choose(["messages", "empty", "none"], "message cache before")
        re_, log, dev, old = handler_state(I, kind)
        r = call_async(I, I.getattr(re_, h), HANDLER_MSGS[h](dev))
        rp = {"replay": "lifecycle.implicit_checkpoint", "handler": h, "cache": kind}
        if r[0] != "ok":
            w.fail(f"{RE}.{h}#raises[nothing in this state]", dict(rp, raised=repr(r[1])))
            return
        cache = I.getattr(re_, "_msg_cache")
        resets = sorted(k for k, n in log if n == "reset_checkpoint_state")
        open_after = sorted(str(k) for k in I.getattr(re_, "_run_bundlers"))
        if kind == "none":
            if explicit:
                w.check(name_nr, isinstance(cache, collections.deque) and len(cache) == 0, rp)
            else:
                w.check(name_nr, cache is None, rp)
        else:
            want = ["b", "default"] if h != "_close_run" else ["b"]        # the run just closed no longer exists
            w.check(name, isinstance(cache, collections.deque) and len(cache) == 0 and resets == want, dict(rp, resets=resets, open=open_after))
    return t


HANDLER_TASKS = {}
for _h in HANDLER_MSGS:
    HANDLER_TASKS[_h] = _mk_handler(_h)


@task("rewindable.setter", PROP, functions=[f"{RE}.rewindable", f"{RE}._rewindable"],
      expect=[f"{RE}.rewindable#ensures[toggling is an implicit checkpoint; setting the same value (or None) leaves the cache alone]"])
def rewindable_setter(I):
    w = I.w
    kind = w.choose(["messages", "none"], "message cache before")
    cur = w.choose([True, False], "rewindable before")
    new = w.choose([True, False, None], "requested")
    re_, log, dev, old = handler_state(I, kind)
    I.setattr(re_, "_rewindable_flag", cur)
    r = call_async(I, I.getattr(re_, "_rewindable"), MsgVal("rewindable", None, (new,), {}, None))
    cache = I.getattr(re_, "_msg_cache")
    flag = I.getattr(re_, "_rewindable_flag")
    toggled = new is not None and new != cur
    rp = {"replay": "lifecycle.implicit_checkpoint", "handler": "_rewindable", "cache": kind, "before": cur, "requested": new}
    ok = r[0] == "ok" and flag == (cur if new is None else new) and r[1] == flag
    if kind == "none":
        ok = ok and cache is None
    elif toggled:
        ok = ok and len(cache) == 0 and sorted(k for k, n in log if n == "reset_checkpoint_state") == ["b", "default"]
    else:
        ok = ok and list(cache) == old and all(x is y for x, y in zip(cache, old)) and not log
    w.check(f"{RE}.rewindable#ensures[toggling is an implicit checkpoint; setting the same value (or None) leaves the cache alone]", ok, rp)


@task("_clear_checkpoint", PROP, functions=[f"{RE}._clear_checkpoint"], expect=[f"{RE}._clear_checkpoint#ensures[no cache afterwards: the section is not resumable]"])
def clear_checkpoint(I):
    w = I.w
    kind = w.choose(["messages", "empty", "none"], "message cache before")
    re_, log, dev, old = handler_state(I, kind)
    r = call_async(I, I.getattr(re_, "_clear_checkpoint"), MsgVal("clear_checkpoint", None, (), {}, None))
    w.check(f"{RE}._clear_checkpoint#ensures[no cache afterwards: the section is not resumable]",
            r[0] == "ok" and I.getattr(re_, "_msg_cache") is None and I.getattr(re_, "resumable") is False,
            {"replay": "lifecycle.implicit_checkpoint", "handler": "_clear_checkpoint", "cache": kind})


# ------------------------------------------------------------------------------------------------ W
def _mk_rewind(n):
    name = f"{RE}._rewind#ensures[the plan built replays exactly the cached messages, identical objects in order; the cache is emptied; runs rewound iff anything is replayed]"

    @task(f"_rewind[n={n}]", PROP, functions=[f"{RE}._rewind", "bluesky.utils:ensure_generator"], expect=[name],
          bounded=None)
    def t(I):
        w = I.w
        env = Env(I)
        log = []
        msgs = [MsgVal("custom", None, (i,), {}, None) for i in range(n)]
        runs = {None: fake_run(log, "default"), "b": fake_run(log, "b")}
        re_ = make_re(I, env, _msg_cache=collections.deque(msgs), _run_bundlers=dict(runs))
        r = catch(I, I.getattr(re_, "_rewind"))
        rp = {"replay": "lifecycle.rewind_plan", "n": n}
        if r[0] != "ok":
            w.fail(name, dict(rp, raised=repr(r[1])))
            return
        got = []
        gen = r[1]
        while True:
            out = catch(I, I.getattr(gen, "send"), None)
            if out[0] == "raise":
                stop = I.exc_isinstance(out[1], "StopIteration")
                break
            got.append(out[1])
            if len(got) > n + 2:
                stop = False
                break
        cache = I.getattr(re_, "_msg_cache")
        rewound = sorted(k for k, nm in log if nm == "rewind")
        w.check(name, stop and len(got) == n and all(x is y for x, y in zip(got, msgs)) and isinstance(cache, collections.deque) and len(cache) == 0
                and rewound == (["b", "default"] if n else []), dict(rp, rewound=rewound))
    return t


for _n in (0, 1, 2, 3):
    _mk_rewind(_n)


# ------------------------------------------------------------------------------------------------ INV (T2)
class C04:
    """ghost list of the messages the statement wants replayed; compared with the real cache at every event (cut points included)"""

    def __init__(self, sc, tr):
        self.sc, self.tr, self.I, self.w, self.eng = sc, tr, sc.I, sc.w, sc.eng
        self.expected = []
        self.rewindable = True
        self.nr = False
        self.after_rewind = None           # the user's plan must go on after a rewind: it is never closed / restarted by it
        I = self.I
        I.setattr(sc.re, "msg_hook", native(lambda I_, a, k: self.eng.event("msg", a[0])))

    def canon(self, cn):
        return ("C04", self.rewindable, self.nr, len(self.expected) > 0)

    def __call__(self, kind, *a):
        w, sc, I = self.w, self.sc, self.I
        info = {"requests": list(sc.requests), "replay": "lifecycle.replay"}
        if kind == "call" and a[0] == "__call__":
            self.expected, self.rewindable, self.nr = [], bool(I.getattr(sc.re, "_rewindable_flag")), False
            return
        if kind == "msg":
            m = a[0]
            cmd = m.command
            if not self.nr and self.rewindable and cmd not in NONREPLAYABLE:
                self.expected.append(m)
            if cmd == "clear_checkpoint":
                self.nr, self.expected = True, []
            elif cmd == "checkpoint":
                self.nr, self.expected = False, []
            elif cmd == "close_run" and any(b.open for b in self.eng.bundlers):
                self.expected = []
            elif cmd in IMPLICIT and cmd != "close_run":
                self.expected = []
            elif cmd == "rewindable" and m.args and m.args[0] is not None and bool(m.args[0]) != self.rewindable:
                self.rewindable = bool(m.args[0])
                self.expected = []
            return                          # (the handler runs before the next event; the comparison happens there)
        if kind == "rewind" and not isinstance(a[0], list):
            return                          # (a bundler's own rewind)
        if kind == "rewind":
            got = a[0]
            w.check(f"{RE}._rewind#requires[what is handed to the rewind is exactly what the statement wants replayed: the replayable messages since the last checkpoint, in order]",
                    len(got) == len(self.expected) and all(x is y for x, y in zip(got, self.expected)),
                    dict(info, replayed=[m.command for m in got], wanted=[m.command for m in self.expected]))
            self.expected = []
            return
        if kind == "plan-close" and a[0] is sc.plan and self.eng.state not in ("idle",) and not self.tr.term_requested and not self.tr.nonresumable_seen \
                and self.tr.plan_outcome is None and not self.tr.thrown_control:
            w.check(f"{RE}._run#ensures[after the replay the interrupted plan continues: a resume never closes or restarts it]", False, info)
        if self.eng.state == "idle" or kind != "cut":
            return                          # compared at scheduling points only (inside a handler the two are updated one after the other)
        cache = I.getattr(sc.re, "_msg_cache")
        if self.nr:
            ok = cache is None
        else:
            ok = cache is not None and len(cache) == len(self.expected) and all(x is y for x, y in zip(cache, self.expected))
        w.check(f"{RE}._run#invariant[the cache holds exactly the replayable messages executed since the most recent explicit or implicit checkpoint]", ok,
                dict(info, at=kind, cache=None if cache is None else [m.command for m in cache], wanted=[m.command for m in self.expected], non_resumable=self.nr))


def c04_checks(sc, tr):
    tr.checks.append(C04(sc, tr))


SCENARIOS = [
    ("custom,checkpoint,null", "pause", {}),
    ("custom,checkpoint,rewindable_off,rewindable_on", "pause", {}),
    ("custom,checkpoint,pause", "", {}),
    ("custom,checkpoint", "suspend", {}),
    ("custom_async,checkpoint", "pause", {}),
    ("custom,clear_checkpoint,checkpoint", "pause", {}),
    ("open_run,close_run,custom,checkpoint", "pause", {"max_requests": 2}),
    ("custom,rewindable_off,rewindable_on", "suspend", {}),
]
if THOROUGH:
    SCENARIOS += [
        ("custom,checkpoint,rewindable_off,rewindable_on", "pause,suspend", {"max_requests": 3}),
        ("open_run,close_run,custom,checkpoint", "pause,suspend", {"max_requests": 2}),
        ("custom_async,checkpoint,rewindable_off,rewindable_on", "suspend", {}),
    ]
INV = f"{RE}._run#invariant[the cache holds exactly the replayable messages executed since the most recent explicit or implicit checkpoint]"
t2_tasks(PROP, "replay", SCENARIOS, [c04_checks], expect=[INV])


def _twin(sc, tr):
    m = C04(sc, tr)

    def check(kind, *a):
        if kind == "rewind" and isinstance(a[0], list):
            sc.w.check("twin:a rewind never replays anything", len(a[0]) == 0)
    tr.checks.append(check)


t2_tasks(PROP, "twin", [("custom,checkpoint", "pause", {})], [_twin], twin="twin:a rewind never replays anything")
