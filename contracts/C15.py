"""C15 - events contain exactly the readings bundled between create and save.

Carriers: bluesky/bundlers.py: RunBundler.create, read, save, drop, configure (bundling guard);
bluesky/run_engine.py: RunEngine._checkpoint (bundling guard); bluesky/utils: _rearrange_into_parallel_dicts.
Bundler state machine bundling in {False, True} with ghost log of emitted documents.  Step contracts (from the
statement) from an arbitrary open bundler with symbolic counters and symbolic reading values:
  create: while bundling -> IllegalMessageSequence, nothing changed; else caches cleared, bundling' = True, name from
          the kwarg or the positional argument, neither -> ValueError
  read (while bundling): data keys colliding with an object already read in this bundle -> ValueError, bundle
          unchanged; otherwise appended in order; outside a bundle nothing is cached
  save: not bundling -> IllegalMessageSequence; nothing read -> nothing emitted, no seq_num consumed, bundling' = False;
          otherwise the stream's descriptor (data keys = union of the objects' keys) is emitted before the event when it is
          new, exactly one event is emitted whose data / timestamps are exactly the readings of the bundle, bundling' =
          False; a bundle whose object set differs from the stream's -> RuntimeError, nothing emitted
  drop: not bundling -> IllegalMessageSequence; else nothing emitted, no seq_num consumed, bundling' = False
  checkpoint / configure while some run is bundling -> IllegalMessageSequence
"""
from .lib import *
from .re_lib import *
from .C05 import symbolic_state, declare

PROP = "C15"
Q = f"{MB}:RunBundler"
TRUSTED = EM_ASSUMPTIONS + ["device describe()/configuration caches are given (the _ensure_cached calls are replaced by pre-filled caches); "
                            "maybe_collect_asset_docs yields nothing for plain readings (external assets: C45)",
                            "data keys / stream names are concrete representatives; reading values are symbolic reals"]
NOT_DECIDED = "bundles with more than 3 objects are covered only by the per-step contracts (read is proved from bundles of 0..2 objects); external asset documents inside a bundle"
BOUND = "bundle size: read is a step from a bundle of 0..2 objects, save from a bundle of 0..3 objects"
IMS = "bluesky.utils:IllegalMessageSequence"


def device(I, b, name, keys, collectable=False):
    d = Opaque(name, {"token": "dev", "attrs": {"name": name, "hints": {"fields": list(keys)}}, "truth": True, "hasattr": {"hints": True},
                      "isinstance": {"Collectable": collectable}, "isinstance_default": False})
    for cache in ("_config_values_cache", "_config_ts_cache", "_config_desc_cache"):
        b.attrs[cache][d] = {}
    b._describe_cache[d] = {k: {"dtype": "number", "shape": [], "source": name} for k in keys}
    return d


def setup(I):
    w = I.w
    env = Env(I)
    b, uid = opened_bundler(I, env)
    w.stubs[(MB, "maybe_collect_asset_docs")] = native(lambda I_, a, k: [])
    w.stubs[(MB, "maybe_update_hints")] = native(lambda I_, a, k: None)
    I.call_hooks[f"{Q}._ensure_cached"] = lambda I_, f, a, k: ret(Ready(None))
    return env, b


def reading(w, keys, tag):
    return {k: {"value": w.real(f"{tag}_{k}"), "timestamp": w.real(f"{tag}_{k}_ts")} for k in keys}


@task("create", PROP, functions=[f"{Q}.create"],
      expect=[f"{Q}.create#ensures[opens a bundle with the given name; second create rejected; no name -> ValueError]"])
def create(I):
    w = I.w
    env, b = setup(I)
    case = w.choose(["kwarg", "positional", "no name", "already bundling"], "case")
    rp = {"replay": "bundler.bundles"}
    name = f"{Q}.create#ensures[opens a bundle with the given name; second create rejected; no name -> ValueError]"
    b._objs_read.append(Opaque("stale", {}))
    b._read_cache.append({"stale": 1})
    if case == "already bundling":
        b.attrs["bundling"] = True
        b.attrs["_bundle_name"] = "primary"
        r = call_async(I, I.getattr(b, "create"), MsgVal("create", None, (), {"name": "other"}, None))
        w.check(name, r[0] == "raise" and exc_is(I, r[1], IMS) and b.bundling is True and b._bundle_name == "primary" and len(b._objs_read) == 1, rp)
        return
    msg = {"kwarg": MsgVal("create", None, (), {"name": "primary"}, None), "positional": MsgVal("create", None, ("primary",), {}, None),
           "no name": MsgVal("create", None, (), {}, None)}[case]
    r = call_async(I, I.getattr(b, "create"), msg)
    if case == "no name":
        w.check(name, r[0] == "raise" and exc_is(I, r[1], "ValueError"), rp)
    else:
        w.check(name, r[0] == "ok" and b.bundling is True and b._bundle_name == "primary" and len(b._objs_read) == 0 and len(b._read_cache) == 0, rp)


@task("read", PROP, functions=[f"{Q}.read"], bounded=BOUND,
      expect=[f"{Q}.read#ensures[appended in order unless its keys collide with an object already in the bundle (ValueError, bundle unchanged)]"])
def read(I):
    w = I.w
    env, b = setup(I)
    n_prev = w.choose([0, 1, 2], "objects already in the bundle")
    prev = [device(I, b, f"p{i}", [f"k{i}"]) for i in range(n_prev)]
    collide = w.choose([False, True], "new object shares a data key") if n_prev else False
    keys = ["new", "k0"] if collide else ["new"]
    d = device(I, b, "d", keys)
    bundling = w.choose([True, False], "bundling")
    b.attrs["bundling"] = bundling
    b.attrs["_bundle_name"] = "primary" if bundling else None
    for i, p in enumerate(prev):
        b._objs_read.append(p)
        b._read_cache.append(reading(w, [f"k{i}"], f"prev{i}"))
    rd = reading(w, keys, "new")
    before = (list(b._objs_read), list(b._read_cache))
    r = call_async(I, I.getattr(b, "read"), MsgVal("read", d, (), {}, None), rd)
    name = f"{Q}.read#ensures[appended in order unless its keys collide with an object already in the bundle (ValueError, bundle unchanged)]"
    rp = {"replay": "bundler.bundles"}
    unchanged = list(b._objs_read) == before[0] and all(x is y for x, y in zip(b._read_cache, before[1])) and len(b._read_cache) == len(before[1])
    if not bundling:
        w.check(name, r[0] == "ok" and r[1] is rd and unchanged, rp)
    elif collide:
        w.check(name, r[0] == "raise" and exc_is(I, r[1], "ValueError") and unchanged, rp)
    else:
        w.check(name, r[0] == "ok" and r[1] is rd and list(b._objs_read) == before[0] + [d] and b._read_cache[-1] is rd
                and len(b._read_cache) == len(before[1]) + 1, rp)


@task("save", PROP, functions=[f"{Q}.save", f"{Q}._prepare_stream", "bluesky.utils:_rearrange_into_parallel_dicts"], bounded=BOUND,
      expect=[f"{Q}.save#ensures[one event holding exactly the bundle's readings, after its descriptor; empty bundle emits nothing]"])
def save(I):
    w = I.w
    env, b = setup(I)
    n = w.choose([0, 1, 2, 3], "objects in the bundle")
    devs = [device(I, b, f"d{i}", [f"k{i}"] if i else ["k0", "k0b"]) for i in range(n)]
    known = w.choose([False, True], "stream descriptor already exists") if n else False
    if known:
        objs_dks = {d: b._describe_cache[d] for d in devs}
        r0 = call_async(I, I.getattr(b, "_prepare_stream"), "primary", objs_dks)
        if r0[0] != "ok":
            raise EngineError("harness _prepare_stream failed")
    nxt = w.int("next_primary")
    w.add(nxt >= 1)
    if known:
        b._sequence_counters["primary"] = nxt
    other = w.int("next_other")
    b._sequence_counters["other"] = other
    b.attrs["bundling"] = True
    b.attrs["_bundle_name"] = "primary"
    rds = []
    for i, d in enumerate(devs):
        b._objs_read.append(d)
        rd = reading(w, list(b._describe_cache[d]), f"r{i}")
        rds.append(rd)
        b._read_cache.append(rd)
    env.emitted.clear()
    r = call_async(I, I.getattr(b, "save"), MsgVal("save", None, (), {}, None))
    name = f"{Q}.save#ensures[one event holding exactly the bundle's readings, after its descriptor; empty bundle emits nothing]"
    rp = {"replay": "bundler.bundles"}
    if n == 0:
        w.check(name, And(r[0] == "ok" and len(env.emitted) == 0 and b.bundling is False and "primary" not in b._sequence_counters,
                          Eq(b._sequence_counters["other"], other)), rp)
        return
    names = [nm for nm, d in env.emitted]
    ok = r[0] == "ok" and names == (["event"] if known else ["descriptor", "event"]) and b.bundling is False and b._bundle_name is None
    if not ok:
        w.fail(name, rp)
        return
    ev = env.emitted[-1][1]
    desc = b._descriptors["primary"].attrs["descriptor_doc"] if hasattr(b._descriptors["primary"], "attrs") else None
    want_data = {k: v["value"] for rd in rds for k, v in rd.items()}
    want_ts = {k: v["timestamp"] for rd in rds for k, v in rd.items()}
    conds = [list(ev["data"]) == list(want_data), list(ev["timestamps"]) == list(want_ts), ev["descriptor"] == desc["uid"],
             set(desc["data_keys"]) == set(want_data), ev["filled"] == {}]
    conds += [ev["data"][k] is want_data[k] and ev["timestamps"][k] is want_ts[k] for k in want_data if k in ev["data"]]
    if not known:
        conds.append(env.emitted[0][1] is desc and desc["name"] == "primary")
    w.check(name, And(all(conds), Eq(ev["seq_num"], nxt if known else 1), Eq(b._sequence_counters["other"], other)), rp)


@task("save.mismatch_and_guards", PROP, functions=[f"{Q}.save", f"{Q}.drop", f"{RE}._configure", f"{RE}._checkpoint"],
      expect=[f"{Q}.save#raises[IllegalMessageSequence outside a bundle; RuntimeError when the bundle's objects differ from the stream's; nothing emitted]",
              f"{Q}.drop#ensures[nothing emitted, no seq_num consumed, bundling' = False; IllegalMessageSequence outside a bundle]",
              f"{RE}._checkpoint#raises[IllegalMessageSequence while some run is bundling]",
              f"{RE}._configure#raises[IllegalMessageSequence while bundling, device not configured]"])
def guards(I):
    w = I.w
    env, b = setup(I)
    d0, d1 = device(I, b, "d0", ["k0"]), device(I, b, "d1", ["k1"])
    r0 = call_async(I, I.getattr(b, "_prepare_stream"), "primary", {d0: b._describe_cache[d0]})
    nxt, _ = symbolic_state(I, env, b, ["primary"])
    case = w.choose(["save outside", "save mismatch", "drop", "drop outside", "checkpoint", "configure"], "case")
    env.emitted.clear()
    rp = {"replay": "bundler.bundles"}
    n_save = f"{Q}.save#raises[IllegalMessageSequence outside a bundle; RuntimeError when the bundle's objects differ from the stream's; nothing emitted]"
    n_drop = f"{Q}.drop#ensures[nothing emitted, no seq_num consumed, bundling' = False; IllegalMessageSequence outside a bundle]"
    if case == "save outside":
        r = call_async(I, I.getattr(b, "save"), MsgVal("save", None, (), {}, None))
        w.check(n_save, r[0] == "raise" and exc_is(I, r[1], IMS) and not env.emitted, rp)
        return
    if case == "drop outside":
        r = call_async(I, I.getattr(b, "drop"), MsgVal("drop", None, (), {}, None))
        w.check(n_drop, r[0] == "raise" and exc_is(I, r[1], IMS) and not env.emitted, rp)
        return
    b.attrs["bundling"] = True
    b.attrs["_bundle_name"] = "primary"
    b._objs_read.append(d1)
    b._read_cache.append(reading(w, ["k1"], "r"))
    if case == "save mismatch":
        r = call_async(I, I.getattr(b, "save"), MsgVal("save", None, (), {}, None))
        w.check(n_save, And(r[0] == "raise" and exc_is(I, r[1], "RuntimeError") and not env.emitted, Eq(b._sequence_counters["primary"], nxt["primary"])), rp)
    elif case == "drop":
        r = call_async(I, I.getattr(b, "drop"), MsgVal("drop", None, (), {}, None))
        w.check(n_drop, And(r[0] == "ok" and not env.emitted and b.bundling is False, Eq(b._sequence_counters["primary"], nxt["primary"])), rp)
    elif case == "checkpoint":
        # checkpoint state is global: the guard must look at every open run, whatever run key the checkpoint message itself carries
        other = new_bundler(I, env)
        bkey = w.choose([None, "a"], "run key of the bundling run")
        mkey = w.choose([None, "a", "b"], "run key of the checkpoint message")
        okey = "a" if bkey is None else None
        re_ = make_re(I, env, _run_bundlers={okey: other, bkey: b}, _deferred_pause_requested=False)
        r = call_async(I, I.getattr(re_, "_checkpoint"), MsgVal("checkpoint", None, (), {}, mkey))
        w.check(f"{RE}._checkpoint#raises[IllegalMessageSequence while some run is bundling]",
                r[0] == "raise" and exc_is(I, r[1], IMS) and not env.emitted, {"replay": "bundler.checkpoint_guard", "bundling_key": bkey, "message_key": mkey})
    else:
        configured = []
        d1.spec["methods"] = {"configure": lambda I_, o, a, k: configured.append(a) or ({}, {})}
        re_ = make_re(I, env, _run_bundlers={None: b})
        r = call_async(I, I.getattr(re_, "_configure"), MsgVal("configure", d1, (5,), {}, None))
        w.check(f"{RE}._configure#raises[IllegalMessageSequence while bundling, device not configured]",
                r[0] == "raise" and exc_is(I, r[1], IMS) and not env.emitted and not configured, rp)
