"""Ghost monitors for C09, C10, C12, C13 over the events of a T2 scenario (see run_mon.py for the conventions: bounded ghost state,
part of the canonical key through canon())."""
from .lib import *
from .run_lib import *
from .run_mon import REQ, is_exc, TERMINAL_STATES


class Mon:
    """a monitor with bounded ghost fields that take part in the closure key"""
    fields = ()

    def canon(self, cn):
        return (type(self).__name__,) + tuple(cn.c(getattr(self, f)) for f in self.fields)


# ---------------------------------------------------------------------------------------------------------- C09
class C09(Mon):
    fields = ("due", "from_deferred", "pending_seen")      # n_tr is a scan index (everything is scanned at every cut), not ghost state

    def __init__(self, sc, tr):
        self.sc, self.tr, self.I, self.w, self.eng = sc, tr, sc.I, sc.w, sc.eng
        self.due = False              # a checkpoint was yielded while a deferred pause was pending: the engine must pause before any later message
        self.from_deferred = False    # the engine is paused because of that: the coming resume must replay nothing
        self.pending_seen = False     # a deferred request was acknowledged and not yet turned into a pause
        self.n_tr = 0

    def flag(self):
        return self.I.getattr(self.sc.re, "_deferred_pause_requested") is True

    def quiet(self):
        """only deferred pauses (and suspensions, which do not cancel a deferred request) were requested in this call"""
        tr = self.tr
        return not tr.term_requested and not (tr.interrupters - {"pause_defer", "pause-msg-defer", "suspend"}) and not tr.failed_pause and not tr.nonresumable_seen

    def __call__(self, kind, *a):
        w, sc, tr = self.w, self.sc, self.tr
        info = {"requests": list(sc.requests), "replay": "lifecycle.replay"}
        trs = self.eng.ghost.get("transitions", [])
        while self.n_tr < len(trs):
            fr, to = trs[self.n_tr]
            self.n_tr += 1
            if to == "pausing":
                if self.pending_seen and not self.due and self.quiet():
                    w.check(f"{REQ}._request_pause_coro#ensures[a deferred pause does not take effect before a checkpoint is processed]", False,
                            dict(info, at=str(getattr(sc.plan.last_msg, "command", None))))
                self.pending_seen = False
            if to == "suspending":
                self.due = False              # a suspension interrupting the checkpoint itself: the pause is due again at the next checkpoint
            if to == "paused":
                if self.due:
                    self.from_deferred = True
                self.due = False
            if to == "idle":
                self.due = self.from_deferred = False
            if fr == "paused":
                # the engine has left the pause: by resume (its rewind was judged when it happened) or by abort / stop / halt - a rewind
                # that happens later (e.g. for a suspension, when the plan survives the halt) is not "resuming from a deferred pause"
                self.from_deferred = False
        if kind == "call" and a[0] == "__call__":
            self.pending_seen = False        # the next plan starts: __call__ clears the request
        elif self.flag() and self.eng.state != "idle":
            self.pending_seen = True
        if kind in ("plan-yield", "replay-yield"):
            msg = a[1]
            if self.due and self.quiet():
                w.check(f"{REQ}._checkpoint#ensures[with a deferred pause pending the engine pauses at the checkpoint, before any later message]",
                        False, dict(info, later_message=msg.command))
            if msg.command == "checkpoint" and self.pending_seen:
                self.due = True               # (the ghost flag, not the engine's: a request must not get lost on the way)
            elif msg.command == "checkpoint":
                w.ok(f"{REQ}._checkpoint#ensures[with a deferred pause pending the engine pauses at the checkpoint, before any later message]")
        elif kind == "rewind" and isinstance(a[0], list):
            if self.from_deferred:
                w.check(f"{REQ}._rewind#ensures[resuming from a deferred pause replays nothing]", len(a[0]) == 0,
                        dict(info, replayed=[m.command for m in a[0]]))
                self.from_deferred = False
        elif kind == "returned":
            name, r = a
            if name == "__call__" and sc.plan.name == "plan2":
                w.check(f"{REQ}.__call__#ensures[a deferred request left over from the previous call does not pause the next plan]",
                        r[0] == "ok" and self.eng.state == "idle", dict(info, result=repr(r)[:80], state=self.eng.state))
            if name in ("__call__", "resume") and self.eng.state == "idle":
                if self.pending_seen and r[0] == "ok" and self.quiet():
                    w.check(f"{REQ}.deferred_pause_requested#ensures[a deferred request with no later checkpoint stays pending after the plan completes]",
                            self.flag(), dict(info, call=name))
                self.pending_seen = False
        elif kind == "plan-start" and getattr(a[0], "name", "") == "plan2":
            w.check(f"{REQ}.deferred_pause_requested#ensures[starting the next plan clears a stale deferred request]", not self.flag(), info)


def c09_checks(sc, tr):
    m = C09(sc, tr)
    tr.checks.append(m)

    def on_plan_msg(kind, *a):
        # deferred pauses requested by the plan itself (Msg('pause', defer=True)) count as deferred requests
        if kind == "plan-yield" and a[1].command == "pause" and a[1].kwargs.get("defer"):
            tr.interrupters = (tr.interrupters - {"pause-msg"}) | {"pause-msg-defer"}
    tr.checks.insert(0, on_plan_msg)


# ---------------------------------------------------------------------------------------------------------- C10
class C10(Mon):
    fields = ("doomed", "thrown")

    def __init__(self, sc, tr):
        self.sc, self.tr, self.I, self.w, self.eng = sc, tr, sc.I, sc.w, sc.eng
        self.doomed = None            # kind of interruption that took effect while no checkpoint was in effect (statement's definition)
        self.thrown = False           # an exception reached the user's plan afterwards (its cleanup code was entered) or the plan was over
        self.n_tr = 0
        self.eng.ghost.setdefault("on_transition", []).append(self.on_transition)

    def on_transition(self, fr, to):
        if self.doomed is not None or not self.tr.section_nr or self.sc.plan.done:
            return          # (a request that takes effect after the plan's last message interrupts nothing: see C08)
        if to in ("pausing", "suspending"):
            self.doomed, self.thrown = to, self.sc.plan.done
        elif to == "aborting" and is_exc(self.I, self.I.getattr(self.sc.re, "_exception"), "bluesky.utils", "FailedPause"):
            self.doomed, self.thrown = "suspending", self.sc.plan.done

    def __call__(self, kind, *a):
        w, sc, tr, I = self.w, self.sc, self.tr, self.I
        info = {"requests": list(sc.requests), "replay": "lifecycle.replay"}
        trs = self.eng.ghost.get("transitions", [])
        while self.n_tr < len(trs):
            fr, to = trs[self.n_tr]
            self.n_tr += 1
            if to == "paused" and self.doomed:
                w.check(f"{REQ}._run#ensures[a pause or suspension taking effect with no checkpoint in effect never leaves the engine paused]", False,
                        dict(info, interruption=self.doomed))
        if kind in ("plan-throw", "plan-throw-unstarted", "plan-close") and a[0] is sc.plan and self.doomed:
            self.thrown = True
        if kind == "plan-yield" and a[0] is sc.plan and self.doomed and not self.thrown:
            w.check(f"{REQ}._run#ensures[after such an interruption no further plan message is executed before the plan's cleanup code is entered]", False,
                    dict(info, interruption=self.doomed, message=a[1].command))
        if kind == "returned":
            name, r = a
            if name in ("__call__", "resume") and self.doomed:
                rei = I.P.class_info("bluesky.utils", "RunEngineInterrupted")
                open_runs = [b for b in self.eng.bundlers if b.open]
                failure = tr.plan_outcome == "raised" and not (isinstance(tr.plan_exc, Obj) and any(
                    tr.plan_exc.cls.issubclass(I.P.class_info("bluesky.utils", n)) for n in ("RequestAbort", "RequestStop", "PlanHalt", "FailedPause")))
                st = self.eng.state
                w.check(f"{REQ}._run#ensures[the call ends idle with every run closed and the plan's cleanup code entered]",
                        st == "idle" and not open_runs and (self.thrown or sc.plan.done), dict(info, state=st, open_runs=len(open_runs), call=name))
                if st == "idle" and not failure:
                    w.check(f"{REQ}.{name}#raises[the interruption is reported: RunEngineInterrupted]",
                            r[0] == "raise" and isinstance(r[1], Obj) and r[1].cls.issubclass(rei), dict(info, call=name, result=repr(r)[:80]))
                self.doomed, self.thrown = None, False
            elif name in ("__call__", "resume"):
                w.ok(f"{REQ}._run#ensures[the call ends idle with every run closed and the plan's cleanup code entered]")


def c10_checks(sc, tr):
    tr.checks.append(C10(sc, tr))


# ---------------------------------------------------------------------------------------------------------- C12
KF_C12 = "C12-inflight-error-lost-on-rewind"


class C12(Mon):
    fields = ("pending", "lost_inflight")

    def __init__(self, sc, tr):
        self.sc, self.tr, self.I, self.w, self.eng = sc, tr, sc.I, sc.w, sc.eng
        self.lost_inflight = False
        self.pending = None           # the device exception raised by the handler of the user plan's current message, not yet delivered

    def __call__(self, kind, *a):
        w, sc, tr = self.w, self.sc, self.tr
        info = {"requests": list(sc.requests), "replay": "lifecycle.replay"}
        name = f"{REQ}._run#ensures[a device error is thrown into the plan at the yield of the message that caused it]"
        if kind == "handler-raise" and a[0] is sc.plan.last_msg:
            self.pending = a[1]
        elif kind == "dev-fail" and getattr(a[0], "msg", None) is sc.plan.last_msg:
            self.pending = a[1]
        elif kind == "dev-raise" and sc.plan.last_msg is not None and sc.plan.last_msg.obj is a[0] and not sc.plan.done:
            self.pending = a[1]              # a real handler (_set ...) calling a device method that raises
        elif kind == "outcome-lost" and a[0] is sc.plan.last_msg and a[1][0] == "throw":
            self.lost_inflight = True       # the error reached the future, but the waiting handler was cancelled before it woke up
        elif kind == "plan-yield" and a[0] is sc.plan:
            self.lost_inflight = False
        elif kind == "plan-send" and a[0] is sc.plan:
            if self.pending is not None:
                w.check_kf(name, False, KF_C12, self.lost_inflight, dict(info, got="a normal response", error=repr(self.pending)))
            else:
                w.ok(name)
            self.pending = None
        elif kind == "plan-throw" and a[0] is sc.plan:
            if self.pending is not None:
                # the error itself, or what superseded it: a control exception of an interruption, or the error of the replayed message
                e = a[1]
                control = any(is_exc(self.I, e, "bluesky.utils", n) or e is self.I.P.class_info("bluesky.utils", n)
                              for n in ("RequestAbort", "RequestStop", "PlanHalt", "FailedPause"))
                replay_err = isinstance(e, Obj) and str(getattr(e, "label", "")).startswith("dev_error")
                w.check(name, e is self.pending or control or replay_err, dict(info, got=repr(e), error=repr(self.pending)))
            self.pending = None
        elif kind in ("plan-close",) and a[0] is sc.plan:
            self.pending = None
        elif kind == "returned":
            nm, r = a
            if nm in ("__call__", "resume") and tr.plan_outcome == "raised" and isinstance(tr.plan_exc, Obj) and \
                    str(getattr(tr.plan_exc, "label", "")).startswith("dev_error") and self.eng.state == "idle":
                w.check(f"{REQ}.{nm}#raises[a device error the plan does not handle ends the call with that exception]",
                        r[0] == "raise" and r[1] is tr.plan_exc, dict(info, call=nm, result=repr(r)[:80]))


def c12_checks(sc, tr):
    tr.checks.append(C12(sc, tr))


# ---------------------------------------------------------------------------------------------------------- C13
KF_C13 = "C13-inflight-response-lost-on-rewind"


class C13(Mon):
    fields = ("responses", "inflight_cancelled", "opened", "user_turn")
    user_turn = False

    def __init__(self, sc, tr):
        self.sc, self.tr, self.I, self.w, self.eng = sc, tr, sc.I, sc.w, sc.eng
        self.responses = ()           # responses the engine produced for the user plan's current message
        self.inflight_cancelled = False   # the handler of that message was cancelled while awaiting (pause / suspension)
        self.opened = ()              # uids of the runs opened during this call, in order

    def __call__(self, kind, *a):
        w, sc, tr = self.w, self.sc, self.tr
        info = {"requests": list(sc.requests), "replay": "lifecycle.replay"}
        cur = sc.plan.last_msg
        if kind == "call" and a[0] == "__call__":
            self.opened = ()
        elif kind == "plan-yield" and a[0] is sc.plan:
            self.responses, self.inflight_cancelled = (), False
            self.user_turn = True
        elif kind in ("plan-yield", "replay-yield"):
            self.user_turn = False       # a replayed / helper-plan message is being processed: its device results are not the user plan's
        elif kind == "handler-result" and a[0] is cur:
            self.responses += (a[1],)
        elif kind == "dev-complete" and getattr(a[0], "msg", None) is cur:
            self.responses += (a[1],)
        elif kind == "dev-result" and cur is not None and cur.obj is a[0] and self.user_turn:
            self.responses += (a[1],)        # what the device's method returned to the real handler (the status of a 'set')
        elif kind in ("handler-cancelled", "outcome-lost") and a[0] is cur:
            self.inflight_cancelled = True
        elif kind == "open_run":
            self.opened += (a[0].uid,)
            if len(a) > 1 and a[1] is cur:
                self.responses += (a[0].uid,)
        elif kind == "close_run" and len(a) > 1 and a[1] is cur:
            self.responses += (a[0].uid,)
        elif kind == "plan-send" and a[0] is sc.plan and cur is not None:
            v = a[1]
            name = f"{REQ}._run#ensures[the value sent into the plan at a yield is the engine's response to the message yielded there]"
            if cur.command in ("custom", "custom_async", "open_run", "close_run") or (cur.command == "set" and getattr(cur.obj, "name", "") == "fmot"):
                ok = any(v is r for r in self.responses)
                w.check_kf(name, ok, KF_C13, self.inflight_cancelled and cur.command == "custom_async" and v is None,
                           dict(info, message=cur.command, got=repr(v), produced=[repr(r) for r in self.responses]))
            else:
                w.check(name, v is None, dict(info, message=cur.command, got=repr(v)))
        elif kind == "returned" and a[0] in ("__call__", "resume") and self.eng.state == "idle":
            # (abort / stop / halt compute their return value when the request is made: a plan that opens a run during its
            # cleanup makes it incomplete; the statement speaks of RE(...) only)
            nm, r = a
            if r[0] == "ok":
                val = r[1]
                if self.sc.returns_result:
                    uids = self.I.getattr(val, "run_start_uids")
                    w.check(f"{REQ}.{nm}#ensures[the result carries the uids of the runs opened, in order]", self.same(uids), dict(info, call=nm))
                    if nm in ("__call__", "resume") and tr.plan_outcome == "returned":
                        w.check(f"{REQ}.{nm}#ensures[the result carries the plan's return value and exit status]",
                                self.I.getattr(val, "plan_result") is sc.plan.returned and self.I.getattr(val, "exit_status") == "success"
                                and self.I.getattr(val, "interrupted") is False, dict(info, call=nm))
                else:
                    w.check(f"{REQ}.{nm}#ensures[returns the uids of the runs it opened, in order]", self.same(val), dict(info, call=nm, value=repr(val)[:100]))

    def same(self, val):
        return isinstance(val, tuple) and len(val) == len(self.opened) and all(x is y for x, y in zip(val, self.opened))


def c13_checks(sc, tr):
    tr.checks.append(C13(sc, tr))
