"""Loop cuts for `for` loops over (possibly symbolic) integer ranges - DESIGN 2.4: *establish* the invariant on entry,
havoc the loop's write set, *assume* the invariant at an arbitrary position, execute the real body once, check that the
invariant is *preserved*; after the loop assume `invariant at the end position`.  Installed from a contracts file through
`Interp.loop_specs` (keyed by function and source line of the real `for` statement; the line is looked up in the real AST on
every run by the loop's *ordinal*, so moving code does not detach the contract).

    inv(env, pos) -> condition        env[name] = current value of a local; env.ghost = the ghost log (below)
                                      pos = value of the loop variable that is processed NEXT

Ghost state: `PointLog` abstracts two append-only lists that are filled in lock step (`xs.append(a); ys.append(b)`).  The real
lists are local to the carrier and only ever appended to (checked syntactically by `require_append_only`), so "every element
satisfies P" is proved per appended pair: pairs appended before a cut are checked when the cut is reached, an arbitrary
iteration's pairs are checked at its end, pairs appended after the last cut are checked by the postcondition."""
import ast

import z3

from pyvc.interp import BreakSig, ContinueSig
from pyvc.source import EngineError
from pyvc.vals import Sym, Opaque, SymRange, numeric_kind
from pyvc.world import PathEnd
from pyvc import ops


class StepRange:
    """range(start, stop, step) with symbolic bounds and a concrete step of +1 / -1"""

    def __init__(self, start, stop, step):
        self.start, self.stop, self.step = start, stop, step


def range_stub(I, a):
    """`range` with symbolic arguments (w.stubs['range']): 1/2 arguments as the engine's own SymRange, a concrete unit step as
    StepRange (only a loop cut can iterate it)"""
    if len(a) == 1:
        return SymRange(0, a[0])
    if len(a) == 2:
        return SymRange(a[0], a[1])
    if len(a) == 3 and isinstance(a[2], int) and not isinstance(a[2], bool) and a[2] in (1, -1):
        return StepRange(a[0], a[1], a[2])
    raise EngineError("range() with a symbolic or non-unit step")


def loops_of(node):
    """the `for`/`while` statements of a function in source order (nested functions excluded)"""
    out = []

    def rec(stmts):
        for st in stmts:
            if isinstance(st, (ast.FunctionDef, ast.AsyncFunctionDef, ast.ClassDef)):
                continue
            if isinstance(st, (ast.For, ast.While)):
                out.append(st)
            for fld in ("body", "orelse", "finalbody"):
                sub = getattr(st, fld, None)
                if isinstance(sub, list):
                    rec(sub)
            for h in getattr(st, "handlers", []) or []:
                rec(h.body)
    rec(node.body)
    return out


def assigned_names(stmts):
    """names (re)bound anywhere inside the statements: the syntactic write set of a loop body"""
    names = set()
    for st in stmts:
        for n in ast.walk(st):
            if isinstance(n, ast.Name) and isinstance(n.ctx, (ast.Store, ast.Del)):
                names.add(n.id)
            elif isinstance(n, (ast.FunctionDef, ast.AsyncFunctionDef, ast.ClassDef)):
                names.add(n.name)
            elif isinstance(n, (ast.Import, ast.ImportFrom)):
                for al in n.names:
                    names.add((al.asname or al.name).split(".")[0])
    return names


def require_append_only(node, names, sinks=("cycler",)):
    """syntactic side condition of the PointLog abstraction: inside the function every occurrence of one of `names` is
    (a) the target of its single initialising assignment to a fresh `[]`, (b) the receiver of `.append(<one argument>)` used as
    a statement, or (c) a direct argument of a call of one of `sinks`.  Anything else (aliasing, reads, other mutators) is an
    EngineError: the contract no longer matches the shape of the code."""
    parents = {}
    for p in ast.walk(node):
        for c in ast.iter_child_nodes(p):
            parents[c] = p
    inits = {n: 0 for n in names}
    for n in ast.walk(node):
        if not (isinstance(n, ast.Name) and n.id in names):
            continue
        p = parents.get(n)
        if isinstance(n.ctx, ast.Store):
            # NAME = [] | a, b = [], []
            asg = p if isinstance(p, ast.Assign) else parents.get(p) if isinstance(p, ast.Tuple) else None
            ok = False
            if isinstance(asg, ast.Assign) and len(asg.targets) == 1:
                if isinstance(p, ast.Assign):
                    ok = isinstance(asg.value, ast.List) and not asg.value.elts
                elif isinstance(asg.value, ast.Tuple) and len(asg.value.elts) == len(p.elts):
                    v = asg.value.elts[p.elts.index(n)]
                    ok = isinstance(v, ast.List) and not v.elts
            if ok:
                # the initialisation must not sit inside a loop (a re-initialisation would forget elements)
                q = asg
                while q in parents:
                    q = parents[q]
                    if isinstance(q, (ast.For, ast.While)):
                        ok = False
            if not ok:
                raise EngineError(f"list '{n.id}' is bound other than by one initial `= []` (line {n.lineno}): append-only abstraction not applicable")
            inits[n.id] += 1
            continue
        if isinstance(p, ast.Attribute) and p.attr == "append" and isinstance(parents.get(p), ast.Call) \
                and parents[p].func is p and len(parents[p].args) == 1 and not parents[p].keywords \
                and isinstance(parents.get(parents[p]), ast.Expr):
            continue
        if isinstance(p, ast.Call) and n in p.args and isinstance(p.func, ast.Name) and p.func.id in sinks:
            continue
        raise EngineError(f"list '{n.id}' is used other than by .append(v) / as an argument of {sinks} (line {n.lineno}): "
                          "append-only abstraction not applicable")
    for k, c in inits.items():
        if c != 1:
            raise EngineError(f"list '{k}' has {c} initialisations, expected exactly one")


PURE_CALLS = {"abs", "int", "float", "range", "max", "min", "len"}
PURE_NP = {"cos", "sin", "tan", "sqrt"}


def require_simple_body(stmts, lists, lineno):
    """syntactic side condition of the havoc set: the loop body only (re)binds local names, appends to the ghost lists and calls
    pure functions - so `assigned_names` + the ghost lists ARE the loop's write set.  Anything else is an EngineError."""
    def bad(n, why):
        raise EngineError(f"loop at line {lineno}: {why} at line {getattr(n, 'lineno', '?')} - outside the loop-cut fragment (shape changed)")

    def target_ok(t):
        if isinstance(t, ast.Name):
            return True
        if isinstance(t, (ast.Tuple, ast.List)):
            return all(target_ok(e) for e in t.elts)
        return False

    def expr(e):
        for n in ast.walk(e):
            if isinstance(n, ast.Call):
                f = n.func
                if isinstance(f, ast.Name) and f.id in PURE_CALLS:
                    continue
                if isinstance(f, ast.Attribute) and isinstance(f.value, ast.Name) and f.value.id == "np" and f.attr in PURE_NP:
                    continue
                bad(n, f"call of {ast.unparse(f)}")
            elif isinstance(n, (ast.Yield, ast.YieldFrom, ast.Await, ast.Lambda, ast.NamedExpr, ast.ListComp, ast.SetComp, ast.DictComp,
                                ast.GeneratorExp, ast.Starred)):
                bad(n, type(n).__name__)

    def rec(body):
        for st in body:
            if isinstance(st, ast.Assign):
                if not all(target_ok(t) for t in st.targets):
                    bad(st, "assignment to a non-name target")
                expr(st.value)
            elif isinstance(st, ast.AugAssign):
                if not isinstance(st.target, ast.Name):
                    bad(st, "augmented assignment to a non-name target")
                expr(st.value)
            elif isinstance(st, ast.If):
                expr(st.test)
                rec(st.body)
                rec(st.orelse)
            elif isinstance(st, ast.For):
                if not target_ok(st.target) or st.orelse:
                    bad(st, "for target / else")
                expr(st.iter)
                rec(st.body)
            elif isinstance(st, ast.Expr):
                c = st.value
                if isinstance(c, ast.Constant):
                    continue
                if (isinstance(c, ast.Call) and isinstance(c.func, ast.Attribute) and c.func.attr == "append" and isinstance(c.func.value, ast.Name)
                        and c.func.value.id in lists and len(c.args) == 1 and not c.keywords):
                    expr(c.args[0])
                    continue
                bad(st, f"expression statement {ast.unparse(st)[:40]}")
            elif isinstance(st, (ast.Pass, ast.Continue)):
                continue
            else:
                bad(st, type(st).__name__)
    rec(stmts)


class PointLog:
    """ghost view of two append-only lists filled in lock step.
    point_inv(x, y) -> condition that every pair must satisfy (the element invariant; from the property statement)
    accs: name -> f(x, y) -> int term; ghost accumulators  acc = sum of f over all pairs  (e.g. "how often was P emitted")"""

    def __init__(self, I, xname, yname, point_inv, accs=None):
        self.I, self.xname, self.yname = I, xname, yname
        self.point_inv = point_inv
        self.accs = dict(accs or {})
        self.xlog, self.ylog = [], []
        self.base_len = 0
        self.base_acc = {k: 0 for k in self.accs}
        self.nhavoc = 0
        self.cut_stack = []
        self.attached = False
        self.appended_total = 0      # host count of appends executed on this path (vacuity covers)
        self.xobj = Opaque(xname, {"methods": {"append": lambda I_, o, a, k: self._append(self.xlog, a, k)}, "ghost_log": self})
        self.yobj = Opaque(yname, {"methods": {"append": lambda I_, o, a, k: self._append(self.ylog, a, k)}, "ghost_log": self})

    def _append(self, log, a, k):
        if len(a) != 1 or k:
            raise EngineError("append() with other than one positional argument")
        v = a[0]
        if not numeric_kind(v) or isinstance(v, bool):
            raise EngineError(f"non-numeric value appended to a point list: {v!r}")
        log.append(v)
        self.appended_total += 1
        return None

    def attach(self, fr):
        """first cut: take over the concrete lists built so far"""
        if self.attached:
            if fr.vars.get(self.xname) is not self.xobj or fr.vars.get(self.yname) is not self.yobj:
                raise EngineError("point lists were rebound")
            return
        xs, ys = fr.vars.get(self.xname), fr.vars.get(self.yname)
        if not (isinstance(xs, list) and isinstance(ys, list)) or xs is ys:
            raise EngineError(f"{self.xname}/{self.yname} are not two distinct concrete lists at the first loop cut")
        for v in xs:
            self._append(self.xlog, [v], {})
        for v in ys:
            self._append(self.ylog, [v], {})
        fr.vars[self.xname], fr.vars[self.yname] = self.xobj, self.yobj
        self.attached = True

    def pairs(self):
        return list(zip(self.xlog, self.ylog))

    @property
    def in_step(self):
        return len(self.xlog) == len(self.ylog)

    def pending_ok(self):
        """the pairs appended since the last cut satisfy the element invariant and the two lists advanced in lock step"""
        if not self.in_step:
            return False
        return ops.and_(*[self.point_inv(x, y) for x, y in self.pairs()])

    @property
    def total(self):
        """len of the lists (meaningful when in_step)"""
        return ops.binop("+", self.base_len, len(self.xlog))

    def acc(self, name):
        t = self.base_acc[name]
        f = self.accs[name]
        for x, y in self.pairs():
            t = ops.binop("+", t, f(x, y))
        return t

    def havoc(self):
        w = self.I.w
        self.nhavoc += 1
        self.base_len = w.int("len_points", fresh=True)
        w.add(self.base_len >= 0)
        for k in self.accs:
            self.base_acc[k] = w.int("acc_" + k, fresh=True)
        del self.xlog[:]
        del self.ylog[:]


class Env:
    def __init__(self, fr, ghost):
        self.fr, self.ghost = fr, ghost

    def __getitem__(self, name):
        return self.fr.vars[name]


def poison(name):
    return Opaque(f"havocked:{name}", {})


class ForCut:
    """contract of one `for NAME in range(...)` statement"""

    def __init__(self, qual, ordinal, ghost, inv=None, scalars=None, label=None, prefix=None):
        self.qual, self.ordinal, self.ghost = qual, ordinal, ghost
        self.prefix = prefix or qual            # obligation-name prefix (a must-fail twin uses its own)
        self.inv = inv or (lambda env, pos: True)
        self.scalars = dict(scalars or {})      # havocked locals that the invariant talks about: name -> 'int' | 'real'
        self.label = label or f"loop{ordinal}"

    def name(self, what):
        return f"{self.prefix}#{self.label}.{what}"

    def run_while(self, I, st, fr):
        raise EngineError("ForCut attached to a while loop")
        yield

    def run_for(self, I, st, fr):
        w = I.w
        if not isinstance(st.target, ast.Name) or st.orelse:
            raise EngineError(f"loop at line {st.lineno}: only `for NAME in range(...)` without else is supported by ForCut")
        var = st.target.id
        it = yield from I.ev(st.iter, fr)
        if isinstance(it, range):
            if it.step not in (1, -1):
                raise EngineError("ForCut: non-unit step")
            start, stop, step = it.start, it.stop, it.step
        elif isinstance(it, SymRange) and it.stop is not None:
            start, stop, step = it.start, it.stop, 1
        elif isinstance(it, StepRange):
            start, stop, step = it.start, it.stop, it.step
        else:
            raise EngineError(f"loop at line {st.lineno} does not iterate an integer range: {it!r}")
        g = self.ghost
        require_simple_body(st.body, {g.xname, g.yname}, st.lineno)
        g.attach(fr)
        env = Env(fr, g)
        info = dict(getattr(self, "info", None) or {})
        info["at"] = f"{self.label}@L{st.lineno}"
        # ---- establish
        w.check(self.name("establish"), ops.and_(g.pending_ok(), self.inv(env, start)), info)
        mode = w.choose(["iteration", "exit"], self.label)
        # ---- havoc the write set
        written = assigned_names(st.body) | {var}
        g.havoc()
        for nm in sorted(written):
            kind = self.scalars.get(nm)
            if kind == "int":
                fr.vars[nm] = w.int(nm, fresh=True)
            elif kind == "real":
                fr.vars[nm] = w.real(nm, fresh=True)
            elif fr.lookup_frame(nm) is fr:
                fr.vars[nm] = poison(nm)
            else:
                raise EngineError(f"loop at line {st.lineno} writes the non-local name {nm}")
        for nm in self.scalars:
            if nm not in written:
                raise EngineError(f"invariant scalar {nm} is not written by the loop at line {st.lineno}")
        if mode == "iteration":
            pos = w.int(var, fresh=True)
            if step == 1:
                w.assume(ops.and_(ops.compare("<=", start, pos), ops.compare("<", pos, stop)))
            else:
                w.assume(ops.and_(ops.compare(">=", start, pos), ops.compare(">", pos, stop)))
            w.assume(self.inv(env, pos))
            fr.vars[var] = pos
            g.cut_stack.append((self.ordinal, pos))       # positions of the enclosing arbitrary iterations (for witnesses)
            w.cover(f"{self.label}: an iteration starts")
            try:
                yield from I.ex_block(st.body, fr)
            except ContinueSig:
                pass
            except BreakSig:
                raise EngineError("ForCut: break inside a cut loop is not supported")
            if g.xlog or g.ylog:
                w.cover(f"{self.label}: an iteration appends a point")
            w.check(self.name("preserve"), ops.and_(g.pending_ok(), self.inv(env, ops.binop("+", pos, step))), info)
            raise PathEnd("loop cut")
        # ---- exit: the position is the first value outside the range
        if step == 1:
            end = ops.ite(ops.compare(">", stop, start), stop, start)
        else:
            end = ops.ite(ops.compare("<", stop, start), stop, start)
        w.assume(self.inv(env, end))
        w.cover(f"{self.label}: loop exits")


def install(I, qual, cuts, nloops):
    """attach the cuts (list of ForCut, by ordinal) to the real loops of `qual`; the function must have exactly `nloops` loops"""
    m, chain, node = I.P.find_function(qual)
    loops = loops_of(node)
    if len(loops) != nloops:
        raise EngineError(f"{qual} has {len(loops)} loops, the contract was written for {nloops} (shape changed)")
    for c in cuts:
        st = loops[c.ordinal]
        if not isinstance(st, ast.For):
            raise EngineError(f"{qual} loop {c.ordinal} is not a for loop")
        I.loop_specs[(qual, st.lineno)] = c
    return node
