"""C41 - monitors report only while their run is open and running.

Carriers: bluesky/bundlers.py: RunBundler.monitor, unmonitor, suspend_monitors, restore_monitors, clear_monitors,
close_run; bluesky/run_engine.py: RunEngine._start_suspender, _resume (and, structurally, the pause branch of _run).
Ledger per monitored object: subs(obj) = number of live subscriptions of the engine's callback on the device
(subscribe adds one, clear_sub removes it).  Clauses from the statement:
  monitor: already monitored -> IllegalMessageSequence; else descriptor emitted, subs = 1
  unmonitor / close_run / clear_monitors: subs = 0 and the object forgotten ("no remaining subscription")
  entering a pause or a suspension: subs = 0 for every monitored object of every open run (updates are not reported)
  resume / release: subs = 1 again - exactly one subscription, however often suspend / restore were requested
Histories (tasks bundler.history[*]): from every abstract pre-state of a run (live / suspended / restored / partly unmonitored ...) every pair
of operations; after each one the ledger equals the ghost model (live iff open, monitored, not suspended), an update of a signal yields
exactly one event iff its subscription is live, and an update arriving while the stop document is dispatched yields no event after it
(the subscriptions are removed *before* the stop document goes out).
Engine level (T2 tasks engine.pause / engine.suspend / engine.pause+suspend): the real RunEngine under the asyncio model with an arbitrary
plan over open_run / monitor / unmonitor / close_run / checkpoint (two runs open at once in some scenarios), pauses and suspensions requested
at every loop step, back to back, and while the engine sits paused, every post-pause decision; ghost monitor contracts/run_mon4.py:
  while the engine is paused no run holds a live subscription; while the plan is suspended (pre-plan, wait) neither;
  once the engine runs again every monitor of an open run is subscribed when the next message is executed; at idle nothing is left.
"""
import ast
import os

from .lib import *
from .re_lib import *
from .C16 import cfg_device, setup as bundler_setup

PROP = "C41"
Q = f"{MB}:RunBundler"
IMS = "bluesky.utils:IllegalMessageSequence"
TRUSTED = EM_ASSUMPTIONS + ["devices: subscribe(cb) adds one subscription of cb, clear_sub(cb) removes every subscription of cb (ophyd semantics); "
                            "callbacks already in flight on a device thread are not modelled"]
NOT_DECIDED = "callbacks in flight on a device thread while the subscription is being removed"


def monitored(I, w, b, name):
    state = {"subs": 0, "calls": [], "cbs": []}

    def subscribe(I_, o, a, k):
        state["cbs"].append(a[0])
        state["subs"] = len(state["cbs"])
        state["calls"].append("subscribe")
        state["cb"] = a[0]

    def clear_sub(I_, o, a, k):
        state["cbs"] = [c for c in state["cbs"] if c is not a[0]]
        state["subs"] = len(state["cbs"])
        state["calls"].append("clear_sub")
    conf = {"gain": 1, "ts": 0}
    d = cfg_device(I, w, b, name, [name], conf)
    d.spec["methods"]["subscribe"] = subscribe
    d.spec["methods"]["clear_sub"] = clear_sub
    return d, state


@task("bundler.monitors", PROP, functions=[f"{Q}.monitor", f"{Q}.unmonitor", f"{Q}.suspend_monitors", f"{Q}.restore_monitors",
                                           f"{Q}.clear_monitors", f"{Q}.close_run"],
      expect=[f"{Q}.monitor#ensures[subscribed once; a second monitor of the same object is rejected]",
              f"{Q}.unmonitor#ensures[subscription removed and object forgotten; unknown object rejected]",
              f"{Q}.suspend_monitors#ensures[no subscription left while suspended; restore gives exactly one, however often both are called]",
              f"{Q}.close_run#ensures[no subscription of the run's monitors remains]"])
def bundler_monitors(I):
    w = I.w
    env, b = bundler_setup(I)
    d, st = monitored(I, w, b, "sig")
    d2, st2 = monitored(I, w, b, "sig2")
    rp = {"replay": "monitors.suspension"}
    r = call_async(I, I.getattr(b, "monitor"), MsgVal("monitor", d, (), {"name": "mon"}, None))
    r2 = call_async(I, I.getattr(b, "monitor"), MsgVal("monitor", d, (), {"name": "mon_again"}, None))
    w.check(f"{Q}.monitor#ensures[subscribed once; a second monitor of the same object is rejected]",
            r[0] == "ok" and st["subs"] == 1 and r2[0] == "raise" and exc_is(I, r2[1], IMS) and st["subs"] == 1
            and [n for n, x in env.emitted if n == "descriptor"] == ["descriptor"], rp)
    call_async(I, I.getattr(b, "monitor"), MsgVal("monitor", d2, (), {"name": "mon2"}, None))
    case = w.choose(["unmonitor", "suspend/restore", "close_run", "clear_monitors"], "case")
    if case == "unmonitor":
        r = call_async(I, I.getattr(b, "unmonitor"), MsgVal("unmonitor", d, (), {}, None))
        r3 = call_async(I, I.getattr(b, "unmonitor"), MsgVal("unmonitor", d, (), {}, None))
        w.check(f"{Q}.unmonitor#ensures[subscription removed and object forgotten; unknown object rejected]",
                r[0] == "ok" and st["subs"] == 0 and d not in b._monitor_params and st2["subs"] == 1 and d2 in b._monitor_params
                and r3[0] == "raise" and exc_is(I, r3[1], IMS), rp)
    elif case == "suspend/restore":
        script = w.choose([["suspend", "restore"], ["suspend", "suspend", "restore"], ["suspend", "suspend", "restore", "restore"],
                           ["restore"], ["suspend", "restore", "restore"]], "suspend/restore requests")
        ok = True
        depth = 0
        for step in script:
            call_async(I, I.getattr(b, "suspend_monitors" if step == "suspend" else "restore_monitors"))
            if step == "suspend":
                depth = 1
                ok = ok and st["subs"] == 0 and st2["subs"] == 0
            else:
                depth = 0
                ok = ok and st["subs"] == 1 and st2["subs"] == 1
        w.check(f"{Q}.suspend_monitors#ensures[no subscription left while suspended; restore gives exactly one, however often both are called]",
                ok and d in b._monitor_params and d2 in b._monitor_params, dict(rp, script=script))
    elif case == "close_run":
        suspended = w.choose([False, True], "monitors suspended when the run is closed")
        if suspended:
            call_async(I, I.getattr(b, "suspend_monitors"))
        r = call_async(I, I.getattr(b, "close_run"), MsgVal("close_run", None, (), {}, None))
        call_async(I, I.getattr(b, "restore_monitors"))          # a late restore must not resurrect them
        w.check(f"{Q}.close_run#ensures[no subscription of the run's monitors remains]",
                r[0] == "ok" and st["subs"] == 0 and st2["subs"] == 0 and len(b._monitor_params) == 0, rp)
    else:
        call_method(I, b, "clear_monitors")
        w.check(f"{Q}.clear_monitors#ensures[every monitor subscription removed]", st["subs"] == 0 and st2["subs"] == 0 and len(b._monitor_params) == 0, rp)


# ---------------------------------------------------------------------------------------------------------------- histories (T1)
# The statement quantifies over histories of signal updates interleaved with suspensions (pause), restorations (resume), unmonitor and the
# end of the run.  Ghost model of one run: open, suspended, monitored(dev); a device's subscription is *live* iff open and monitored(dev) and not
# suspended.  From each abstract pre-state (established by a canonical prefix) every pair of operations is executed on the real RunBundler;
# after every operation: the ledger equals the ghost model, an update of each signal yields exactly one event iff its subscription is live,
# and - an update arriving while a stop document is being dispatched - no event follows the stop document of the run.
H_LEDGER = f"{Q}#invariant[a monitored signal carries exactly one engine subscription iff its run is open and monitors are not suspended, else none; forgotten iff not monitored]"
H_EVENTS = f"{Q}.monitor.emit_event#ensures[an update yields exactly one event in the monitor's stream iff the subscription is live, none otherwise]"
H_STOP = f"{Q}.close_run#ensures[subscriptions are removed before the stop document goes out: an update arriving while it is dispatched yields no event after it]"
H_REJECT = f"{Q}#raises[monitor of a monitored signal, unmonitor of an unmonitored one, close_run without an open run are rejected with IllegalMessageSequence, nothing else is]"
PREFIXES = {"live": [], "suspended": ["suspend"], "restored": ["suspend", "restore"], "one-unmonitored": ["unmonitor"],
            "unmonitored-while-suspended": ["suspend", "unmonitor"], "suspended-twice": ["suspend", "suspend"],
            "unmonitored-while-suspended-then-restored": ["suspend", "unmonitor", "restore"]}
H_OPS = ["suspend", "restore", "unmonitor", "monitor", "close_run", "clear_monitors"]


def history_task(label, prefix):
    @task(f"bundler.history[{label}]", PROP, functions=[f"{Q}.monitor", f"{Q}.monitor.emit_event", f"{Q}.unmonitor", f"{Q}.suspend_monitors", f"{Q}.restore_monitors",
                                                        f"{Q}.clear_monitors", f"{Q}.close_run"],
          expect=[H_LEDGER, H_EVENTS, H_STOP, H_REJECT])
    def t(I):
        w = I.w
        env, b = bundler_setup(I)
        d, st = monitored(I, w, b, "sig")
        d2, st2 = monitored(I, w, b, "sig2")
        devs = {"sig": (d, st), "sig2": (d2, st2)}

        def update(name):
            """the signal changes: the device calls every callback subscribed at that moment; -> number of events emitted"""
            n0 = len([1 for n, x in env.emitted if n == "event"])
            for cb in list(devs[name][1]["cbs"]):
                I.call_value(cb)
            return len([1 for n, x in env.emitted if n == "event"]) - n0

        def emit(I_, a, k):
            env.emitted.append((docname(a[0]), a[1]))
            if docname(a[0]) == "stop":
                for name in devs:                  # signal updates arriving while the stop document is being dispatched
                    update(name)
            return Ready(None)
        emit._canon_label = "emit"
        I.setattr(b, "emit", native(emit))
        g = {"open": True, "suspended": False, "mon": {"sig": False, "sig2": False}}
        done = []

        def live(name):
            return g["open"] and g["mon"][name] and not g["suspended"]

        def apply(op):
            """one operation on the real bundler and on the ghost model; checks the clauses afterwards"""
            done.append(op)
            info = {"replay": "monitors.history", "ops": list(done)}
            if op == "suspend":
                r, want = call_async(I, I.getattr(b, "suspend_monitors")), "ok"
                g["suspended"] = True
            elif op == "restore":
                r, want = call_async(I, I.getattr(b, "restore_monitors")), "ok"
                g["suspended"] = False
            elif op == "unmonitor":
                r = call_async(I, I.getattr(b, "unmonitor"), MsgVal("unmonitor", d, (), {}, None))
                want = "ok" if g["mon"]["sig"] else "raise"
                g["mon"]["sig"] = False
            elif op in ("monitor", "monitor2"):
                name = "sig" if op == "monitor" else "sig2"
                r = call_async(I, I.getattr(b, "monitor"), MsgVal("monitor", devs[name][0], (), {"name": "mon_" + name}, None))
                want = "raise" if g["mon"][name] else "ok"
                g["mon"][name] = True
            elif op == "close_run":
                r = call_async(I, I.getattr(b, "close_run"), MsgVal("close_run", None, (), {}, None))
                want = "ok" if g["open"] else "raise"
                g["open"] = False
                g["mon"] = {"sig": False, "sig2": False}
            else:
                r, want = catch(I, I.getattr(b, "clear_monitors")), "ok"
                g["mon"] = {"sig": False, "sig2": False}
            w.check(H_REJECT, r[0] == want and (r[0] == "ok" or exc_is(I, r[1], IMS)), dict(info, outcome=r[0], wanted=want))
            w.check(H_LEDGER, all(devs[n][1]["subs"] == (1 if live(n) else 0) and (devs[n][0] in b._monitor_params) == g["mon"][n] for n in devs),
                    dict(info, ledger={n: devs[n][1]["subs"] for n in devs}, model={n: live(n) for n in devs}))
            counts = {n: update(n) for n in devs}
            w.check(H_EVENTS, all(counts[n] == (1 if live(n) else 0) for n in devs), dict(info, events=counts, model={n: live(n) for n in devs}))
            names = [n for n, x in env.emitted]
            w.check(H_STOP, "stop" not in names or "event" not in names[names.index("stop"):], dict(info, documents=names))

        for op in ["monitor", "monitor2"] + prefix:
            apply(op)
        for k in (1, 2):
            # (messages reach a bundler only while its run is open - the RunEngine drops a closed bundler; a 'monitor' / 'unmonitor' while the
            # monitors are suspended comes from a suspender's pre-plan)
            ops = [o for o in H_OPS if g["open"] or o in ("suspend", "restore", "clear_monitors")]
            apply(w.choose(ops, f"operation {k}"))
    return t


for _label, _prefix in PREFIXES.items():
    history_task(_label, _prefix)


@task("engine.suspension", PROP, functions=[f"{RE}._start_suspender", f"{RE}._resume", f"{RE}._rewind", f"{RE}._stop_movable_objects"],
      expect=[f"{RE}._start_suspender#ensures[every monitor of every open run is unsubscribed while the suspension lasts]",
              f"{RE}._resume#ensures[exactly one subscription per monitor after release]"])
def engine_suspension(I):
    import collections
    w = I.w
    env, b = bundler_setup(I)
    d, st = monitored(I, w, b, "sig")
    call_async(I, I.getattr(b, "monitor"), MsgVal("monitor", d, (), {"name": "mon"}, None))
    env2 = env
    b2, _ = opened_bundler(I, env)
    d2, st2 = monitored(I, w, b2, "sig2")
    call_async(I, I.getattr(b2, "monitor"), MsgVal("monitor", d2, (), {"name": "mon2"}, None))
    re_ = make_re(I, env, _run_bundlers={None: b, "k": b2}, _plan_stack=collections.deque([Opaque("plan", {"token": "plan"})]),
                  _response_stack=collections.deque([None]), _msg_cache=collections.deque(), _rewindable_flag=True)
    fut = Opaque("fut", {"token": "fut"})
    n = w.choose([1, 2], "overlapping suspensions")
    rp = {"replay": "monitors.engine_suspension"}
    ok = True
    for _ in range(n):
        r = call_async(I, I.getattr(re_, "_start_suspender"), MsgVal("_start_suspender", None, (None, None, "why", fut), {}, None))
        ok = ok and r[0] == "ok"
    w.check(f"{RE}._start_suspender#ensures[every monitor of every open run is unsubscribed while the suspension lasts]",
            ok and st["subs"] == 0 and st2["subs"] == 0 and d in b._monitor_params, rp)
    for _ in range(n):
        r = call_async(I, I.getattr(re_, "_resume"), MsgVal("_resume_from_suspender", None, (), {}, None))
        ok = ok and r[0] == "ok"
    w.check(f"{RE}._resume#ensures[exactly one subscription per monitor after release]", ok and st["subs"] == 1 and st2["subs"] == 1, rp)


@task("engine.pause_branch", PROP, functions=[f"{RE}._run"],
      expect=[f"{RE}._run#ensures[pause branch: monitors suspended before the state becomes 'paused', restored after the permit]"])
def pause_branch(I):
    """structural obligation on the pause branch of _run: suspend_monitors of every bundler precedes `self._state = "paused"`,
    restore_monitors follows the wait on the run permit"""
    w = I.w
    m, chain, node = I.P.find_function(f"{RE}._run")
    src = ast.unparse(node)
    i_s = src.find("suspend_monitors()")
    i_p = src.find("self._state = 'paused'")
    i_w = src.find("self._run_permit.wait()", i_p)
    i_r = src.find("restore_monitors()", i_w)
    w.check(f"{RE}._run#ensures[pause branch: monitors suspended before the state becomes 'paused', restored after the permit]",
            0 <= i_s < i_p < i_w < i_r)


# ------------------------------------------------------------------------------------------------------------------------------ T2
# The real RunEngine (__call__, _run, resume, request_pause, request_suspend + _request_suspend, _start_suspender, _resume, _monitor,
# _unmonitor, _open_run, _close_run, abort / stop / halt ...) under the asyncio model, with an arbitrary plan over open_run / monitor /
# unmonitor / close_run / checkpoint / custom, pauses and suspensions requested at every step of the loop - also back to back, and
# while the engine sits paused - and every post-pause decision; RunBundler is replaced by the contract the T1 tasks above establish.
R_END = (f"{Q}.restore_monitors#ensures[ends the suspension whether or not anything is monitored: afterwards every monitor of the run - also one "
         "started later - holds exactly one subscription (monitoring resumes after resume)]")


@task("bundler.restore_ends_suspension", PROP, functions=[f"{Q}.restore_monitors", f"{Q}.suspend_monitors", f"{Q}.monitor"], expect=[R_END])
def restore_ends_suspension(I):
    """'monitoring resumes after resume': a pause / suspension that found nothing to silence must end like any other - a monitor started
    afterwards reports (is subscribed), exactly once"""
    w = I.w
    env, b = bundler_setup(I)
    d, st = monitored(I, w, b, "sig")
    d2, st2 = monitored(I, w, b, "sig2")
    hist = []
    had = w.choose([False, True], "a monitor before the pause")
    if had:
        call_async(I, I.getattr(b, "monitor"), MsgVal("monitor", d, (), {"name": "mon"}, None))
        hist.append("monitor sig")
    for _ in range(w.choose([1, 2], "pause / resume cycles")):
        call_async(I, I.getattr(b, "suspend_monitors"))
        call_async(I, I.getattr(b, "restore_monitors"))
        hist += ["suspend", "restore"]
    r = call_async(I, I.getattr(b, "monitor"), MsgVal("monitor", d2, (), {"name": "mon2"}, None))
    hist.append("monitor sig2")
    w.check(R_END, r[0] == "ok" and st2["subs"] == 1 and st["subs"] == (1 if had else 0) and not b.attrs.get("_monitors_suspended", False),
            {"replay": "monitors.histories", "history": hist, "clause": "c41"})


from .t2 import t2_tasks, T2_FUNCTIONS, TRUSTED_T2            # noqa: E402
from .run_mon4 import c41_checks, C41 as C41Mon, M_PAUSED, M_SUSP, M_BACK, M_IDLE    # noqa: E402

TRUSTED = TRUSTED + TRUSTED_T2 + [
    "A-ENV: at most `max_inflight` requests of other threads are in flight at a time (two in the back-to-back scenario); no new pause / suspension is "
    "requested while `max_depth` plans are stacked; while the engine sits paused another thread makes at most one request per pause (suspend), which "
    "the loop thread handles before the user decides",
    "T2 uses the contract of RunBundler (T1 tasks above): a run holds a live subscription iff it is open, monitors something and its monitors are not suspended",
]
NOT_DECIDED += ("; a suspension interrupted by a pause (the wait is abandoned: C11) - the suspended clause is stated for suspensions that are not "
                "superseded by a pause or by abort / stop / halt; monitors started by a suspender's pre-plan")
T2_MON = [f"{RE}._monitor", f"{RE}._unmonitor"]
THOROUGH = os.environ.get("VERIF_TIER") == "thorough"

PAUSE_SCN = [
    ("open_run,monitor,unmonitor,checkpoint", "pause", {"max_requests": 1}),
    ("open_run,monitor,close_run,custom,checkpoint", "pause", {"max_requests": 1}),
    # two runs open at the same time, each with its own monitor
    ("open_run,open_run_b,monitor,monitor_b,checkpoint", "pause", {"max_requests": 1, "post_pause": ("resume",)}),
]
SUSPEND_SCN = [
    ("open_run,monitor,custom,checkpoint", "suspend", {"max_requests": 2, "suspend_plans": True}),
    # two requests back to back: the second is queued before the first has been handled
    ("open_run,monitor,checkpoint", "suspend", {"max_requests": 2, "max_inflight": 2, "max_depth": 3}),
    ("open_run,open_run_b,monitor,monitor_b,checkpoint", "suspend", {"max_requests": 1}),
]
MIXED_SCN = [
    # a suspender trips while the engine is paused; the user resumes (or aborts ...) afterwards
    ("open_run,monitor,checkpoint", "pause", {"max_requests": 2, "paused_env": "suspend"}),
    ("open_run,monitor,checkpoint", "pause,suspend", {"max_requests": 2, "max_inflight": 2, "post_pause": ("resume",)}),
]
if THOROUGH:
    PAUSE_SCN += [("open_run,monitor,unmonitor,close_run,custom,checkpoint", "pause,abort", {"max_requests": 2})]
    SUSPEND_SCN += [("open_run,monitor,unmonitor,close_run,custom,checkpoint", "suspend", {"max_requests": 2, "suspend_plans": True})]
    MIXED_SCN += [("open_run,monitor,unmonitor,custom,checkpoint", "pause,suspend", {"max_requests": 3, "paused_env": "suspend", "suspend_plans": True})]

t2_tasks(PROP, "engine.pause", PAUSE_SCN, [c41_checks], expect=[M_PAUSED, M_BACK, M_IDLE], functions=T2_MON)
t2_tasks(PROP, "engine.suspend", SUSPEND_SCN, [c41_checks], expect=[M_SUSP, M_BACK, M_IDLE], functions=T2_MON)
t2_tasks(PROP, "engine.pause+suspend", MIXED_SCN, [c41_checks], expect=[M_PAUSED, M_SUSP, M_BACK, M_IDLE], functions=T2_MON)


def _twin(sc, tr):
    m = C41Mon(sc, tr)

    def check(kind, *a):
        m(kind, *a)
        if kind == "cut" and sc.eng.state == "paused" and any(b.open and b.monitoring for b in sc.eng.bundlers):
            sc.w.check("twin:a paused engine keeps its monitors subscribed", bool(m.live()))
    tr.checks.append(check)


t2_tasks(PROP, "twin", [("open_run,monitor,checkpoint", "pause", {"max_requests": 1, "post_pause": ("abort",)})], [_twin],
         twin="twin:a paused engine keeps its monitors subscribed")
