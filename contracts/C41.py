"""C41 - monitors report only while their run is open and running.

Carriers: bluesky/bundlers.py: RunBundler.monitor, unmonitor, suspend_monitors, restore_monitors, clear_monitors,
close_run; bluesky/run_engine.py: RunEngine._start_suspender, _resume (and, structurally, the pause branch of _run).
Ledger per monitored object: subs(obj) = number of live subscriptions of the engine's callback on the device
(subscribe adds one, clear_sub removes it).  Clauses from the statement:
  monitor: already monitored -> IllegalMessageSequence; else descriptor emitted, subs = 1
  unmonitor / close_run / clear_monitors: subs = 0 and the object forgotten ("no remaining subscription")
  entering a pause or a suspension: subs = 0 for every monitored object of every open run (updates are not reported)
  resume / release: subs = 1 again - exactly one subscription, however often suspend / restore were requested
"""
import ast

from .lib import *
from .re_lib import *
from .C16 import cfg_device, setup as bundler_setup

PROP = "C41"
Q = f"{MB}:RunBundler"
IMS = "bluesky.utils:IllegalMessageSequence"
TRUSTED = EM_ASSUMPTIONS + ["devices: subscribe(cb) adds one subscription of cb, clear_sub(cb) removes every subscription of cb (ophyd semantics); "
                            "callbacks already in flight on a device thread are not modelled"]
NOT_DECIDED = "callbacks in flight on a device thread while the subscription is being removed; the order of pause-branch steps inside _run (T2)"


def monitored(I, w, b, name):
    state = {"subs": 0, "calls": []}

    def subscribe(I_, o, a, k):
        state["subs"] += 1
        state["calls"].append("subscribe")
        state["cb"] = a[0]

    def clear_sub(I_, o, a, k):
        state["subs"] = 0
        state["calls"].append("clear_sub")
    conf = {"gain": 1, "ts": 0}
    d = cfg_device(I, w, b, name, [name], conf)
    d.spec["methods"]["subscribe"] = subscribe
    d.spec["methods"]["clear_sub"] = clear_sub
    return d, state


@task("bundler.monitors", PROP, functions=[f"{Q}.monitor", f"{Q}.unmonitor", f"{Q}.suspend_monitors", f"{Q}.restore_monitors",
                                           f"{Q}.clear_monitors", f"{Q}.close_run"],
      expect=[f"{Q}.monitor#ensures[subscribed once; a second monitor of the same object is rejected]",
              f"{Q}.unmonitor#ensures[subscription removed and object forgotten; unknown object rejected]",
              f"{Q}.suspend_monitors#ensures[no subscription left while suspended; restore gives exactly one, however often both are called]",
              f"{Q}.close_run#ensures[no subscription of the run's monitors remains]"])
def bundler_monitors(I):
    w = I.w
    env, b = bundler_setup(I)
    d, st = monitored(I, w, b, "sig")
    d2, st2 = monitored(I, w, b, "sig2")
    rp = {"replay": "monitors.suspension"}
    r = call_async(I, I.getattr(b, "monitor"), MsgVal("monitor", d, (), {"name": "mon"}, None))
    r2 = call_async(I, I.getattr(b, "monitor"), MsgVal("monitor", d, (), {"name": "mon_again"}, None))
    w.check(f"{Q}.monitor#ensures[subscribed once; a second monitor of the same object is rejected]",
            r[0] == "ok" and st["subs"] == 1 and r2[0] == "raise" and exc_is(I, r2[1], IMS) and st["subs"] == 1
            and [n for n, x in env.emitted if n == "descriptor"] == ["descriptor"], rp)
    call_async(I, I.getattr(b, "monitor"), MsgVal("monitor", d2, (), {"name": "mon2"}, None))
    case = w.choose(["unmonitor", "suspend/restore", "close_run", "clear_monitors"], "case")
    if case == "unmonitor":
        r = call_async(I, I.getattr(b, "unmonitor"), MsgVal("unmonitor", d, (), {}, None))
        r3 = call_async(I, I.getattr(b, "unmonitor"), MsgVal("unmonitor", d, (), {}, None))
        w.check(f"{Q}.unmonitor#ensures[subscription removed and object forgotten; unknown object rejected]",
                r[0] == "ok" and st["subs"] == 0 and d not in b._monitor_params and st2["subs"] == 1 and d2 in b._monitor_params
                and r3[0] == "raise" and exc_is(I, r3[1], IMS), rp)
    elif case == "suspend/restore":
        script = w.choose([["suspend", "restore"], ["suspend", "suspend", "restore"], ["suspend", "suspend", "restore", "restore"],
                           ["restore"], ["suspend", "restore", "restore"]], "suspend/restore requests")
        ok = True
        depth = 0
        for step in script:
            call_async(I, I.getattr(b, "suspend_monitors" if step == "suspend" else "restore_monitors"))
            if step == "suspend":
                depth = 1
                ok = ok and st["subs"] == 0 and st2["subs"] == 0
            else:
                depth = 0
                ok = ok and st["subs"] == 1 and st2["subs"] == 1
        w.check(f"{Q}.suspend_monitors#ensures[no subscription left while suspended; restore gives exactly one, however often both are called]",
                ok and d in b._monitor_params and d2 in b._monitor_params, dict(rp, script=script))
    elif case == "close_run":
        suspended = w.choose([False, True], "monitors suspended when the run is closed")
        if suspended:
            call_async(I, I.getattr(b, "suspend_monitors"))
        r = call_async(I, I.getattr(b, "close_run"), MsgVal("close_run", None, (), {}, None))
        call_async(I, I.getattr(b, "restore_monitors"))          # a late restore must not resurrect them
        w.check(f"{Q}.close_run#ensures[no subscription of the run's monitors remains]",
                r[0] == "ok" and st["subs"] == 0 and st2["subs"] == 0 and len(b._monitor_params) == 0, rp)
    else:
        call_method(I, b, "clear_monitors")
        w.check(f"{Q}.clear_monitors#ensures[every monitor subscription removed]", st["subs"] == 0 and st2["subs"] == 0 and len(b._monitor_params) == 0, rp)


@task("engine.suspension", PROP, functions=[f"{RE}._start_suspender", f"{RE}._resume", f"{RE}._rewind", f"{RE}._stop_movable_objects"],
      expect=[f"{RE}._start_suspender#ensures[every monitor of every open run is unsubscribed while the suspension lasts]",
              f"{RE}._resume#ensures[exactly one subscription per monitor after release]"])
def engine_suspension(I):
    import collections
    w = I.w
    env, b = bundler_setup(I)
    d, st = monitored(I, w, b, "sig")
    call_async(I, I.getattr(b, "monitor"), MsgVal("monitor", d, (), {"name": "mon"}, None))
    env2 = env
    b2, _ = opened_bundler(I, env)
    d2, st2 = monitored(I, w, b2, "sig2")
    call_async(I, I.getattr(b2, "monitor"), MsgVal("monitor", d2, (), {"name": "mon2"}, None))
    re_ = make_re(I, env, _run_bundlers={None: b, "k": b2}, _plan_stack=collections.deque([Opaque("plan", {"token": "plan"})]),
                  _response_stack=collections.deque([None]), _msg_cache=collections.deque(), _rewindable_flag=True)
    fut = Opaque("fut", {"token": "fut"})
    n = w.choose([1, 2], "overlapping suspensions")
    rp = {"replay": "monitors.suspension"}
    ok = True
    for _ in range(n):
        r = call_async(I, I.getattr(re_, "_start_suspender"), MsgVal("_start_suspender", None, (None, None, "why", fut), {}, None))
        ok = ok and r[0] == "ok"
    w.check(f"{RE}._start_suspender#ensures[every monitor of every open run is unsubscribed while the suspension lasts]",
            ok and st["subs"] == 0 and st2["subs"] == 0 and d in b._monitor_params, rp)
    for _ in range(n):
        r = call_async(I, I.getattr(re_, "_resume"), MsgVal("_resume_from_suspender", None, (), {}, None))
        ok = ok and r[0] == "ok"
    w.check(f"{RE}._resume#ensures[exactly one subscription per monitor after release]", ok and st["subs"] == 1 and st2["subs"] == 1, rp)


@task("engine.pause_branch", PROP, functions=[f"{RE}._run"],
      expect=[f"{RE}._run#ensures[pause branch: monitors suspended before the state becomes 'paused', restored after the permit]"])
def pause_branch(I):
    """structural obligation on the pause branch of _run: suspend_monitors of every bundler precedes `self._state = "paused"`,
    restore_monitors follows the wait on the run permit"""
    w = I.w
    m, chain, node = I.P.find_function(f"{RE}._run")
    src = ast.unparse(node)
    i_s = src.find("suspend_monitors()")
    i_p = src.find("self._state = 'paused'")
    i_w = src.find("self._run_permit.wait()", i_p)
    i_r = src.find("restore_monitors()", i_w)
    w.check(f"{RE}._run#ensures[pause branch: monitors suspended before the state becomes 'paused', restored after the permit]",
            0 <= i_s < i_p < i_w < i_r)
