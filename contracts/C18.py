"""C18 - subscriptions live exactly as long as they were asked to.

Carriers: bluesky/run_engine.py: Dispatcher.subscribe / unsubscribe / unsubscribe_all / process, RunEngine._subscribe /
_unsubscribe / _clear_call_cache (token bookkeeping); bluesky/utils: CallbackRegistry.connect / disconnect / process /
_remove_proxy, _BoundMethodProxy.__init__ / __eq__ / __hash__ / __call__.
Abstract view (contracts/refs/c18_view.py, shared with the native replay): subs: token -> (callable, filter, lifetime);
issued: every token ever handed out; live(name) = multiset of the callables of the live tokens whose filter covers `name`;
a callable receives a document exactly once iff live(name) holds it.  Clauses from the statement: subscribe returns a token
never handed out before (live or dead) and adds exactly that subscription; unsubscribe(t) removes t's subscription and
leaves the deliveries of every other token unchanged - also when the same callable is subscribed more than once, with equal
or with different, overlapping filters; a dead / unknown token changes nothing; per-call / in-plan tokens are dropped when
the next call starts (_clear_call_cache), permanent ones are kept.

The quantifier ("arbitrary sequences of subscribe / unsubscribe ... with repeated callables") is explored as a *choice
sequence*: every history of at most HISTORY_DEPTH / ENGINE_DEPTH operations over the menus below is executed on the real
code and judged after every operation by (a) the freshness of the token, (b) the deliveries of all twelve document names
against the view, (c) the representation invariant REP linking the concrete fields to the view (so that a corruption is
reported at the operation that introduces it, not only when it becomes observable some operations later):
  REP1 dom(_token_mapping) = dom(subs)
  REP2 _token_mapping[t] = the registration ids under which the registry holds t's callable, one per covered name
  REP3 registry.callbacks[name] holds exactly one registration per callable of live(name) and nothing else
  REP4 registry._func_cid_map[name] is the inverse of callbacks[name] (no stale entry that a later connect would re-use)
  REP5 (engine) every live per-call / in-plan token is in _temp_callback_ids and no permanent token is
An operation that must change nothing (dead / unknown token) is checked to leave the whole object graph unchanged; the
history is not continued behind it (the state is literally the one before).
"""
import os

from .lib import *
from .re_lib import *

PROP = "C18"
MU = "bluesky.utils"
D = f"{MR}:Dispatcher"
HERE = os.path.dirname(os.path.dirname(os.path.abspath(__file__)))
V = {}
exec(compile(open(os.path.join(HERE, "contracts/refs/c18_view.py")).read(), "c18_view", "exec"), V)
View = V["View"]
THOROUGH = os.environ.get("VERIF_TIER") == "thorough"
HISTORY_DEPTH = int(os.environ.get("C18_HISTORY_DEPTH", 5 if THOROUGH else 4))
ENGINE_DEPTH = int(os.environ.get("C18_ENGINE_DEPTH", 4 if THOROUGH else 3))
H_BOUND = (f"histories of at most {HISTORY_DEPTH} Dispatcher operations over callables f, g (introduced in this order) and filters all / event / stop; "
           "not continued behind an operation that left the whole state unchanged")
E_BOUND = (f"histories of at most {ENGINE_DEPTH} RunEngine operations (permanent / per-call / in-plan subscribe, unsubscribe, new call) over the "
           "subscriptions f:all, f:event, g:all; not continued behind an operation that left the whole state unchanged")
TRUSTED = ["weakref.WeakKeyDictionary modelled as an equality-keyed map (keys compared with the proxies' own __eq__); garbage collection of "
           "callback owners (weak references dying) is not modelled: callbacks are plain functions that stay alive",
           "event_model.DocumentNames is the enumeration of the document names; itertools.count yields 0, 1, 2, ...",
           "callbacks are abstract functions recording their calls",
           "history tasks: " + H_BOUND + "; " + E_BOUND + " (enumerated shapes, every choice explored; no induction over the length)",
           "the per-call subscriptions of RE(plan, subs) are made by the loop over normalize_subs_input(subs) inside RunEngine.__call__, executed "
           "here as a fragment of the real function body (the loop using _temp_callback_ids together with the self._clear_*() calls directly in "
           "front of it); the rest of __call__ / _run does not touch subscriptions",
           "documents are observed by Dispatcher.process of one document per name after every operation (the native replay of the RunEngine "
           "histories performs a real run instead: start, descriptor, event, stop)"]
NOT_DECIDED = ("bound-method callbacks (equal but not identical callables; automatic unsubscription through weak references when the owner is "
               "garbage-collected); histories longer than the stated bounds; RunEngine.reset")
KF = "C18-equal-callables-share-registration"
DOCNAMES = V["DOCNAMES"]


class DocName:
    def __init__(self, n):
        self.name = n
        self.value = n

    def __repr__(self):
        return f"DocumentNames.{self.name}"


def install(I):
    w = I.w
    names = {n: Opaque(f"DocumentNames.{n}", {"token": "docname", "attrs": {"name": n, "value": n}, "truth": True, "isinstance_default": False})
             for n in DOCNAMES}
    enum = Opaque("DocumentNames", {"iter": lambda I_, o: list(names.values()), "getitem": lambda I_, o, k: names[k] if k in names else I_.raise_("KeyError", k),
                                    "contains": lambda I_, o, item: any(item is v for v in names.values()),
                                    "attrs": dict(names), "isinstance_default": False, "truth": True})
    w.stubs[(MR, "DocumentNames")] = enum
    w.stubs[(MU, "WeakKeyDictionary")] = native(lambda I_, a, k: eq_map(I_))
    w.stubs[(MR, "count")] = native(lambda I_, a, k: Counter())
    w.stubs[(MR, "warn")] = native(lambda I_, a, k: None)
    w.stubs[(MU, "ref")] = native(lambda I_, a, k: I_.raise_("TypeError", "cannot create weak reference"))
    return names


class Counter:
    def __init__(self):
        self.n = 0

    def pyvc_next(self, I):
        self.n += 1
        return self.n - 1


def eq_map(I):
    """a mutable mapping whose keys are compared with the object language's == (honours __eq__): WeakKeyDictionary"""
    items = []

    def find(I_, k):
        for i, (kk, v) in enumerate(items):
            if I_.truth(I_.eq(kk, k)):
                return i
        return None

    def getitem(I_, o, k):
        i = find(I_, k)
        if i is None:
            I_.raise_("KeyError", k)
        return items[i][1]

    def setitem(I_, o, k, v):
        i = find(I_, k)
        if i is None:
            items.append((k, v))
        else:
            items[i] = (items[i][0], v)

    def delitem(I_, o, k):
        i = find(I_, k)
        if i is None:
            I_.raise_("KeyError", k)
        del items[i]
    return Opaque("WeakKeyDictionary", {"getitem": getitem, "setitem": setitem, "delitem": delitem,
                                        "contains": lambda I_, o, k: find(I_, k) is not None, "iter": lambda I_, o: [k for k, v in items],
                                        "len": lambda I_, o: len(items), "truth": "len", "isinstance_default": False, "attrs": {"$items": items},
                                        "methods": {"items": lambda I_, o, a, k: list(items), "setdefault": None}})


def callback(log, label):
    def f(I_, a, k):
        log.append((label, tuple(a)))
        return None
    f._canon_label = label
    return native(f)


def new_dispatcher(I):
    return construct(I, D)


def delivered(log):
    out = [x[0] for x in log]
    log.clear()
    return out


@task("dispatcher.distinct_callables", PROP,
      functions=[f"{D}.__init__", f"{D}.subscribe", f"{D}.unsubscribe", f"{D}.unsubscribe_all", f"{D}.process", f"{MU}:CallbackRegistry.connect",
                 f"{MU}:CallbackRegistry.disconnect", f"{MU}:CallbackRegistry.process", f"{MU}:_BoundMethodProxy.__init__", f"{MU}:_BoundMethodProxy.__eq__",
                 f"{MU}:_BoundMethodProxy.__call__"],
      expect=[f"{D}.subscribe#ensures[fresh token; the callable receives exactly the subscribed kinds, in subscription order]",
              f"{D}.unsubscribe#ensures[removes its own subscription only; repeated / unknown tokens are harmless]"])
def distinct(I):
    w = I.w
    names = install(I)
    log = []
    f, g = callback(log, "f"), callback(log, "g")
    d = new_dispatcher(I)
    kind_f = w.choose(["all", "event"], "f subscribed to")
    tf = call_method(I, d, "subscribe", f, kind_f)
    tg = call_method(I, d, "subscribe", g, "event")
    doc = Opaque("doc", {"token": "doc"})
    call_method(I, d, "process", names["event"], doc)
    ev = delivered(log)
    call_method(I, d, "process", names["start"], doc)
    st = delivered(log)
    rp = {"replay": "dispatcher.subscriptions"}
    w.check(f"{D}.subscribe#ensures[fresh token; the callable receives exactly the subscribed kinds, in subscription order]",
            tf != tg and ev == ["f", "g"] and st == (["f"] if kind_f == "all" else []), rp)
    which = w.choose(["f", "g"], "unsubscribed")
    call_method(I, d, "unsubscribe", tf if which == "f" else tg)
    call_method(I, d, "unsubscribe", tf if which == "f" else tg)      # again: harmless
    call_method(I, d, "unsubscribe", 12345)                            # unknown token: harmless
    call_method(I, d, "process", names["event"], doc)
    ev2 = delivered(log)
    w.check(f"{D}.unsubscribe#ensures[removes its own subscription only; repeated / unknown tokens are harmless]",
            ev2 == (["g"] if which == "f" else ["f"]), rp)
    call_method(I, d, "unsubscribe_all")
    call_method(I, d, "process", names["event"], doc)
    w.check(f"{D}.unsubscribe_all#ensures[nothing is delivered any more]", delivered(log) == [], rp)


@task("dispatcher.same_callable_twice", PROP, functions=[f"{D}.subscribe", f"{D}.unsubscribe", f"{MU}:CallbackRegistry.connect"],
      expect=[f"{D}.unsubscribe#ensures[removing one subscription of a callable does not silence its other subscription]"])
def same_callable(I):
    w = I.w
    names = install(I)
    log = []
    f = callback(log, "f")
    d = new_dispatcher(I)
    t1 = call_method(I, d, "subscribe", f, "event")
    t2 = call_method(I, d, "subscribe", f, w.choose(["event", "all"], "second subscription kind"))
    doc = Opaque("doc", {"token": "doc"})
    call_method(I, d, "unsubscribe", t2 if w.choose(["second", "first"], "token removed") == "second" else t1)
    call_method(I, d, "process", names["event"], doc)
    got = delivered(log)
    w.check_kf(f"{D}.unsubscribe#ensures[removing one subscription of a callable does not silence its other subscription]",
               t1 != t2 and len(got) >= 1, KF, True, {"replay": "dispatcher.same_callable"})


@task("engine.tokens", PROP, functions=[f"{RE}._subscribe", f"{RE}._unsubscribe", f"{RE}._clear_call_cache", f"{RE}.subscribe", f"{RE}.unsubscribe"],
      expect=[f"{RE}._clear_call_cache#ensures[per-call and in-plan subscriptions dropped, permanent ones kept]"])
def engine_tokens(I):
    w = I.w
    names = install(I)
    env = Env(I)
    log = []
    perm, temp, inplan = callback(log, "permanent"), callback(log, "per-call"), callback(log, "in-plan")
    d = new_dispatcher(I)
    re_ = make_re(I, env, dispatcher=d, _msg_cache=None)
    for fld in ("_metadata_per_call", "_staged", "_objs_seen", "_movable_objs_touched", "_run_start_uids", "_groups", "_status_objs"):
        pass
    tp = call_method(I, re_, "subscribe", perm, "event")
    I.call_hooks[f"{RE}._reset_checkpoint_state_coro"] = lambda I_, f, a, k: ret(Ready(None))
    r1 = call_async(I, I.getattr(re_, "_subscribe"), MsgVal("subscribe", None, (inplan, "event"), {}, None))
    tt = call_method(I, d, "subscribe", temp, "event")
    re_._temp_callback_ids.add(tt)                       # what __call__ does for the subs= argument
    doc = Opaque("doc", {"token": "doc"})
    call_method(I, d, "process", names["event"], doc)
    before = delivered(log)
    # fields _clear_call_cache resets: give it whatever the real __init__ creates them as
    for fld, val in (("_deferred_pause_requested", False), ("_plan_stack", None), ("_response_stack", None), ("_exception", None),
                     ("_task_fut", None), ("_pardon_failures", None), ("_plan", None), ("_interrupted", False), ("_exit_status", "success"),
                     ("_reason", ""), ("_task", None), ("_status_tasks", None), ("_loop_for_kwargs", {})):
        re_.attrs.setdefault(fld, val)
    w.stubs["asyncio.Event"] = lambda I_, a, k: Opaque("event", {"isinstance_default": False})
    w.stubs[(MR, "deque")] = native(lambda I_, a, k: __import__("collections").deque())
    try:
        call_method(I, re_, "_clear_call_cache")
    except PyRaise as pr:
        raise EngineError(f"_clear_call_cache raised in harness: {pr.exc.attrs}")
    call_method(I, d, "process", names["event"], doc)
    after = delivered(log)
    w.check(f"{RE}._clear_call_cache#ensures[per-call and in-plan subscriptions dropped, permanent ones kept]",
            r1[0] == "ok" and before == ["permanent", "in-plan", "per-call"] and after == ["permanent"] and len(re_._temp_callback_ids) == 0,
            {"replay": "dispatcher.engine_tokens"})
    call_method(I, re_, "unsubscribe", tp)
    call_method(I, d, "process", names["event"], doc)
    w.check(f"{RE}.unsubscribe#ensures[a permanent subscription ends when its own token is unsubscribed]", delivered(log) == [],
            {"replay": "dispatcher.engine_tokens"})


# ------------------------------------------------------------------------------------------------ histories (choice sequences)
FRESH = "#ensures[the token was never handed out before, live or dead]"
D_FRESH = f"{D}.subscribe{FRESH}"
D_SUB = f"{D}.subscribe#ensures[adds exactly the requested subscription: every document name is received exactly once by exactly the callables with a live subscription covering it]"
D_UNSUB = f"{D}.unsubscribe#ensures[ends exactly its own subscription: no other subscription loses or gains a document, also one of the same callable]"
D_NOOP = f"{D}.unsubscribe#ensures[a dead or unknown token changes nothing]"
D_ALL = f"{D}.unsubscribe_all#ensures[every subscription ends]"
D_REP = f"{D}#invariant[REP1-REP4: token mapping and registry agree with the live subscriptions after every operation]"
E_FRESH = f"{RE}.subscribe{FRESH}"
E_SUB = f"{RE}.subscribe#ensures[permanent subscription: exactly the requested deliveries are added]"
E_UNSUB = f"{RE}.unsubscribe#ensures[ends exactly its own subscription, permanent or temporary]"
E_NOOP = f"{RE}.unsubscribe#ensures[a dead token changes nothing]"
E_CALL = f"{RE}.__call__#ensures[the previous call's per-call and in-plan subscriptions are dropped, permanent ones are kept, the per-call subscription is added]"
E_MSUB = f"{RE}._subscribe#ensures[in-plan subscription: returns its token, exactly the requested deliveries are added]"
E_MUNSUB = f"{RE}._unsubscribe#ensures[ends exactly its own subscription]"
E_REP = f"{RE}#invariant[REP1-REP5: token mapping, registry and _temp_callback_ids agree with the live subscriptions after every operation]"


def snapshot(v, depth=0):
    """canonical description of an object-language value (the whole object graph below it)"""
    import collections
    nxt = depth + 1
    if depth > 14:
        return "..."
    if isinstance(v, Obj):
        return ("obj", v.cls.name, tuple(sorted((k, snapshot(x, nxt)) for k, x in v.attrs.items())))
    if isinstance(v, Opaque):
        items = v.spec.get("attrs", {}).get("$items") if isinstance(v.spec.get("attrs"), dict) else None
        if items is not None:
            return ("map", tuple((snapshot(k, nxt), snapshot(x, nxt)) for k, x in items))
        return ("opaque", v.name)
    if isinstance(v, dict):
        return ("dict", tuple((snapshot(k, nxt), snapshot(x, nxt)) for k, x in v.items()))
    if isinstance(v, (list, tuple, collections.deque)):
        return (type(v).__name__, tuple(snapshot(x, nxt) for x in v))
    if isinstance(v, (set, frozenset)):
        return ("set", tuple(sorted(repr(snapshot(x, nxt)) for x in v)))
    if isinstance(v, Counter):
        return ("count", v.n)
    if v is None or isinstance(v, (int, str, bool, float)):
        return v
    if isinstance(v, Closure):
        return ("fn", v.qualname)
    if isinstance(v, BoundMethod):
        return ("bound", snapshot(v.func, nxt))
    lab = getattr(v, "_canon_label", None)
    if lab is not None:
        return ("callback", lab)
    return ("host", type(v).__name__)


def _label(x):
    lab = getattr(x, "_canon_label", None)
    return lab if lab is not None else repr(x)


def concrete_of(d):
    """the concrete fields REP talks about, as plain data (see contracts/refs/c18_view.py rep_problems)"""
    tm = d.attrs.get("_token_mapping")
    reg = d.attrs.get("cb_registry")
    if not isinstance(tm, dict) or not isinstance(reg, Obj) or not isinstance(reg.attrs.get("callbacks"), dict) or not isinstance(reg.attrs.get("_func_cid_map"), dict):
        raise EngineError("Dispatcher / CallbackRegistry representation changed (_token_mapping, cb_registry.callbacks, _func_cid_map): restate REP")
    return {"tokens": {t: list(v) if isinstance(v, (list, tuple)) else [v] for t, v in tm.items()},
            "callbacks": {sig.spec["attrs"]["name"]: [(cid, _label(proxy.attrs.get("func"))) for cid, proxy in cd.items()] for sig, cd in reg.attrs["callbacks"].items()},
            "func_cid": {sig.spec["attrs"]["name"]: [(_label(proxy.attrs.get("func")), cid) for proxy, cid in m.spec["attrs"]["$items"]]
                         for sig, m in reg.attrs["_func_cid_map"].items()}}


class Bench:
    """the real Dispatcher, recording callbacks, the abstract view, and the history so far"""
    labels = ("f", "g")

    def __init__(self, I):
        self.I, self.w = I, I.w
        self.names = install(I)
        self.log = []
        self.cbs = {c: callback(self.log, c) for c in self.labels}
        self.d = new_dispatcher(I)
        self.view = View()
        self.ops = []
        self.tokens = []
        self.doc = Opaque("doc", {"token": "doc"})

    def state(self):
        return snapshot(self.d)

    observed = DOCNAMES             # the document names emitted after every operation

    def observe(self):
        received = {}
        for n in self.observed:
            call_method(self.I, self.d, "process", self.names[n], self.doc)
            received[n] = [lab if a[0] == n and a[1] is self.doc else f"{lab}(wrong arguments)" for lab, a in self.log]
            self.log.clear()
        return received

    def info(self, problems):
        return {"replay": self.replay, "ops": list(self.ops), "problems": [str(p) for p in problems[:4]]}

    def judge(self, name, problems):
        """one obligation of the current operation; a failed one ends the history (the view cannot follow a broken state)"""
        if self.w.ch.replaying and not problems:
            return                      # this prefix was judged on the path that first took it
        self.w.check(name, not problems, self.info(problems))
        if problems:
            raise PathEnd("violation")

    def real(self, f, *a, **k):
        r = catch(self.I, f, *a, **k)
        if r[0] == "raise":
            return None, [f"raised {r[1]!r}"]
        return r[1], []

    def judge_state(self, name, rep):
        if self.w.ch.replaying:
            return                      # this prefix was judged on the path that first took it
        p_rep, p_del = self.rep(), V["delivery_problems"](self.view, self.observe(), self.observed)
        self.w.check(rep, not p_rep, self.info(p_rep))
        self.w.check(name, not p_del, self.info(p_del))
        if p_rep or p_del:
            raise PathEnd("violation")

    def rep(self):
        return V["rep_problems"](self.view, concrete_of(self.d))

    def noop(self, name, before):
        """an operation that must change nothing: judged on the whole object graph; the history ends here"""
        after = self.state()
        self.judge(name, [] if after == before else ["the state changed"] + self.rep() + V["delivery_problems"](self.view, self.observe(), self.observed))
        raise PathEnd("state unchanged")


class DispatcherBench(Bench):
    replay = "dispatcher.history"

    def menu(self):
        used = {s[0] for s in self.view.subs.values()} | {p.split()[1] for p in self.ops if p.startswith("subscribe ")}
        m = [f"subscribe {c} {filt}" for c in (["f", "g"] if "f" in used else ["f"]) for filt in ("all", "event", "stop")]
        m += [f"unsubscribe #{i}" for i in range(len(self.tokens))]
        return m + ["unsubscribe unknown", "unsubscribe_all"]

    def step(self, op):
        I, d, view = self.I, self.d, self.view
        kind, c, filt, idx = V["parse"](op)
        self.ops.append(op)
        if kind == "subscribe":
            t, bad = self.real(I.getattr(d, "subscribe"), *V["subscribe_args"](c, filt, self.cbs))
            self.judge(D_FRESH, bad or V["fresh_token_problems"](view, t))
            self.tokens.append(t)
            view.subscribed(t, c, filt)
            self.judge_state(D_SUB, D_REP)
        elif kind == "unsubscribe":
            t = V["UNKNOWN_TOKEN"] if idx == "unknown" else self.tokens[idx]
            live = t in view.subs
            before = None if live else self.state()
            _, bad = self.real(I.getattr(d, "unsubscribe"), t)
            self.judge(D_UNSUB if live else D_NOOP, bad)
            if not live:
                self.noop(D_NOOP, before)
            view.unsubscribed(t)
            self.judge_state(D_UNSUB, D_REP)
        elif kind == "unsubscribe_all":
            empty = not view.subs
            before = self.state() if empty else None
            _, bad = self.real(I.getattr(d, "unsubscribe_all"))
            self.judge(D_ALL, bad)
            if empty:
                self.noop(D_ALL, before)
            view.unsubscribed_all()
            self.judge_state(D_ALL, D_REP)
        else:
            raise EngineError(op)


@task("dispatcher.history", PROP,
      functions=[f"{D}.__init__", f"{D}.subscribe", f"{D}.unsubscribe", f"{D}.unsubscribe_all", f"{D}.process", f"{MU}:CallbackRegistry.connect",
                 f"{MU}:CallbackRegistry.disconnect", f"{MU}:CallbackRegistry.process", f"{MU}:_BoundMethodProxy.__init__", f"{MU}:_BoundMethodProxy.__eq__",
                 f"{MU}:_BoundMethodProxy.__call__"],
      expect=[D_FRESH, D_SUB, D_UNSUB, D_NOOP, D_ALL, D_REP], covers=["same callable live under two overlapping filters", "a token older than a live one is dead"],
      bounded=H_BOUND, timeout_s=3000, path_cap=400000)
def dispatcher_history(I):
    b = DispatcherBench(I)
    for _ in range(HISTORY_DEPTH):
        b.step(I.w.choose(b.menu(), "operation"))
        v = b.view
        if any(len(v.live(n)) > len(v.receivers(n)) for n in ("event", "stop")) and len({s[1] for s in v.subs.values()}) > 1:
            I.w.cover("same callable live under two overlapping filters")
        if v.subs and any(t not in v.subs and t < max(v.subs) for t in v.issued):
            I.w.cover("a token older than a live one is dead")


# ------------------------------------------------------------------------------------------------ RunEngine histories
def call_prologue(I):
    """the statements of the real RunEngine.__call__ that end the previous call's subscriptions and make the per-call ones: the loop
    over normalize_subs_input(subs) that fills _temp_callback_ids, together with the self._clear_*() calls directly in front of it"""
    import ast
    clo = I.get_function(f"{RE}.__call__")

    def uses_temp(st):
        return any(isinstance(n, ast.Attribute) and n.attr == "_temp_callback_ids" for n in ast.walk(st))

    def blocks(node):
        for fld in ("body", "orelse", "finalbody"):
            b = getattr(node, fld, None)
            if isinstance(b, list) and b and isinstance(b[0], ast.stmt):
                yield b
                for st in b:
                    if not isinstance(st, (ast.FunctionDef, ast.AsyncFunctionDef, ast.ClassDef)):
                        yield from blocks(st)
    found = [(b, i) for b in blocks(clo.node) for i, st in enumerate(b) if isinstance(st, ast.For) and uses_temp(st)]
    if found:
        inside = {id(n) for n in ast.walk(found[0][0][found[0][1]])}
        found = [found[0]] + [(b, i) for b, i in found[1:] if id(b[i]) not in inside]       # the outermost loop
    if len(found) != 1:
        raise EngineError(f"RunEngine.__call__: expected one loop making the per-call subscriptions, found {len(found)} (shape changed)")
    b, i = found[0]
    j = i
    while j > 0 and isinstance(b[j - 1], ast.Expr) and isinstance(b[j - 1].value, ast.Call) and isinstance(b[j - 1].value.func, ast.Attribute) \
            and isinstance(b[j - 1].value.func.value, ast.Name) and b[j - 1].value.func.value.id == "self" and b[j - 1].value.func.attr.startswith("_clear_"):
        j -= 1
    return clo, b[j:i + 1]


def run_call_prologue(I, re_, subs):
    from pyvc.interp import Frame, scope_info
    clo, stmts = call_prologue(I)
    fr = Frame(clo, None, scope_info(clo.node)[0], I)
    fr.vars.update({"self": re_, "subs": subs})
    I.run(I.ex_block(stmts, fr))


class EngineBench(Bench):
    replay = "dispatcher.engine_history"
    observed = ["start", "descriptor", "event", "stop"]     # what one run of a plan emits (REP3 speaks about all twelve names)
    SUBS = (("f", "all"), ("f", "event"), ("g", "all"))

    def __init__(self, I):
        super().__init__(I)
        w = I.w
        self.returned = []

        def record(I_, f, a, k):
            r = yield from I_.call_closure(f, a, k)
            self.returned.append(r)
            return r
        I.call_hooks[f"{D}.subscribe"] = record
        I.call_hooks[f"{RE}._reset_checkpoint_state_coro"] = lambda I_, f, a, k: ret(Ready(None))
        w.stubs["asyncio.Event"] = lambda I_, a, k: Opaque("event", {"isinstance_default": False})
        w.stubs[(MR, "deque")] = native(lambda I_, a, k: __import__("collections").deque())
        self.re = make_re(I, Env(I), dispatcher=self.d, _msg_cache=None)
        for fld, val in (("_deferred_pause_requested", False), ("_plan_stack", None), ("_response_stack", None), ("_exception", None),
                         ("_task_fut", None), ("_pardon_failures", None), ("_plan", None), ("_interrupted", False), ("_exit_status", "success"),
                         ("_reason", ""), ("_task", None), ("_status_tasks", None), ("_loop_for_kwargs", {}), ("_cleaning_up", False),
                         ("_interruptions_desc_uid", None), ("_interruptions_counter", None)):
            self.re.attrs.setdefault(fld, val)
        self.in_call = False

    def temp_ids(self):
        t = self.re.attrs.get("_temp_callback_ids")
        if not isinstance(t, (set, list)):
            raise EngineError("RunEngine._temp_callback_ids representation changed: restate REP5")
        return set(t)

    def state(self):
        return (snapshot(self.d), snapshot(self.temp_ids()))

    def rep(self):
        return V["rep_problems"](self.view, concrete_of(self.d), self.temp_ids())

    def menu(self):
        v = self.view
        m = ["call -"] + [f"call {c}:{filt}" for c, filt in self.SUBS]
        if self.in_call:
            m += [f"msg subscribe {c} {filt}" for c, filt in self.SUBS]
            m += [f"msg unsubscribe #{i}" for i, t in enumerate(self.tokens) if t in v.subs and v.subs[t][2] != "permanent"]
        m += [f"subscribe {c} {filt}" for c, filt in self.SUBS]
        return m + [f"unsubscribe #{i}" for i in range(len(self.tokens))]

    def step(self, op):
        I, re_, view = self.I, self.re, self.view
        kind, c, filt, idx = V["parse"](op)
        self.ops.append(op)
        if kind == "subscribe":
            t, bad = self.real(I.getattr(re_, "subscribe"), self.cbs[c], filt)
            self.judge(E_FRESH, bad or V["fresh_token_problems"](view, t))
            self.tokens.append(t)
            view.subscribed(t, c, filt, "permanent")
            self.judge_state(E_SUB, E_REP)
        elif kind == "unsubscribe":
            t = self.tokens[idx]
            live = t in view.subs
            before = None if live else self.state()
            _, bad = self.real(I.getattr(re_, "unsubscribe"), t)
            self.judge(E_UNSUB if live else E_NOOP, bad)
            if not live:
                self.noop(E_NOOP, before)
            view.unsubscribed(t)
            self.judge_state(E_UNSUB, E_REP)
        elif kind == "call":
            del self.returned[:]
            subs = None if c is None else (self.cbs[c] if filt == "all" else {filt: [self.cbs[c]]})
            bad = []
            try:
                run_call_prologue(I, re_, subs)
            except PyRaise as pr:
                bad = [f"raised {pr.exc!r}"]
            self.judge(E_CALL, bad)
            view.call_started()
            self.in_call = True
            if c is not None:
                p = [f"the per-call subscription produced the tokens {self.returned} (expected one)"] if len(self.returned) != 1 else \
                    V["fresh_token_problems"](view, self.returned[0])
                self.judge(E_FRESH, p)
                self.tokens.append(self.returned[0])
                view.subscribed(self.returned[0], c, filt, "per-call")
            self.judge_state(E_CALL, E_REP)
        elif kind == "msg subscribe":
            r = call_async(I, I.getattr(re_, "_subscribe"), MsgVal("subscribe", None, (self.cbs[c], filt), {}, None))
            self.judge(E_FRESH, [f"raised {r[1]!r}"] if r[0] != "ok" else V["fresh_token_problems"](view, r[1]))
            self.tokens.append(r[1])
            view.subscribed(r[1], c, filt, "in-plan")
            self.judge_state(E_MSUB, E_REP)
        elif kind == "msg unsubscribe":
            t = self.tokens[idx]
            msg = MsgVal("unsubscribe", None, (t,), {}, None) if t % 2 else MsgVal("unsubscribe", None, (), {"token": t}, None)
            r = call_async(I, I.getattr(re_, "_unsubscribe"), msg)
            self.judge(E_MUNSUB, [f"raised {r[1]!r}"] if r[0] != "ok" else [])
            view.unsubscribed(t)
            self.judge_state(E_MUNSUB, E_REP)
        else:
            raise EngineError(op)


ENGINE_FUNCTIONS = [f"{RE}.subscribe", f"{RE}.unsubscribe", f"{RE}._subscribe", f"{RE}._unsubscribe", f"{RE}._clear_call_cache", f"{RE}._clear_run_cache",
                    f"{RE}.__call__", "bluesky.utils:normalize_subs_input", f"{D}.subscribe", f"{D}.unsubscribe", f"{MU}:CallbackRegistry.connect",
                    f"{MU}:CallbackRegistry.disconnect", f"{MU}:CallbackRegistry.process"]


COV_SAME = "a per-call subscription ended while the same callable stays subscribed permanently"
COV_INPLAN = "an in-plan subscription ended with its call"
COV_LATER = "a permanent subscription made after a per-call one survives the next call"


def engine_history_task(first, expect, covers):
    """`first` = None: all histories in one task; otherwise one task per first operation of the history (the tasks run in parallel;
    together they are all histories of the bound)"""
    @task("engine.history" + (f"[{first}]" if first else ""), PROP, functions=ENGINE_FUNCTIONS, expect=expect, covers=covers, bounded=E_BOUND,
          timeout_s=3000, path_cap=400000)
    def engine_history(I):
        b = EngineBench(I)
        for k in range(ENGINE_DEPTH):
            before = dict(b.view.subs)
            menu = b.menu()
            if k == 0 and first and first not in menu:
                raise EngineError(f"{first} is not a first operation")
            op = first if k == 0 and first else I.w.choose(menu, "operation")
            b.step(op)
            if op.startswith("call"):
                gone = [s for t, s in before.items() if t not in b.view.subs]
                if any(s[2] == "per-call" and any(p[0] == s[0] and p[2] == "permanent" for p in b.view.subs.values()) for s in gone):
                    I.w.cover(COV_SAME)
                if any(s[2] == "in-plan" for s in gone):
                    I.w.cover(COV_INPLAN)
                if gone and any(s[2] == "permanent" and t > min(tt for tt in before if tt not in b.view.subs) for t, s in b.view.subs.items()):
                    I.w.cover(COV_LATER)
    return engine_history


def _engine_tasks():
    class _Probe:
        view, in_call, tokens, SUBS = View(), False, [], EngineBench.SUBS
    everything = [E_FRESH, E_SUB, E_UNSUB, E_NOOP, E_CALL, E_MSUB, E_MUNSUB, E_REP]
    if ENGINE_DEPTH < 4:
        engine_history_task(None, everything, [COV_SAME, COV_INPLAN, COV_LATER])
        return
    for first in EngineBench.menu(_Probe):
        engine_history_task(first, everything, {"subscribe f all": [COV_SAME], "call -": [COV_INPLAN], "call f:event": [COV_LATER]}.get(first, []))


_engine_tasks()


TWIN = "twin:a callable subscribed twice receives every document twice"


@task("twin.double_delivery", PROP, functions=[f"{D}.subscribe", f"{MU}:CallbackRegistry.connect"], twin=TWIN)
def twin_double(I):
    """must fail: the wrong reading of 'subscribed more than once' (one delivery per token instead of one per callable)"""
    b = DispatcherBench(I)
    for op in ("subscribe f event", "subscribe f all"):
        b.step(op)
    I.w.check(TWIN, b.observe()["event"] == ["f", "f"], {"ops": list(b.ops)})
