"""C18 - subscriptions live exactly as long as they were asked to.

Carriers: bluesky/run_engine.py: Dispatcher.subscribe / unsubscribe / unsubscribe_all / process, RunEngine._subscribe /
_unsubscribe / _clear_call_cache (token bookkeeping); bluesky/utils: CallbackRegistry.connect / disconnect / process /
_remove_proxy, _BoundMethodProxy.__init__ / __eq__ / __hash__ / __call__.
Abstract view: subs: token -> (callable, document names); delivers(name) = callables of the live tokens subscribed to
`name`.  Clauses from the statement: subscribe returns a fresh token and adds exactly that subscription; unsubscribe(t)
removes t's subscription and leaves the deliveries of every other token unchanged - also when the same callable is
subscribed more than once; per-call / in-plan tokens are dropped by _clear_call_cache, permanent ones are kept.
"""
from .lib import *
from .re_lib import *

PROP = "C18"
MU = "bluesky.utils"
D = f"{MR}:Dispatcher"
TRUSTED = ["weakref.WeakKeyDictionary modelled as an equality-keyed map (keys compared with the proxies' own __eq__); garbage collection of "
           "callback owners (weak references dying) is not modelled: callbacks are plain functions that stay alive",
           "event_model.DocumentNames is the enumeration of the document names; itertools.count yields 0, 1, 2, ...",
           "callbacks are abstract functions recording their calls"]
NOT_DECIDED = "bound-method callbacks whose owner is garbage-collected (automatic unsubscription through weak references)"
KF = "C18-equal-callables-share-registration"
DOCNAMES = ["start", "stop", "event", "descriptor", "event_page", "datum", "resource", "datum_page", "stream_resource", "stream_datum", "bulk_events", "bulk_datum"]


class DocName:
    def __init__(self, n):
        self.name = n
        self.value = n

    def __repr__(self):
        return f"DocumentNames.{self.name}"


def install(I):
    w = I.w
    names = {n: Opaque(f"DocumentNames.{n}", {"token": "docname", "attrs": {"name": n, "value": n}, "truth": True, "isinstance_default": False})
             for n in DOCNAMES}
    enum = Opaque("DocumentNames", {"iter": lambda I_, o: list(names.values()), "getitem": lambda I_, o, k: names[k] if k in names else I_.raise_("KeyError", k),
                                    "contains": lambda I_, o, item: any(item is v for v in names.values()),
                                    "attrs": dict(names), "isinstance_default": False, "truth": True})
    w.stubs[(MR, "DocumentNames")] = enum
    w.stubs[(MU, "WeakKeyDictionary")] = native(lambda I_, a, k: eq_map(I_))
    w.stubs[(MR, "count")] = native(lambda I_, a, k: Counter())
    w.stubs[(MR, "warn")] = native(lambda I_, a, k: None)
    w.stubs[(MU, "ref")] = native(lambda I_, a, k: I_.raise_("TypeError", "cannot create weak reference"))
    return names


class Counter:
    def __init__(self):
        self.n = 0

    def pyvc_next(self, I):
        self.n += 1
        return self.n - 1


def eq_map(I):
    """a mutable mapping whose keys are compared with the object language's == (honours __eq__): WeakKeyDictionary"""
    items = []

    def find(I_, k):
        for i, (kk, v) in enumerate(items):
            if I_.truth(I_.eq(kk, k)):
                return i
        return None

    def getitem(I_, o, k):
        i = find(I_, k)
        if i is None:
            I_.raise_("KeyError", k)
        return items[i][1]

    def setitem(I_, o, k, v):
        i = find(I_, k)
        if i is None:
            items.append((k, v))
        else:
            items[i] = (items[i][0], v)

    def delitem(I_, o, k):
        i = find(I_, k)
        if i is None:
            I_.raise_("KeyError", k)
        del items[i]
    return Opaque("WeakKeyDictionary", {"getitem": getitem, "setitem": setitem, "delitem": delitem,
                                        "contains": lambda I_, o, k: find(I_, k) is not None, "iter": lambda I_, o: [k for k, v in items],
                                        "len": lambda I_, o: len(items), "truth": "len", "isinstance_default": False,
                                        "methods": {"items": lambda I_, o, a, k: list(items), "setdefault": None}})


def callback(log, label):
    def f(I_, a, k):
        log.append((label, tuple(a)))
        return None
    f._canon_label = label
    return native(f)


def new_dispatcher(I):
    return construct(I, D)


def delivered(log):
    out = [x[0] for x in log]
    log.clear()
    return out


@task("dispatcher.distinct_callables", PROP,
      functions=[f"{D}.__init__", f"{D}.subscribe", f"{D}.unsubscribe", f"{D}.unsubscribe_all", f"{D}.process", f"{MU}:CallbackRegistry.connect",
                 f"{MU}:CallbackRegistry.disconnect", f"{MU}:CallbackRegistry.process", f"{MU}:_BoundMethodProxy.__init__", f"{MU}:_BoundMethodProxy.__eq__",
                 f"{MU}:_BoundMethodProxy.__call__"],
      expect=[f"{D}.subscribe#ensures[fresh token; the callable receives exactly the subscribed kinds, in subscription order]",
              f"{D}.unsubscribe#ensures[removes its own subscription only; repeated / unknown tokens are harmless]"])
def distinct(I):
    w = I.w
    names = install(I)
    log = []
    f, g = callback(log, "f"), callback(log, "g")
    d = new_dispatcher(I)
    kind_f = w.choose(["all", "event"], "f subscribed to")
    tf = call_method(I, d, "subscribe", f, kind_f)
    tg = call_method(I, d, "subscribe", g, "event")
    doc = Opaque("doc", {"token": "doc"})
    call_method(I, d, "process", names["event"], doc)
    ev = delivered(log)
    call_method(I, d, "process", names["start"], doc)
    st = delivered(log)
    rp = {"replay": "dispatcher.subscriptions"}
    w.check(f"{D}.subscribe#ensures[fresh token; the callable receives exactly the subscribed kinds, in subscription order]",
            tf != tg and ev == ["f", "g"] and st == (["f"] if kind_f == "all" else []), rp)
    which = w.choose(["f", "g"], "unsubscribed")
    call_method(I, d, "unsubscribe", tf if which == "f" else tg)
    call_method(I, d, "unsubscribe", tf if which == "f" else tg)      # again: harmless
    call_method(I, d, "unsubscribe", 12345)                            # unknown token: harmless
    call_method(I, d, "process", names["event"], doc)
    ev2 = delivered(log)
    w.check(f"{D}.unsubscribe#ensures[removes its own subscription only; repeated / unknown tokens are harmless]",
            ev2 == (["g"] if which == "f" else ["f"]), rp)
    call_method(I, d, "unsubscribe_all")
    call_method(I, d, "process", names["event"], doc)
    w.check(f"{D}.unsubscribe_all#ensures[nothing is delivered any more]", delivered(log) == [], rp)


@task("dispatcher.same_callable_twice", PROP, functions=[f"{D}.subscribe", f"{D}.unsubscribe", f"{MU}:CallbackRegistry.connect"],
      expect=[f"{D}.unsubscribe#ensures[removing one subscription of a callable does not silence its other subscription]"])
def same_callable(I):
    w = I.w
    names = install(I)
    log = []
    f = callback(log, "f")
    d = new_dispatcher(I)
    t1 = call_method(I, d, "subscribe", f, "event")
    t2 = call_method(I, d, "subscribe", f, w.choose(["event", "all"], "second subscription kind"))
    doc = Opaque("doc", {"token": "doc"})
    call_method(I, d, "unsubscribe", w.choose([t2, t1], "token removed"))
    call_method(I, d, "process", names["event"], doc)
    got = delivered(log)
    w.check_kf(f"{D}.unsubscribe#ensures[removing one subscription of a callable does not silence its other subscription]",
               t1 != t2 and len(got) >= 1, KF, True, {"replay": "dispatcher.same_callable"})


@task("engine.tokens", PROP, functions=[f"{RE}._subscribe", f"{RE}._unsubscribe", f"{RE}._clear_call_cache", f"{RE}.subscribe", f"{RE}.unsubscribe"],
      expect=[f"{RE}._clear_call_cache#ensures[per-call and in-plan subscriptions dropped, permanent ones kept]"])
def engine_tokens(I):
    w = I.w
    names = install(I)
    env = Env(I)
    log = []
    perm, temp, inplan = callback(log, "permanent"), callback(log, "per-call"), callback(log, "in-plan")
    d = new_dispatcher(I)
    re_ = make_re(I, env, dispatcher=d, _msg_cache=None)
    for fld in ("_metadata_per_call", "_staged", "_objs_seen", "_movable_objs_touched", "_run_start_uids", "_groups", "_status_objs"):
        pass
    tp = call_method(I, re_, "subscribe", perm, "event")
    I.call_hooks[f"{RE}._reset_checkpoint_state_coro"] = lambda I_, f, a, k: ret(Ready(None))
    r1 = call_async(I, I.getattr(re_, "_subscribe"), MsgVal("subscribe", None, (inplan, "event"), {}, None))
    tt = call_method(I, d, "subscribe", temp, "event")
    re_._temp_callback_ids.add(tt)                       # what __call__ does for the subs= argument
    doc = Opaque("doc", {"token": "doc"})
    call_method(I, d, "process", names["event"], doc)
    before = delivered(log)
    # fields _clear_call_cache resets: give it whatever the real __init__ creates them as
    for fld, val in (("_deferred_pause_requested", False), ("_plan_stack", None), ("_response_stack", None), ("_exception", None),
                     ("_task_fut", None), ("_pardon_failures", None), ("_plan", None), ("_interrupted", False), ("_exit_status", "success"),
                     ("_reason", ""), ("_task", None), ("_status_tasks", None), ("_loop_for_kwargs", {})):
        re_.attrs.setdefault(fld, val)
    w.stubs["asyncio.Event"] = lambda I_, a, k: Opaque("event", {"isinstance_default": False})
    w.stubs[(MR, "deque")] = native(lambda I_, a, k: __import__("collections").deque())
    try:
        call_method(I, re_, "_clear_call_cache")
    except PyRaise as pr:
        raise EngineError(f"_clear_call_cache raised in harness: {pr.exc.attrs}")
    call_method(I, d, "process", names["event"], doc)
    after = delivered(log)
    w.check(f"{RE}._clear_call_cache#ensures[per-call and in-plan subscriptions dropped, permanent ones kept]",
            r1[0] == "ok" and before == ["permanent", "in-plan", "per-call"] and after == ["permanent"] and len(re_._temp_callback_ids) == 0,
            {"replay": "dispatcher.subscriptions"})
    call_method(I, re_, "unsubscribe", tp)
    call_method(I, d, "process", names["event"], doc)
    w.check(f"{RE}.unsubscribe#ensures[a permanent subscription ends when its own token is unsubscribed]", delivered(log) == [],
            {"replay": "dispatcher.subscriptions"})
