"""Ghost trackers and obligations over the events of a T2 scenario (contracts/run_scn.py).

The tracker keeps only *bounded* ghost state (it is part of the canonical key where a later obligation depends on it);
unbounded ledgers (eng.events) are never consulted by an obligation except through what the tracker distilled."""
from .lib import *
from .run_lib import *

REQ = "bluesky.run_engine:RunEngine"


def is_exc(I, e, modname, cname):
    return isinstance(e, Obj) and e.cls.issubclass(I.P.class_info(modname, cname))


TERMINAL_STATES = {"aborting": "abort", "stopping": "stop", "halting": "halt"}


class Tracker:
    """facts about the call in progress, distilled from events; `key()` is the part later obligations depend on"""

    def __init__(self, sc):
        self.sc, self.I, self.w, self.eng = sc, sc.I, sc.w, sc.eng
        self.n_tr = 0
        self.reset_call()
        self.eng.monitors.append(self.on)
        self.eng.ghost["key"] = self            # canonicalised through canon()
        self.eng.ghost.setdefault("on_transition", []).append(self.on_transition)
        self.sc.loop.on_cut = self.on_cut
        self.checks = []                        # property-specific callbacks (kind, *args)

    def reset_call(self):
        self.terminators = frozenset()          # abort / stop / halt that took effect during this call chain (the state moved to aborting / stopping / halting)
        self.term_requested = frozenset()       # abort / stop / halt requested (possibly refused, possibly with partial effects)
        self.interrupters = frozenset()         # pause / pause_defer / suspend requested
        self.section_nr = False                 # statement's definition: a clear_checkpoint was processed and no checkpoint since
        self.nonresumable_seen = False          # a pause / suspension took effect while in such a non-resumable section
        self.plan_outcome = None                # None | 'returned' | 'raised'  (the user's plan)
        self.plan_exc = None
        self.failed_pause = False               # a FailedPause was thrown into a plan
        self.thrown_control = frozenset()       # control exceptions thrown into plans: RequestAbort / RequestStop / PlanHalt / FailedPause
        self.in_call = None

    def canon(self, cn):
        return ("tracker", tuple(sorted(self.terminators)), tuple(sorted(self.term_requested)), tuple(sorted(self.interrupters)), self.section_nr, self.nonresumable_seen, self.plan_outcome,
                cn.c(self.plan_exc), self.failed_pause, tuple(sorted(self.thrown_control)), self.in_call,
                tuple(c.canon(cn) for c in self.checks if hasattr(c, "canon")))

    # ------------------------------------------------------------------
    def on_cut(self, what):
        self.on("cut", what)

    def on_transition(self, fr, to):
        """called synchronously by the state machine model: the moment an interruption takes effect"""
        if to in ("pausing", "suspending"):
            if self.section_nr:
                self.nonresumable_seen = True
        elif to == "aborting":
            e = self.I.getattr(self.sc.re, "_exception")
            if is_exc(self.I, e, "bluesky.utils", "FailedPause") and self.section_nr:
                self.nonresumable_seen = True          # request_suspend refusing to suspend: it aborts directly

    def scan_transitions(self):
        tr = self.eng.ghost.get("transitions", [])
        while self.n_tr < len(tr):
            to = tr[self.n_tr][1]
            self.n_tr += 1
            if to in TERMINAL_STATES:
                self.terminators = self.terminators | {TERMINAL_STATES[to]}

    def on(self, kind, *a):
        I = self.I
        self.scan_transitions()
        if kind == "call":
            self.in_call = a[0]
            if a[0] == "__call__":
                self.reset_call()
                self.in_call = a[0]
        elif kind == "request":
            k = a[0]
            if k in ("abort", "stop", "halt"):
                self.term_requested = self.term_requested | {k}
            else:
                self.interrupters = self.interrupters | {k}
                if self.section_nr:
                    self.nonresumable_seen = True      # requested inside the section (it may take effect later, even after the plan is over)
        elif kind in ("plan-yield", "replay-yield") and a[1].command == "clear_checkpoint":
            self.section_nr = True
        elif kind in ("plan-yield", "replay-yield") and a[1].command == "checkpoint":
            self.section_nr = False
        elif kind == "plan-yield" and a[0] is self.sc.plan and a[1].command in ("pause",):
            self.interrupters = self.interrupters | {"pause-msg"}
        elif kind == "plan-return" and a[0] is self.sc.plan:
            self.plan_outcome = "returned"
        elif kind == "plan-raise" and a[0] is self.sc.plan:
            self.plan_outcome = "raised"
            self.plan_exc = a[1]
        elif kind in ("plan-throw", "plan-throw-unstarted", "replay-raise"):
            e = a[1]
            for nm in ("RequestAbort", "RequestStop", "PlanHalt", "FailedPause"):
                ci = I.P.class_info("bluesky.utils", nm)
                if (isinstance(e, Obj) and e.cls.issubclass(ci)) or e is ci:
                    self.thrown_control = self.thrown_control | {nm}
                    if nm == "FailedPause":
                        self.failed_pause = True
        elif kind == "returned":
            self.in_call = None
        for c in self.checks:
            c(kind, *a)


# ---------------------------------------------------------------------------------------------------------- C07
def c07_checks(sc, tr):
    """lifecycle: L1 a blocking call ends with the engine idle or paused; L2 _run never attempts a transition the table refuses;
    L3 a blocking call is never left waiting with nothing that could wake it"""
    I, w, eng = sc.I, sc.w, sc.eng
    n_refused = [0]

    def check(kind, *a):
        if kind == "returned":
            st = eng.state
            w.check(f"{REQ}#lifecycle[after a blocking call returns or raises the engine is idle or paused]", st in ("idle", "paused"),
                    {"call": a[0], "state": st, "requests": list(sc.requests), "replay": "lifecycle.replay"})
            w.ok(f"{REQ}#lifecycle[a blocking call is never left waiting with nothing that could wake it]")
        refused = eng.ghost.get("refused", [])
        while n_refused[0] < len(refused):
            fr_to = refused[n_refused[0]]
            n_refused[0] += 1
            inside_run = fr_to[2] == "RunEngine._run"
            w.check(f"{REQ}._run#lifecycle[_run itself never attempts a transition that the table refuses]", not inside_run,
                    {"transition": list(fr_to), "requests": list(sc.requests), "replay": "lifecycle.replay"})
    tr.checks.append(check)

    def deadlock(what):
        pending_env = any(not f.done() for f in sc.devfuts) or any(not t.done() for t in sc.loop.timers) or \
            (sc.release is not None and not sc.release.value)
        if not pending_env:
            w.check(f"{REQ}#lifecycle[a blocking call is never left waiting with nothing that could wake it]", False,
                    {"blocked_in": what, "state": eng.state, "requests": list(sc.requests), "replay": "lifecycle.replay"})
    sc.loop.on_deadlock = deadlock


# ---------------------------------------------------------------------------------------------------------- C02
def c02_checks(sc, tr):
    """exit status / reason of runs closed by the epilogue, and what the blocking call raises"""
    I, w, eng = sc.I, sc.w, sc.eng
    rei = I.P.class_info("bluesky.utils", "RunEngineInterrupted")
    control = [I.P.class_info("bluesky.utils", n) for n in ("RequestAbort", "RequestStop", "PlanHalt", "FailedPause")]

    def is_control(e):
        return any((isinstance(e, Obj) and e.cls.issubclass(c)) or e is c for c in control) or I.exc_isinstance(e, "CancelledError")

    def causes():
        """statuses licensed by what happened during this call"""
        allowed = {}
        if "stop" in tr.term_requested:
            allowed["success"] = "RE.stop()"
        if tr.term_requested & {"abort", "halt"}:
            allowed["abort"] = "RE.abort() / RE.halt()"
        if tr.nonresumable_seen:
            allowed["abort"] = "pause / suspension in a non-resumable section"
        if tr.plan_outcome == "returned":
            allowed["success"] = "normal completion"
        if tr.plan_outcome == "raised" and not is_control(tr.plan_exc):
            allowed["fail"] = "unhandled exception"
        return allowed

    def check(kind, *a):
        if kind == "close_run" and "exit_status" in a[1].kwargs:
            b = a[0]
            allowed = causes()
            info = {"status": b.stop["exit_status"], "reason": str(b.stop["reason"]), "allowed": sorted(allowed), "requests": list(sc.requests),
                    "plan": tr.plan_outcome, "replay": "lifecycle.replay"}
            ok = b.stop["exit_status"] in allowed
            if ok and b.stop["exit_status"] == "fail":
                args = tr.plan_exc.attrs.get("args", ()) if isinstance(tr.plan_exc, Obj) else ()
                ok = b.stop["reason"] == (str(args[0]) if len(args) == 1 else "")
            if ok and b.stop["exit_status"] == "abort" and tr.terminators == {"abort"} and tr.term_requested == {"abort"} and not tr.failed_pause and not tr.nonresumable_seen:
                ok = b.stop["reason"] == "because"
            w.check(f"{REQ}._run#ensures[a run still open at the end is closed with the exit status and reason of how the plan ended]", ok, info)
        if kind == "returned" and a[0] in ("__call__", "resume", "abort", "stop", "halt"):
            name, r = a
            if tr.plan_outcome == "raised" and not is_control(tr.plan_exc) and eng.state == "idle" and name in ("__call__", "resume"):
                # failure: the call re-raises the unhandled exception itself
                w.check(f"{REQ}.{name}#raises[after a failure the unhandled exception itself is re-raised]", r[0] == "raise" and r[1] is tr.plan_exc,
                        {"call": name, "raised": repr(r[1]) if r[0] == "raise" else None, "requests": list(sc.requests), "replay": "lifecycle.replay"})
            if name in ("__call__", "resume") and (tr.terminators or tr.failed_pause) and eng.state == "idle" and not (tr.plan_outcome == "raised" and not is_control(tr.plan_exc)):
                w.check(f"{REQ}.{name}#raises[after an interruption RunEngineInterrupted is raised]",
                        r[0] == "raise" and isinstance(r[1], Obj) and r[1].cls.issubclass(rei),
                        {"call": name, "result": repr(r), "requests": list(sc.requests), "plan": tr.plan_outcome, "replay": "lifecycle.replay"})
    tr.checks.append(check)


# ---------------------------------------------------------------------------------------------------------- C08
def c08_checks(sc, tr):
    I, w, eng = sc.I, sc.w, sc.eng
    rei = I.P.class_info("bluesky.utils", "RunEngineInterrupted")

    def check(kind, *a):
        if kind != "returned" or a[0] not in ("__call__", "resume"):
            return
        name, r = a
        st = eng.state
        resumable = I.getattr(sc.re, "_msg_cache") is not None
        open_runs = [b for b in eng.bundlers if b.open]
        info = {"call": name, "state": st, "requests": list(sc.requests), "plan": tr.plan_outcome, "replay": "lifecycle.replay"}
        if r[0] == "ok":
            w.check(f"{REQ}.{name}#ensures[returns normally only when the plan ran to completion and the engine is idle]",
                    st == "idle" and tr.plan_outcome == "returned", info)
        elif isinstance(r[1], Obj) and r[1].cls.issubclass(rei):
            terminated = bool(tr.term_requested) or tr.nonresumable_seen
            paused_ok = st == "paused" and resumable
            term_ok = terminated and st == "idle" and not open_runs
            w.check(f"{REQ}.{name}#raises[RunEngineInterrupted: paused and resumable, or terminated (abort / stop / halt / failed pause): idle with every run closed]",
                    paused_ok or term_ok, dict(info, resumable=resumable, terminated=terminated, open_runs=len(open_runs)))
    tr.checks.append(check)
