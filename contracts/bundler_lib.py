"""Shared harness pieces for the RunBundler / RunEngine contracts: the *assumed* contract of event_model's compose
functions (DESIGN 3, read off event_model 1.24's source, not verified), emit recorders, device fakes, coroutine driver.

event_model contract (A-EVENTMODEL):
  compose_run(uid, event_counters, metadata) -> start doc {uid, time, **metadata}; compose_descriptor / compose_stop bound to it
  compose_descriptor(name, data_keys, ...): doc {run_start = start uid, uid (given or fresh), name, data_keys, ...};
        raises if the name was composed before with other data keys; new name => event_counters[name] = 1
  compose_event(data, timestamps, filled): seq_num = event_counters[name] (KeyError if the counter was removed); doc {uid fresh, descriptor = descriptor uid,
        seq_num, data, timestamps, filled}; raises if the key sets differ from the descriptor's (STREAM: keys aside);
        then event_counters[name] = seq_num + 1              (the dict is shared with RunBundler._sequence_counters)
        compose_event also accepts seq_num= (and uid=, time=): a caller-supplied seq_num REPLACES the counter value and the counter
        is then set to seq_num + 1 - so whoever passes it owns the numbering
  compose_event_page(data, timestamps, [seq_num, filled, uid, time]): all lists of one length n; seq_num = caller's list, else
        [event_counters[name], ..., + n - 1]; same key checks; then event_counters[name] += len(seq_num)
  pack_event_page(*events): lists the events' fields in the order given (ValueError for none)
  compose_stop(exit_status, reason): raises on the second call (poison pill); doc {run_start, exit_status, reason,
        num_events = {k: v - 1 for k, v in event_counters.items()}}
  fresh uids are pairwise distinct (A-UUID; concrete distinct representatives 'uid-N')
"""
from .lib import *
from pyvc.vals import Ready, ExternalRef
from pyvc.stdstubs import PartialVal

MB = "bluesky.bundlers"
EM_ASSUMPTIONS = ["A-EVENTMODEL: compose_run / compose_descriptor / compose_event / compose_stop behave as stated in contracts/bundler_lib.py "
                  "(read from event_model's source; schema validation is assumed effect-free)",
                  "A-UUID: new_uid()/short_uid()/uuid4 return pairwise distinct identifiers (concrete representatives)",
                  "A-TIME; A-LOG (log / doc_logger calls are effect-free)",
                  "emit / emit_sync deliver the document to the dispatcher and do not suspend (`suspends: never`)"]


def docname(x):
    return x.dotted.split(".")[-1] if isinstance(x, ExternalRef) else x


class Env:
    """per-path environment: emitted documents, uid counter, event_model stubs"""

    def __init__(self, I):
        self.I = I
        self.w = I.w
        self.emitted = []          # (name, doc) in emission order
        self.nuid = 0
        w = I.w
        I.call_hooks["bluesky.utils:new_uid"] = lambda I_, f, a, k: ret(self.uid())
        I.call_hooks["bluesky.utils:short_uid"] = lambda I_, f, a, k: ret((a[0] + "-" if a else "") + self.uid())
        w.stubs[(MB, "compose_run")] = native(lambda I_, a, k: self.compose_run(I_, a, k))
        w.stubs[(MB, "doc_logger")] = Opaque("doc_logger", {"noop": True, "default_attr": "method"})
        w.stubs["uuid.uuid4"] = lambda I_, a, k: self.uid()
        w.stubs[(MB, "pack_event_page")] = native(lambda I_, a, k: self.pack_event_page(I_, a))
        w.stubs["event_model.DocumentNames"] = lambda I_, a, k: ExternalRef(f"event_model.DocumentNames.{a[0]}")

        def extattr(I_, obj, name):
            if obj.dotted.startswith("event_model.DocumentNames.") and name in ("value", "name"):
                return obj.dotted.split(".")[-1]
            return NotImplemented
        w.stubs["extattr"] = extattr
        self.validation_error = I.P.external_class("event_model.EventModelValidationError")
        self.value_error = I.P.external_class("event_model.EventModelValueError")
        self.value_error.bases = [BUILTIN_CLASSES["ValueError"]]
        self.value_error._mro = None
        self.model_error = I.P.external_class("event_model.EventModelError")
        self.model_error.bases = [BUILTIN_CLASSES["Exception"]]
        self.model_error._mro = None
        self.validation_error.bases = [BUILTIN_CLASSES["Exception"]]
        self.validation_error._mro = None

    def uid(self):
        self.nuid += 1
        return f"uid-{self.nuid}"

    # ---- emit recorders
    def emit(self):
        def f(I_, a, k):
            self.emitted.append((docname(a[0]), a[1]))
            return Ready(None)
        f._canon_label = "emit"
        return native(f)

    def emit_sync(self):
        def f(I_, a, k):
            self.emitted.append((docname(a[0]), a[1]))
            return None
        f._canon_label = "emit_sync"
        return native(f)

    # ---- event_model
    def pack_event_page(self, I_, events):
        """pack_event_page(*events): the page lists every field of the events in the order given (seq_num, uid, time; data /
        timestamps / filled transposed); ValueError for no events"""
        if not events:
            raise PyRaise(I_.mkexc("ValueError", "pack_event_page() was called with empty *args"))

        def transpose(dicts):
            out = {}
            for row in dicts:
                for key, v in row.items():
                    out.setdefault(key, []).append(v)
            return out
        return {"time": [e["time"] for e in events], "uid": [e["uid"] for e in events], "seq_num": [e["seq_num"] for e in events],
                "descriptor": events[-1]["descriptor"], "filled": transpose([e.get("filled", {}) for e in events]),
                "data": transpose([e["data"] for e in events]), "timestamps": transpose([e["timestamps"] for e in events])}

    def compose_run(self, I_, a, k):
        uid = k.get("uid") or self.uid()
        counters = k.get("event_counters")
        if counters is None:
            counters = {}
        md = k.get("metadata") or {}
        start = {"uid": uid, "time": I_.w.real("t", fresh=True)}
        start.update(md)
        streams = {}
        poison = []
        env = self

        def compose_descriptor(I2, a2, k2):
            names = ["name", "data_keys", "hints", "configuration", "object_keys", "object_classes", "time", "uid", "validate"]
            kw = dict(zip(names, a2))
            kw.update(k2)
            name, data_keys = kw["name"], kw["data_keys"]
            doc = {"configuration": kw.get("configuration") or {}, "data_keys": data_keys, "name": name,
                   "object_keys": kw.get("object_keys") or {}, "run_start": start["uid"], "time": I2.w.real("t", fresh=True),
                   "uid": kw.get("uid") or env.uid(), "hints": kw.get("hints") or {}}
            if name in streams and streams[name] != set(data_keys):
                raise PyRaise(Obj(env.validation_error, {"args": ("descriptor data_keys changed",), "__cause__": None}))
            if name not in streams:
                streams[name] = set(data_keys)
                counters[name] = 1

            def compose_event(I3, a3, k3):
                data, ts = k3["data"], k3["timestamps"]
                filled = k3.get("filled") or {}
                seq = k3.get("seq_num")
                if seq is None:
                    if name not in counters:          # (a caller that lost the stream's counter: event_model's KeyError)
                        raise PyRaise(I3.mkexc("KeyError", name))
                    seq = counters[name]
                ev = {"uid": env.uid(), "time": I3.w.real("t", fresh=True), "data": data, "timestamps": ts, "seq_num": seq,
                      "filled": filled, "descriptor": doc["uid"]}
                plain = {key for key, dk in doc["data_keys"].items() if not (isinstance(dk, dict) and dk.get("external") == "STREAM:")}
                dkeys = {key for key in data if key in plain or key not in doc["data_keys"]}
                tkeys = {key for key in ts if key in plain or key not in doc["data_keys"]}
                if not (plain == dkeys == tkeys) or set(filled) - set(data):
                    raise PyRaise(Obj(env.validation_error, {"args": ("event keys do not match the descriptor",), "__cause__": None}))
                counters[name] = ops.binop("+", seq, 1)
                return ev
            compose_event._canon_label = f"compose_event[{name}]"

            def compose_event_page(I3, a3, k3):
                data, ts = k3["data"], k3["timestamps"]
                filled = k3.get("filled") or {}
                lens = {len(v) for v in data.values()} | {len(v) for v in ts.values()}
                if len(lens) != 1:
                    # (event_model: length_of_value raises EventModelError / AssertionError / StopIteration for ragged or empty pages)
                    raise PyRaise(Obj(env.model_error, {"args": ("event_page contains lists of different lengths or no data",), "__cause__": None}))
                seq = k3.get("seq_num")
                if name not in counters:
                    raise PyRaise(I3.mkexc("KeyError", name))
                if seq is None:
                    seq = [ops.binop("+", counters[name], i) for i in range(lens.pop())]
                npts = len(seq)
                page = {"uid": k3.get("uid") or [env.uid() for _ in range(npts)],
                        "time": k3.get("time") or [I3.w.real("t", fresh=True)] * npts, "data": data, "timestamps": ts,
                        "seq_num": seq, "filled": filled, "descriptor": doc["uid"]}
                plain = {key for key, dk in doc["data_keys"].items() if not (isinstance(dk, dict) and dk.get("external") == "STREAM:")}
                dkeys = {key for key in data if key in plain or key not in doc["data_keys"]}
                tkeys = {key for key in ts if key in plain or key not in doc["data_keys"]}
                if not (plain == dkeys == tkeys) or set(filled) - set(data):
                    raise PyRaise(Obj(env.validation_error, {"args": ("event_page keys do not match the descriptor",), "__cause__": None}))
                counters[name] = ops.binop("+", counters[name], npts)
                return page
            compose_event_page._canon_label = f"compose_event_page[{name}]"
            ce, cp = native(compose_event), native(compose_event_page)
            ce.descriptor_doc = doc
            return Opaque(f"descriptor_bundle[{name}]", {"attrs": {"descriptor_doc": doc, "compose_event": ce, "compose_event_page": cp},
                                                          "iter": lambda I3, o: [doc, ce, cp], "truth": True, "isinstance_default": False})

        def compose_stop(I2, a2, k2):
            if poison:
                raise PyRaise(Obj(env.model_error, {"args": ("Already composed a RunStop document",), "__cause__": None}))
            poison.append(1)
            kw = dict(zip(["exit_status", "reason"], a2))
            kw.update(k2)
            return {"uid": env.uid(), "time": I2.w.real("t", fresh=True), "run_start": start["uid"],
                    "exit_status": kw.get("exit_status", "success"), "reason": kw.get("reason", ""),
                    "num_events": {key: ops.binop("-", v, 1) for key, v in counters.items()}}

        def unmodelled(what):
            def f(I2, a2, k2):
                raise EngineError(f"event_model {what} is not modelled in this harness")
            return native(f)
        return Opaque("run_bundle", {"attrs": {"start_doc": start, "compose_descriptor": native(compose_descriptor),
                                               "compose_stop": native(compose_stop), "compose_resource": unmodelled("compose_resource"),
                                               "compose_stream_resource": unmodelled("compose_stream_resource")},
                                     "truth": True, "isinstance_default": False})


def ret(v):
    return v
    yield


def run_coro(I, coro, on_await=None):
    """drive a coroutine to completion; suspending awaits are answered by `on_await(payload)` -> ('send', v) | ('throw', exc)"""
    tok = ("send", None)
    while True:
        out = coro.resume(tok)
        if out[0] == "return":
            return out[1]
        if out[0] == "await":
            if on_await is None:
                raise EngineError(f"unexpected suspending await of {out[1]!r}")
            tok = on_await(out[1])
            continue
        raise EngineError(f"coroutine yielded {out!r}")


def call_async(I, f, *args, on_await=None, **kwargs):
    """call an async method and run it; -> ('ok', value) | ('raise', exc)"""
    try:
        c = I.call_value(f, *args, **kwargs)
        if isinstance(c, GenObj) and c.is_coro:
            return ("ok", run_coro(I, c, on_await))
        return ("ok", c)
    except PyRaise as pr:
        return ("raise", pr.exc)


def new_bundler(I, env, md=None, record_interruptions=False, strict=False):
    log = Opaque("log", {"noop": True, "default_attr": "method"})
    return construct(I, f"{MB}:RunBundler", md if md is not None else {}, record_interruptions, env.emit(), env.emit_sync(), log,
                     strict_pre_declare=strict)


def opened_bundler(I, env, record_interruptions=False, md=None):
    b = new_bundler(I, env, md, record_interruptions)
    r = call_async(I, I.getattr(b, "open_run"), MsgVal("open_run", None, (), {}, None))
    if r[0] != "ok":
        raise EngineError(f"open_run failed in harness: {r[1]!r}")
    return b, r[1]


def events(env, stream_desc_uid=None):
    return [d for n, d in env.emitted if n == "event" and (stream_desc_uid is None or d["descriptor"] == stream_desc_uid)]
