"""C10 - interrupting a non-resumable section aborts cleanly.

Carriers: RunEngine._clear_checkpoint, _checkpoint, resumable, _run (top-of-loop FailedPause), request_suspend._request_suspend,
_request_pause_coro, _pause - executed symbolically under the asyncio model with an arbitrary plan.

The non-resumable section is taken from the statement: after a clear_checkpoint message and before the next checkpoint message.
Clauses: when a pause or suspension takes effect inside it
  N1  the engine never reaches 'paused'
  N2  no further message of the plan is executed before the plan's cleanup code is entered (an exception is thrown into it)
  N3  the call ends idle with every run closed
  N4  the interruption is reported: the call raises RunEngineInterrupted
and (through the C08 clauses attached to the same scenarios) a pause outside the section still pauses."""
import os

from .t2 import *
from .run_mon2 import c10_checks

PROP = "C10"
TRUSTED = TRUSTED_T2 + [
    "A-ENV: at most one request of another thread is in flight at a time; no new pause / suspension is requested while two or more plans are stacked",
]
NOT_DECIDED = "Pausable devices that veto replay (NoReplayAllowed) are not part of the scenarios"
THOROUGH = os.environ.get("VERIF_TIER") == "thorough"

SCENARIOS = [
    ("custom,clear_checkpoint,checkpoint", "pause", {}),
    ("custom,clear_checkpoint,checkpoint", "suspend", {}),
    ("custom,clear_checkpoint,checkpoint", "pause_defer", {}),
    ("custom,clear_checkpoint,checkpoint,pause", "", {}),
    ("open_run,clear_checkpoint,checkpoint", "pause", {} if THOROUGH else {"max_requests": 2}),
    ("open_run,custom,clear_checkpoint", "suspend", {}),
    ("custom_async,clear_checkpoint", "pause", {}),
    # nothing but an explicit checkpoint ends the section: not a toggle of rewindable, not an implicit checkpoint (stage ...)
    ("clear_checkpoint,rewindable_off,rewindable_on,checkpoint", "pause", {} if THOROUGH else {"max_requests": 2}),
    ("clear_checkpoint,stage,unstage,checkpoint", "pause", {} if THOROUGH else {"max_requests": 2}),
    ("clear_checkpoint,stage,rewindable_off", "suspend", {} if THOROUGH else {"max_requests": 2}),
]
if THOROUGH:
    SCENARIOS += [
        ("custom,clear_checkpoint,checkpoint", "pause,suspend", {"max_requests": 3}),
        ("open_run,close_run,custom,clear_checkpoint,checkpoint", "pause", {"max_requests": 3}),
        ("open_run,custom,clear_checkpoint,checkpoint", "pause", {}),
        ("custom_async,clear_checkpoint,checkpoint", "suspend", {}),
    ]

N3 = f"{REQ}._run#ensures[the call ends idle with every run closed and the plan's cleanup code entered]"
t2_tasks(PROP, "nonresumable", SCENARIOS, [c10_checks, c08_checks], expect=[N3])


def _twin(sc, tr):
    def check(kind, *a):
        if kind == "returned" and a[0] == "__call__" and tr.interrupters and not tr.term_requested:
            sc.w.check("twin:a pause request always leaves the engine paused", sc.eng.state == "paused")
    tr.checks.append(check)


t2_tasks(PROP, "twin", [("custom,clear_checkpoint", "pause", {})], [_twin], twin="twin:a pause request always leaves the engine paused")
