"""C38 - truncate_json_overflow makes any numeric payload JSON-safe without changing safe values.

Carrier: bluesky/utils/__init__.py: truncate_json_overflow (recursive).  Proof by structural induction: the
recursive calls are replaced by the function's own contract (an abstract result that satisfies the
postcondition), mappings / iterables of *arbitrary length* are described by one generic element.
Postcondition, from the statement, with Safe(out, in) defined by cases on the input:
  mapping   -> out is a mapping with the same keys, out[k] = result of the contract on in[k]
  iterable (not str) -> out is a sequence of the same length, out[i] = result of the contract on in[i]
  numeric leaf (Python int/bool/float, numpy integer / floating scalars):
      P1 integral result lies in [-(2**53-1), 2**53-1];  P2 float result is finite or NaN;
      P3 a value already safe (in range if integral, finite or NaN) is returned unchanged (equal value)
  anything else (str, None, ...) -> returned unchanged
Reading of the statement fixed here (and in DESIGN.md): "integral value" is value-based for finite inputs (a float
with zero fractional part counts, as in the function's own docstring); for an *infinite* input only the float clause
P2 is required of the result (the code maps inf to 1.7976e308, a finite float).
"""
from .lib import *
from pyvc.vals import FSpec, GenericColl

PROP = "C38"
F = "bluesky.utils:truncate_json_overflow"
LIM = 2 ** 53 - 1
DBL_MAX = 179769313486231570814527423731704356798070567525844996598917476803157260780028538760589558632766878171540458953514382464234321326889464182768467546703537516986049910576551282076245490090389328944075868508455133942304583236903222948165808559332123348274797826204144723168738177180919299881250404026184124858368
TRUSTED = ["A-REAL: finite floats are mathematical reals with |x| <= DBL_MAX; inf/-inf/nan are explicit tagged values with IEEE comparison semantics",
           "numpy scalar model: np.integer / np.floating scalars are numbers that are not instances of int (float only for np.float64); "
           ".item() returns the equal Python number; iterating an ndarray yields numpy scalars",
           "comprehension over a collection of arbitrary length = pointwise application of the body to a generic element (no cross-iteration state in this function)",
           "container families: dict, Mapping that is not a dict, list, tuple, 1-d ndarray of dtype kind i/u/f/O/U/b; a member is an instance of exactly "
           "the classes listed for its family (every other isinstance test answers False); ndarray.tolist() lists the same items in order"]
NOT_DECIDED = "floating-point rounding inside numpy's own conversions; complex numbers and other exotic numeric types are outside the statement"

NP_INT = ("np.integer", "np.int64", "np.number")
NP_F64 = ("float", "np.floating", "np.float64", "np.number")
NP_F32 = ("np.floating", "np.float32", "np.number")


def install(I, depth_box, calls):
    real = I.get_function(F)

    def hook(I_, f, args, kwargs):
        is_leaf = not isinstance(args[0], (Opaque, GenericColl))
        if depth_box[0] == 0 or (is_leaf and depth_box[0] < 3):
            # top-level call, or a re-dispatch on a *scalar* (e.g. numpy scalar -> Python number): real body
            depth_box[0] += 1
            try:
                return (yield from I_.call_closure(f, args, kwargs))
            finally:
                depth_box[0] -= 1
        # recursive call: the function's own contract (induction hypothesis)
        out = opaque(I_, I_.w.fresh("safe_result"), contract_of=args[0])
        calls.append((args[0], out))
        return out
    I.call_hooks[F] = hook

    def item(I_, o, name):
        if isinstance(o, Sym) and name == "item":
            return native(lambda I2, a, k: Sym(o.t))
        if isinstance(o, FSpec) and name == "item":
            return native(lambda I2, a, k: FSpec(o.kind))
        return NotImplemented
    I.w.stubs[("getattr", "Sym")] = item
    I.w.stubs[("getattr", "FSpec")] = item
    return real


LEAVES = ["int", "bool", "float", "float_inf", "float_ninf", "float_nan", "np_int", "np_f64", "np_f64_inf", "np_f32", "np_f32_inf",
          "np_f32_nan", "str", "none"]


def make_leaf(w, tag):
    import z3
    if tag == "int":
        return w.int("x")
    if tag == "bool":
        return w.bool("x")
    if tag in ("float", "np_f64", "np_f32"):
        x = w.real("x")
        w.add(And(x >= -DBL_MAX, x <= DBL_MAX))
        # IEEE fact: every binary64/binary32 value of magnitude >= 2**52 is an integer
        w.add(Implies(Or(x >= 2 ** 52, x <= -2 ** 52), ops.mk(z3.ToReal(z3.ToInt(x.t)) == x.t)))
        if tag == "np_f64":
            x = Sym(x.t, NP_F64)
            w.inputs["x"] = x
        if tag == "np_f32":
            x = Sym(x.t, NP_F32)
        return x
    if tag == "np_int":
        x = w.int("x")
        w.add(And(x >= -2 ** 63, x <= 2 ** 64 - 1))
        return Sym(x.t, NP_INT)
    if tag.endswith("_inf") or tag.endswith("_ninf") or tag.endswith("_nan"):
        kind = {"inf": "inf", "ninf": "-inf", "nan": "nan"}[tag.rsplit("_", 1)[1]]
        pt = NP_F64 if tag.startswith("np_f64") else NP_F32 if tag.startswith("np_f32") else None
        return FSpec(kind, pt)
    if tag == "str":
        return w.str("x")
    return None


@task("truncate_json_overflow.leaf", PROP, functions=[F],
      expect=["bluesky.utils:truncate_json_overflow#ensures[P1 integral result within +-(2**53-1)]",
              "bluesky.utils:truncate_json_overflow#ensures[P2 float result finite or NaN]",
              "bluesky.utils:truncate_json_overflow#ensures[P3 safe values unchanged]"],
      covers=["out-of-range integer", "infinite float", "numpy integer", "numpy float32"])
def leaf(I):
    import z3
    w = I.w
    calls = []
    f = install(I, [0], calls)
    tag = w.choose(LEAVES, "leaf kind")
    x = make_leaf(w, tag)
    if tag == "np_int":
        w.cover("numpy integer")
    if tag == "np_f32":
        w.cover("numpy float32")
    rp = {"replay": "utils.truncate_leaf", "tag": tag}
    res = catch(I, f, x)
    Q = "bluesky.utils:truncate_json_overflow"
    if res[0] == "raise":
        w.fail(f"{Q}#no-unlicensed-exception", rp)
        return
    out = res[1]
    if tag in ("str", "none"):
        w.check(f"{Q}#ensures[non-numeric leaves returned unchanged]", out is x, rp)
        return
    if isinstance(x, FSpec):
        w.cover("infinite float")
        if x.kind == "nan":
            w.check(f"{Q}#ensures[P3 safe values unchanged]", isinstance(out, FSpec) and out.kind == "nan", rp)
        else:
            finite = isinstance(out, (int, float)) or (isinstance(out, Sym) and out.kind in ("int", "real"))
            w.check(f"{Q}#ensures[P2 float result finite or NaN]", finite, rp)
        return
    if tag == "bool":
        w.check(f"{Q}#ensures[P3 safe values unchanged]", Eq(out, x), rp)
        return
    # finite numeric leaf
    if isinstance(out, FSpec) or out is None or not (isinstance(out, (int, float)) or (isinstance(out, Sym) and out.kind in ("int", "real"))):
        w.fail(f"{Q}#ensures[P2 float result finite or NaN]", rp)
        return
    from pyvc.vals import to_real_term
    xt, ot = to_real_term(x), to_real_term(out)
    x_integral = ops.mk(z3.ToReal(z3.ToInt(xt)) == xt)
    o_integral = ops.mk(z3.ToReal(z3.ToInt(ot)) == ot)
    in_range = And(ops.mk(ot >= -LIM), ops.mk(ot <= LIM))
    x_in_range = And(ops.mk(xt >= -LIM), ops.mk(xt <= LIM))
    if w.feasible(And(x_integral, Not(x_in_range))):
        w.cover("out-of-range integer")
    w.check(f"{Q}#ensures[P1 integral result within +-(2**53-1)]", Implies(o_integral, in_range), rp)
    w.check(f"{Q}#ensures[P2 float result finite or NaN]", And(ops.mk(ot >= -DBL_MAX), ops.mk(ot <= DBL_MAX)), rp)
    w.check(f"{Q}#ensures[P3 safe values unchanged]", Implies(Or(Not(x_integral), x_in_range), ops.mk(ot == xt)), rp)
    w.check(f"{Q}#ensures[out-of-range integral values are clamped to the nearest limit]",
            Implies(And(x_integral, Not(x_in_range)), ops.mk(ot == z3.If(xt > 0, z3.RealVal(LIM), z3.RealVal(-LIM)))), rp)


@task("truncate_json_overflow.containers", PROP, functions=[F],
      expect=["bluesky.utils:truncate_json_overflow#ensures[mapping: same keys, every value through the contract]",
              "bluesky.utils:truncate_json_overflow#ensures[iterable: same length and order, every item through the contract]"])
def containers(I):
    w = I.w
    calls = []
    f = install(I, [0], calls)
    Q = "bluesky.utils:truncate_json_overflow"
    # the families of containers the statement speaks of ("any payload"): a dict, a Mapping that is not a dict (MappingProxyType, ChainMap,
    # a user Mapping), a list, a tuple, a numpy array of any dtype kind; each is an instance of exactly the classes listed for it
    kind = w.choose(["dict", "mapping-not-dict", "list", "tuple", "ndarray"], "container kind")
    k_star = opaque(I, "k*")
    v_star = opaque(I, "v*")
    rp = {"replay": "utils.truncate_container", "kind": kind}
    if kind in ("dict", "mapping-not-dict"):
        data = opaque(I, "data", isinstance={"Mapping": True, "Iterable": True, "str": False, "dict": kind == "dict"}, isinstance_default=False,
                      methods={"items": lambda I_, o, a, k: GenericColl("items", (k_star, v_star), o),
                               "keys": lambda I_, o, a, k: GenericColl("list", k_star, o),
                               "values": lambda I_, o, a, k: GenericColl("list", v_star, o)},
                      iter_generic=lambda I_, o: GenericColl("list", k_star, o))
    else:
        attrs = {}
        if kind == "ndarray":
            dk = w.choose(["i", "u", "f", "O", "U", "b"], "dtype kind")
            rp["dtype"] = dk
            attrs = {"dtype": opaque(I, "dtype", attrs={"kind": dk}, isinstance_default=False), "ndim": 1}
        data = opaque(I, "data", isinstance={"Mapping": False, "Iterable": True, "str": False, "list": kind == "list", "tuple": kind == "tuple",
                                             "ndarray": kind == "ndarray", "Sequence": kind in ("list", "tuple")}, isinstance_default=False,
                      attrs=attrs, methods={"tolist": lambda I_, o, a, k: GenericColl("list", v_star, o)},
                      iter_generic=lambda I_, o: GenericColl("list", v_star, o))
    out = I.call_value(f, data)

    def through_contract(coll_kind, elem):
        """`out` is the pointwise image of `data`: built here from the contract's results, or obtained by applying the function's own
        contract (induction hypothesis) to a view of the same items in the same order"""
        if (isinstance(out, GenericColl) and out.kind == coll_kind and out.source is data and len(calls) == 1 and calls[0][0] is v_star
                and (out.elem[1] if coll_kind == "dict" else out.elem) is calls[0][1] and (coll_kind != "dict" or out.elem[0] is k_star)):
            return True
        return any(r is out and isinstance(a, GenericColl) and a.source is data and a.elem is elem
                   and a.kind == ("items" if coll_kind == "dict" else "list") for a, r in calls) and coll_kind == "list"
    if kind in ("dict", "mapping-not-dict"):
        w.check(f"{Q}#ensures[mapping: same keys, every value through the contract]", through_contract("dict", None), rp)
    else:
        w.check(f"{Q}#ensures[iterable: same length and order, every item through the contract]", through_contract("list", v_star), rp)


@task("truncate_json_overflow.twin", PROP, twin="twin:limit is 2**53")
def twin(I):
    import z3
    w = I.w
    f = install(I, [0], [])
    x = w.int("x")
    out = I.call_value(f, x)
    w.check("twin:limit is 2**53", ops.compare("<", out, 2 ** 53 - 1))


# ================================================================================================ bounded stand-in (native)
SWEEP_BOUND = ("native run of the real truncate_json_overflow (real numpy) on a fixed corpus of ~250 payloads - every leaf kind incl. the extreme values "
               "of the machine integer / float types (int64 min, uint64 max, float16/32/longdouble infinities), arrays of every dtype kind incl. NaN "
               "next to out-of-range values, object arrays, empty and 2-d arrays, nested and non-dict mappings - judged by the statement's clauses")
E_SWEEP = "bounded:C38 the real truncate_json_overflow conforms to the statement on every payload of the corpus"


@task("native.sweep", PROP, bounded=SWEEP_BOUND, expect=[E_SWEEP])
def native_sweep(I):
    """what the symbolic model abstracts away (machine arithmetic of numpy scalars treated as mathematical, bulk array operations outside the
    model) is at least exercised natively; labelled bounded, never counted as proved"""
    import json
    import os
    import subprocess
    from pyvc.runner import ROOT
    env = dict(os.environ, PYTHONPATH=ROOT, VERIF_REPO=os.environ.get("VERIF_REPO", "/repo"))
    try:
        p = subprocess.run(["/venv/bin/python", os.path.join(ROOT, "replay", "truncate_sweep.py"), "sweep"], capture_output=True, text=True,
                           timeout=600, cwd=ROOT, env=env)
    except subprocess.TimeoutExpired:
        raise EngineError("native sweep timed out")
    line = [l for l in p.stdout.splitlines() if l.startswith("SWEEP ")]
    if p.returncode != 0 or not line:
        raise EngineError(f"native sweep failed to run: {(p.stdout + p.stderr)[-800:]}")
    r = json.loads(line[-1][6:])
    if r["payloads"] < 150:
        raise EngineError(f"native sweep covered only {r['payloads']} payloads")
    I.w.check(E_SWEEP, not r["failures"], {"replay": "truncate_sweep.sweep_replay", "failures": r["failures"][:3], "payloads": r["payloads"]})
