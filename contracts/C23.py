"""C23 - paired-action wrappers always undo what they did.

Carriers: bluesky/preprocessors.py: run_wrapper, stage_wrapper, lazily_stage_wrapper, subs_wrapper, suspend_wrapper,
monitor_during_wrapper, fly_during_wrapper (through the real finalize_wrapper / contingency_wrapper / plan_mutator
bodies); bluesky/plan_stubs.py: stage_all, unstage_all, open_run, close_run; bluesky/utils: separate_devices,
root_ancestor, ancestry, normalize_subs_input, ensure_generator, single_gen.
Trace contracts: lock-step bisimulation against references written from the statement (contracts/refs/c23.py): what a
wrapper does on entry is undone exactly once, in reverse order, on every exit except close()/halt; run_wrapper's
close_run carries the status matching the outcome.  The wrapped plan is abstract (arbitrary messages over a small
device universe with shared ancestors), every driver script.  Device / signal / subscription lists are concrete
small shapes: those tasks are labelled bounded in the list length (the per-element loops are not cut by an invariant).
"""
import os

from .lib import *
from pyvc.bisim import Bisim, reference_module, ABS_EXC

PROP = "C23"
MP = "bluesky.preprocessors"
MS = "bluesky.plan_stubs"
TRUSTED = ["closure keys are shallow for this check (frames of anonymous `yield from` sub-generators are not part of a cut key; see setup())", "A-PLAN (@plan transparent); abstract plans obey the generator protocol and do not yield while being closed",
           "driver vocabulary: send(v) (v arbitrary; for a 'stage' message None or the list [device]), throw(Exception / "
           "RunEngineControlException instance), close(), throw(GeneratorExit-subclass instance)",
           "uuid4 group identifiers: the k-th identifier requested is the same abstract token on both sides (fresh, opaque)",
           "isinstance(response, Status) is an arbitrary boolean per response",
           "set iteration order of identical insertion histories is the same (subs_wrapper unsubscribes in set order)",
           "the RunEngine's response to 'stage' is None or a list containing exactly the staged root"]
NOT_DECIDED = "what the RunEngine does with the messages (C06/C41); run keys on inserted messages; pseudo-positioner parents"
REF_FILE = "contracts/refs/c23.py"
REF = open(os.path.join(os.path.dirname(os.path.dirname(os.path.abspath(__file__))), REF_FILE)).read()
BOUND = "list length: at most 3 devices / 2 signals / 2 subscriptions (plans and driver scripts unbounded)"
KF_LAZY = "C23-lazily-stage-restages-shared-root"


def dev(name, parent=None):
    return Opaque(name, {"token": "dev", "attrs": {"parent": parent, "name": name}, "isinstance_default": False, "truth": True})


def sent_value(w, last):
    """driver responses: arbitrary token whose Status-ness is an arbitrary boolean; for 'stage' None or [device]"""
    if isinstance(last, MsgVal) and last.command == "stage":
        if w.choose(["None", "[device]"], "response to stage") == "None":
            return None, "None"
        return [last.obj], "[device]"
    return Opaque(w.fresh("v"), {"token": "sent", "isinstance": {"Status": "sym"}, "isinstance_default": False}), "v"


def setup(I, name, cfg=None, **kw):
    kw.setdefault("driver", ("send", "throw", "close", "throw_genexit"))   # falsy responses: see sent_value (None for 'stage')
    b = Bisim(I, name, replay="generators.script" if cfg else None,
              cfg=dict(cfg, module=MP, ref_file=REF_FILE) if cfg else None, **kw)
    b.send_factory = sent_value
    # cut keys do not descend into anonymous `yield from` sub-generators here (the product graph of the paired-action wrappers over several
    # devices exceeds the budget otherwise); the wrappers' nested generators (finalize / contingency / plan_mutator frames) are reached through
    # named locals, which the keys do include
    b.deep_keys = False
    # precondition for this property: a plan that is being closed / halted does not raise a *different* exception
    # (the wrappers delegate through several generator layers; which layer turns such an exception into a RuntimeError
    # is not part of the statement, which excludes close/halt from the exits with cleanup)
    b.oracle.opt_filter = lambda g, tok, opts: [o for o in opts if not (o == "raise" and "raise_same" in opts and "yield" not in opts)]
    return b, reference_module(I.P, "verif_ref_c23", REF)


def control_exc_classes(I):
    return [ABS_EXC, I.P.class_info("bluesky.utils", "RequestAbort"), I.P.class_info("bluesky.utils", "RequestStop")]


# ------------------------------------------------------------------------------------------------ run_wrapper
@task("run_wrapper", PROP, functions=[f"{MP}:run_wrapper", f"{MP}:run_wrapper.except_plan", f"{MP}:contingency_wrapper", f"{MS}:open_run", f"{MS}:close_run"],
      expect=[f"{MP}:run_wrapper#trace[same calls on the wrapped generators]",
              f"{MP}:run_wrapper#outcome[same yield / return / raise at every step]"],
      covers=[f"{MP}:run_wrapper: closed at an established cut point", f"{MP}:run_wrapper: terminated by raise",
              f"{MP}:run_wrapper: terminated by return"])
def run_wrapper(I):
    w = I.w
    with_md = w.choose([True, False], "md given")
    b, ref = setup(I, f"{MP}:run_wrapper", {
        "objects": {"plan": "gen", "md": ["val", {"purpose": "x"}] if with_md else "none"},
        "impl_build": "run_wrapper(plan, md=md)", "ref_build": "ref_run_wrapper(plan, md)",
        "throw_cls": "bluesky.utils:RequestAbort"},
        throw_classes=control_exc_classes(I), exc_classes=control_exc_classes(I))
    md = {"purpose": "x"} if with_md else None
    Pi, Pr = b.absgen_pair("plan")
    impl = I.call_value(I.get_function(f"{MP}:run_wrapper"), Pi, md=md)
    rg = I.call_value(I.global_lookup(ref, "ref_run_wrapper"), Pr, md)
    b.run(impl, rg)


# ------------------------------------------------------------------------------------------------ stage_all / unstage_all
def _mk_stage_all(fname, n):
    @task(f"{fname}[n={n}]", PROP, functions=[f"{MS}:{fname}"], bounded=BOUND,
          expect=[f"{MS}:{fname}#outcome[same yield / return / raise at every step] (n={n})"])
    def t(I):
        w = I.w
        b, ref = setup(I, f"{MS}:{fname}")
        b.name = f"{MS}:{fname}"
        devs = [dev(f"d{i}") for i in range(n)]
        given = w.choose([False, True], "group given")
        grp = "g" if given else None
        impl = I.call_value(I.get_function(f"{MS}:{fname}"), *devs, group=grp)
        gref = grp if given else b_shared_uuid(b)
        rg = I.call_value(I.global_lookup(ref, "ref_" + fname), devs, gref)
        b.run(impl, rg)
        # suffix the obligation names with the shape
        for r in w.results:
            if r.name.startswith(f"{MS}:{fname}#"):
                r.name += f" (n={n})"


def b_shared_uuid(b):
    """the reference's group: the string of the first uuid the implementation requests"""
    from pyvc.builtins_ import str_of
    b.current = b.ref
    u = b.fresh_shared("uuid", lambda n: Opaque(f"uuid{n}", {"token": "uuid", "isinstance_default": False}))
    return str_of(b.I, u)


for _f in ("stage_all", "unstage_all"):
    for _n in (0, 1, 2, 3):
        _mk_stage_all(_f, _n)


# ------------------------------------------------------------------------------------------------ stage_wrapper
def device_universe():
    R = dev("R")
    A = dev("A", R)
    B = dev("B", R)
    X = dev("X")
    return {"R": R, "A": A, "B": B, "X": X}


STAGE_LISTS = [[], ["X"], ["A"], ["A", "B"], ["A", "R"], ["R", "A"], ["X", "A"], ["A", "X", "B"], ["X", "X"]]


def _mk_stage_wrapper(names):
    label = ",".join(names) or "-"

    @task(f"stage_wrapper[{label}]", PROP, functions=[f"{MP}:stage_wrapper", f"{MP}:finalize_wrapper", f"{MS}:stage_all", f"{MS}:unstage_all",
                                                      "bluesky.utils:separate_devices", "bluesky.utils:root_ancestor", "bluesky.utils:ancestry"],
          bounded=BOUND, expect=[f"{MP}:stage_wrapper#outcome[same yield / return / raise at every step] ({label})"])
    def t(I):
        w = I.w
        b, ref = setup(I, f"{MP}:stage_wrapper")
        U = device_universe()
        devs = [U[n] for n in names]
        Pi, Pr = b.absgen_pair("plan")
        impl = I.call_value(I.get_function(f"{MP}:stage_wrapper"), Pi, list(devs))
        rg = I.call_value(I.global_lookup(ref, "ref_stage_wrapper"), Pr, list(devs))
        b.run(impl, rg)
        for r in w.results:
            if r.name.startswith(f"{MP}:stage_wrapper#"):
                r.name += f" ({label})"


for _l in STAGE_LISTS:
    _mk_stage_wrapper(_l)


# ------------------------------------------------------------------------------------------------ lazily_stage_wrapper
def plan_messages(U, commands):
    def factory(w, gname, k):
        cmd = w.choose(commands, f"{gname}#{k} command")
        obj = U[w.choose(sorted(U), f"{gname}#{k} object")] if cmd != "null" else None
        return MsgVal(cmd, obj, (), {}, None)
    return factory


@task("lazily_stage_wrapper", PROP, functions=[f"{MP}:lazily_stage_wrapper", f"{MP}:lazily_stage_wrapper.inner", f"{MP}:plan_mutator",
                                               f"{MP}:finalize_wrapper", f"{MS}:unstage_all", "bluesky.utils:root_ancestor"],
      expect=[f"{MP}:lazily_stage_wrapper#trace[same calls on the wrapped generators]",
              f"{MP}:lazily_stage_wrapper#outcome[same yield / return / raise at every step]"],
      covers=[f"{MP}:lazily_stage_wrapper: closed at an established cut point"])
def lazily_stage_wrapper(I):
    w = I.w
    U = device_universe()
    del U["X"]                    # one root with two children, and the root itself
    b, ref = setup(I, f"{MP}:lazily_stage_wrapper", None, msg_factory=plan_messages(U, ["read", "null"]), allow_reyield=False,
                   canon_exclude=[(f"{MP}:plan_mutator", "msgs_seen")] + [(f"{MP}:plan_mutator", v) for v in
                                  ("msg", "inner_ret", "new_gen", "tail_gen", "exhausted_gen", "failed_gen", "gen", "saved_result", "e", "ex")],
                   max_steps=400)
    b.dead_stacks = [(f"{MP}:plan_mutator", "result_stack")]
    b.replay = "generators_c23.lazily"
    Pi, Pr = b.absgen_pair("plan")
    impl = I.call_value(I.get_function(f"{MP}:lazily_stage_wrapper"), Pi)
    rg = I.call_value(I.global_lookup(ref, "ref_lazily_stage_wrapper"), Pr)
    b.run(impl, rg)


# ------------------------------------------------------------------------------------------------ subs / suspend wrappers
def _mk_subs(shape):
    label = str(shape)

    @task(f"subs_wrapper[{label}]", PROP, functions=[f"{MP}:subs_wrapper", f"{MP}:finalize_wrapper", "bluesky.utils:normalize_subs_input"],
          bounded=BOUND, expect=[f"{MP}:subs_wrapper#outcome[same yield / return / raise at every step] ({label})"])
    def t(I):
        w = I.w
        b, ref = setup(I, f"{MP}:subs_wrapper")
        f1 = native(lambda I_, a, k: None)
        f1._canon_label = "cb1"
        f2 = native(lambda I_, a, k: None)
        f2._canon_label = "cb2"
        subs = {"all": [f1][:shape[0]], "event": [f1, f2][:shape[1]]}
        subs = {k: v for k, v in subs.items() if v}
        norm = I.call_value(I.get_function("bluesky.utils:normalize_subs_input"), dict(subs))
        Pi, Pr = b.absgen_pair("plan")
        impl = I.call_value(I.get_function(f"{MP}:subs_wrapper"), Pi, dict(subs))
        rg = I.call_value(I.global_lookup(ref, "ref_subs_wrapper"), Pr, norm)
        b.run(impl, rg)
        for r in w.results:
            if r.name.startswith(f"{MP}:subs_wrapper#"):
                r.name += f" ({label})"


for _s in ((0, 0), (1, 0), (0, 2), (1, 1)):
    _mk_subs(_s)


def _mk_suspend(n):
    @task(f"suspend_wrapper[n={n}]", PROP, functions=[f"{MP}:suspend_wrapper", f"{MP}:finalize_wrapper"], bounded=BOUND,
          expect=[f"{MP}:suspend_wrapper#outcome[same yield / return / raise at every step] (n={n})"])
    def t(I):
        w = I.w
        b, ref = setup(I, f"{MP}:suspend_wrapper")
        susp = [Opaque(f"s{i}", {"token": "susp", "isinstance": {"Iterable": False}, "isinstance_default": False}) for i in range(max(n, 1))]
        arg = susp[0] if n == 0 else susp[:n]       # n == 0 stands for "a single suspender, not in a list"
        Pi, Pr = b.absgen_pair("plan")
        impl = I.call_value(I.get_function(f"{MP}:suspend_wrapper"), Pi, arg)
        rg = I.call_value(I.global_lookup(ref, "ref_suspend_wrapper"), Pr, [susp[0]] if n == 0 else susp[:n])
        b.run(impl, rg)
        for r in w.results:
            if r.name.startswith(f"{MP}:suspend_wrapper#"):
                r.name += f" (n={n})"


for _n in (0, 1, 2):
    _mk_suspend(_n)


# ------------------------------------------------------------------------------------------------ monitor_during / fly_during
def _mk_during(kind, n):
    fn = f"{kind}_during_wrapper"

    @task(f"{fn}[n={n}]", PROP, functions=[f"{MP}:{fn}", f"{MP}:plan_mutator", "bluesky.utils:ensure_generator", "bluesky.utils:single_gen"],
          bounded=BOUND, expect=[f"{MP}:{fn}#outcome[same yield / return / raise at every step] (n={n})"], path_cap=400000, timeout_s=2400)
    def t(I):
        w = I.w
        objs = [dev(f"sig{i}") for i in range(n)]
        U = {"sigX": dev("sigX")}
        dead = [(f"{MP}:plan_mutator", v) for v in ("msg", "inner_ret", "new_gen", "tail_gen", "exhausted_gen", "failed_gen", "gen", "saved_result", "e", "ex")]
        b, ref = setup(I, f"{MP}:{fn}", None, msg_factory=plan_messages(U, ["open_run", "close_run", "null"]), allow_reyield=False,
                       canon_exclude=[(f"{MP}:plan_mutator", "msgs_seen")] + dead, max_steps=400)
        b.dead_stacks = [(f"{MP}:plan_mutator", "result_stack")]
        if True:      # both tiers (modular: callers are checked against the callee contract; the body of plan_mutator is C20 / C21's)
            # callee's contract instead of callee's body: plan_mutator is replaced by its reference generator, proved
            # equivalent under C21 for processors that answer (None, None) on inserted messages - which
            # insert_after_open / insert_before_close do (they only react to open_run / close_run, and the re-yielded
            # original message is skipped by identity).  (Running the real plan_mutator body underneath as well - once the thorough tier - exceeded every budget and added nothing the modular argument lacks.)
            c21 = reference_module(I.P, "verif_ref_c21", open(os.path.join(os.path.dirname(os.path.dirname(os.path.abspath(__file__))), "contracts/refs/c21.py")).read())
            refpm = I.global_lookup(c21, "ref_plan_mutator")
            I.call_hooks[f"{MP}:plan_mutator"] = lambda I_, f, a, k: I_.call(refpm, a, k)
            b.canon_exclude = tuple(b.canon_exclude) + (("verif_ref_c21:ref_plan_mutator", "seen"),) + tuple(
                ("verif_ref_c21:ref_plan_mutator", v) for v in ("m", "t", "e", "stop", "via_throw", "msg"))
        w.stubs[("bluesky.preprocessors", "_short_uid")] = native(lambda I_, a, k: a[0] + "-uid")
        if kind == "monitor":
            after = [MsgVal("monitor", s, (), {"name": "sig%d_monitor" % i}, None) for i, s in enumerate(objs)]
            for i, s in enumerate(objs):
                s.spec["attrs"]["name"] = f"sig{i}"
            before = [MsgVal("unmonitor", s, (), {}, None) for s in objs]
        else:
            g1, g2 = "flyers-kickoff-uid", "flyers-complete-uid"
            after = [MsgVal("kickoff", s, (), {"group": g1}, None) for s in objs] + ([MsgVal("wait", None, (), {"group": g1}, None)] if objs else [])
            before = ([MsgVal("complete", s, (), {"group": g2}, None) for s in objs] + ([MsgVal("wait", None, (), {"group": g2}, None)] if objs else [])
                      + [MsgVal("collect", s, (), {}, None) for s in objs])
        Pi, Pr = b.absgen_pair("plan")
        impl = I.call_value(I.get_function(f"{MP}:{fn}"), Pi, list(objs))
        rg = I.call_value(I.global_lookup(ref, "ref_during_wrapper"), Pr, after, before)
        b.run(impl, rg)
        for r in w.results:
            if r.name.startswith(f"{MP}:{fn}#"):
                r.name += f" (n={n})"


for _k in ("monitor", "fly"):
    for _n in (0, 1, 2):
        _mk_during(_k, _n)
