"""C22 - cleanup wrappers run their cleanup exactly once on every exit path.

Carriers: bluesky/preprocessors.py: finalize_wrapper, finalize_decorator (dec / dec_inner), contingency_wrapper
(+ bluesky/utils: ensure_generator, single_gen; plan_stubs.pause when pause_for_debug).
Trace contract (DESIGN 2.5): the real wrapper and a reference generator written with Python's own
try/except/else/finally (contracts/refs/c22.py) are driven in lock step by every driver script (send /
throw(Exception) / close() / throw(GeneratorExit subclass, i.e. RunEngine halt)); the wrapped plan and the cleanup /
except / else plans are abstract generators answering from one shared oracle.  Obligations: same calls on every
sub-generator (so the cleanup plan is started exactly when the reference starts it: once after return / exception /
stop-abort signal, never on close) and the same yield / return value / raised exception at every step.  Unbounded in
the length of the plans and of the driver script (co-inductive closure at joint yield points).
"""
import os

from .lib import *
from pyvc.bisim import Bisim, reference_module, ABS_EXC, ABS_BASE_EXC

PROP = "C22"
MP = "bluesky.preprocessors"
TRUSTED = ["A-PLAN: the @plan decorator is transparent (Plan objects delegate iteration/send/throw/close to the generator)",
           "abstract sub-generators follow the generator protocol and do not yield while being closed (precondition of the property's "
           "'behaviour when closed': otherwise both sides raise RuntimeError)",
           "driver vocabulary: send(v), throw(e) with e an Exception instance, close(), throw(x) with x a GeneratorExit-subclass instance; "
           "the first input is send(None)",
           "generator expressions are evaluated eagerly by the interpreter (A-GENEXP); garbage-collection-time effects are not observed"]
NOT_DECIDED = "what the RunEngine does with the messages (C06/C02); cleanup plans that themselves misbehave while being closed"
REF_FILE = "contracts/refs/c22.py"
REF = open(os.path.join(os.path.dirname(os.path.dirname(os.path.abspath(__file__))), REF_FILE)).read()


def callable_pair(b, name):
    """a generator *function*: every call returns a fresh abstract generator (the k-th call on either side returns
    the k-th generator of the pair list, so the two sides correspond by call order)"""
    pairs = []

    def mk(idx, side):
        calls = [0]

        def f(I_, a, k):
            n = calls[0]
            calls[0] += 1
            while len(pairs) <= n:
                p = b.absgen_pair(f"{name}@{len(pairs)}" if pairs else name)
                p[0].canon_name = p[1].canon_name = name
                pairs.append(p)
            side.log.append((name + "()", n, "call", tuple(a)))
            return pairs[n][idx]
        f._canon_label = name
        return native(f)
    return mk(0, b.impl), mk(1, b.ref)


def setup(I, name, cfg):
    cfg = dict(cfg, module=MP, ref_file=REF_FILE)
    # (exceptions thrown in: an Exception, and a BaseException that is neither an Exception nor a GeneratorExit - Python's
    # `except Exception` must not see the latter, `finally` must)
    # ... and the RunEngine's own stop / abort signals (the statement names them), which are Exceptions like any other for the wrappers
    ctl = [I.P.class_info("bluesky.utils", "RequestAbort"), I.P.class_info("bluesky.utils", "RequestStop")]
    b = Bisim(I, name, replay="generators.script", cfg=cfg, throw_classes=[ABS_EXC, ABS_BASE_EXC] + ctl)
    ref = reference_module(I.P, "verif_ref_c22", REF)
    return b, ref


@task("finalize_wrapper", PROP, functions=[f"{MP}:finalize_wrapper", "bluesky.utils:ensure_generator"],
      expect=[f"{MP}:finalize_wrapper#trace[same calls on the wrapped generators]",
              f"{MP}:finalize_wrapper#outcome[same yield / return / raise at every step]"],
      covers=[f"{MP}:finalize_wrapper: closed at an established cut point", f"{MP}:finalize_wrapper: terminated by return",
              f"{MP}:finalize_wrapper: terminated by raise"])
def finalize_wrapper(I):
    w = I.w
    as_callable = w.choose([False, True], "final_plan is a generator function")
    pfd = w.choose([False, True], "pause_for_debug")
    b, ref = setup(I, f"{MP}:finalize_wrapper", {
        "objects": {"plan": "gen", "final_plan": "fn" if as_callable else "gen"},
        "impl_build": f"finalize_wrapper(plan, final_plan, pause_for_debug={pfd})",
        "ref_build": f"ref_finalize(plan, final_plan, {pfd})"})
    Pi, Pr = b.absgen_pair("plan")
    Fi, Fr = callable_pair(b, "final_plan") if as_callable else b.absgen_pair("final_plan")
    impl = I.call_value(I.get_function(f"{MP}:finalize_wrapper"), Pi, Fi, pause_for_debug=pfd)
    rg = I.call_value(I.global_lookup(ref, "ref_finalize"), Pr, Fr, pfd)
    b.run(impl, rg)


@task("finalize_decorator", PROP, functions=[f"{MP}:finalize_decorator", f"{MP}:finalize_decorator.dec", f"{MP}:finalize_decorator.dec.dec_inner"],
      expect=[f"{MP}:finalize_decorator#trace[same calls on the wrapped generators]",
              f"{MP}:finalize_decorator#outcome[same yield / return / raise at every step]"])
def finalize_decorator(I):
    w = I.w
    ok_callable = w.choose([True, False], "final_plan callable")
    b, ref = setup(I, f"{MP}:finalize_decorator", {
        "objects": {"gen_func": "fn", "final_plan": "fn" if ok_callable else "gen", "arg": "tok"},
        "impl_build": "finalize_decorator(final_plan)(gen_func)(arg, key=arg)",
        "ref_build": "ref_finalize_decorated(gen_func, final_plan, (arg,), {'key': arg})"})
    Gi, Gr = callable_pair(b, "gen_func")
    Fi, Fr = callable_pair(b, "final_plan") if ok_callable else b.absgen_pair("final_plan")
    arg = opaque(I, "arg", token="arg")
    # the decorated function is a generator *function*: it can be called any number of times, each call an independent
    # wrapped plan with its own cleanup.  Two consecutive invocations are driven (the second starts from the state the
    # first left behind in the decorator's closure).
    made = catch(I, lambda: None) if False else None
    try:
        dec = I.call_value(I.get_function(f"{MP}:finalize_decorator"), Fi)
        inner = I.call_value(dec, Gi)
    except PyRaise as pr:
        inner = None
        early = pr.exc
    for round_ in (1, 2):
        b.script.append(f"--- invocation {round_}")
        try:
            if inner is None:
                raise PyRaise(early)
            impl = I.call_value(inner, arg, key=arg)
        except PyRaise as pr:
            # raising at decoration / call time instead of at the first send is observationally the same for a
            # consumer that iterates the plan immediately: model it as a generator that raises on the first send
            impl = I.call_value(I.global_lookup(ref, "ref_raise_now"), pr.exc)
        rg = I.call_value(I.global_lookup(ref, "ref_finalize_decorated"), Gr, Fr, (arg,), {"key": arg})
        b.run(impl, rg)
        if not (getattr(impl, "done", False)):
            return        # the first invocation was left suspended at a closed cut point: nothing more to compare


@task("contingency_wrapper", PROP, functions=[f"{MP}:contingency_wrapper"],
      expect=[f"{MP}:contingency_wrapper#trace[same calls on the wrapped generators]",
              f"{MP}:contingency_wrapper#outcome[same yield / return / raise at every step]"],
      covers=[f"{MP}:contingency_wrapper: closed at an established cut point"])
def contingency_wrapper(I):
    w = I.w
    given = {nm: w.choose([True, False], f"{nm} given") for nm in ("except_plan", "else_plan", "final_plan")}
    ar = w.choose([True, False], "auto_raise")
    pfd = w.choose([False, True], "pause_for_debug")
    objs = {"plan": "gen"}
    objs.update({nm: ("fn" if g else "none") for nm, g in given.items()})
    b, ref = setup(I, f"{MP}:contingency_wrapper", {
        "objects": objs,
        "impl_build": f"contingency_wrapper(plan, except_plan=except_plan, else_plan=else_plan, final_plan=final_plan, "
                      f"pause_for_debug={pfd}, auto_raise={ar})",
        "ref_build": f"ref_contingency(plan, except_plan, else_plan, final_plan, {pfd}, {ar})"})
    Pi, Pr = b.absgen_pair("plan")
    kwi, kwr = {}, {}
    for nm, g in given.items():
        kwi[nm], kwr[nm] = callable_pair(b, nm) if g else (None, None)
    impl = I.call_value(I.get_function(f"{MP}:contingency_wrapper"), Pi, auto_raise=ar, pause_for_debug=pfd, **kwi)
    rg = I.call_value(I.global_lookup(ref, "ref_contingency"), Pr, kwr["except_plan"], kwr["else_plan"], kwr["final_plan"], pfd, ar)
    b.run(impl, rg)


# must-fail twin: a reference that also runs the cleanup when the wrapper is closed must be told apart
TWIN_REF = '''
def ref_cleanup_on_close(plan, final_plan):
    try:
        ret = yield from plan
    finally:
        yield from final_plan
    return ret
'''


@task("finalize_wrapper.twin", PROP, twin="twin:finalize_wrapper#trace[same calls on the wrapped generators]")
def finalize_twin(I):
    b = Bisim(I, "twin:finalize_wrapper")
    ref = reference_module(I.P, "verif_ref_c22_twin", TWIN_REF)
    Pi, Pr = b.absgen_pair("plan")
    Fi, Fr = b.absgen_pair("final_plan")
    impl = I.call_value(I.get_function(f"{MP}:finalize_wrapper"), Pi, Fi)
    rg = I.call_value(I.global_lookup(ref, "ref_cleanup_on_close"), Pr, Fr)
    b.run(impl, rg)
