"""C21 - plan_mutator inserts head/tail messages exactly as documented.

Carrier: bluesky/preprocessors.py: plan_mutator.  Trace contract: lock-step bisimulation against the reference
generator transcribed from the statement (contracts/refs/c21.py); the host plan, every head and every tail are
abstract generators, the processor is an abstract function of the message identity returning one of
(None, None) / (head, None) / (None, tail) / (head, tail).
Clauses: (a) the host receives the response to head's last message, (b) tail runs right after head, responses
swallowed, (c) inserted messages are not re-processed, (d) exceptions raised while running head or tail reach the host
at the original yield.  Preconditions: head yields at least one message when given; processors do not raise.
"""
import os

from .lib import *
from pyvc.bisim import Bisim, reference_module

PROP = "C21"
MP = "bluesky.preprocessors"
TRUSTED = ["abstract plans obey the generator protocol, do not yield while being closed; head plans yield at least one message",
           "driver vocabulary: send(v), throw(Exception instance), close(), throw(GeneratorExit-subclass instance); first input send(None)",
           "throw()/close() on a generator that was never started is unobservable (runs none of its code)",
           "id() injective on live objects; processors are functions of the message identity and do not raise"]
NOT_DECIDED = "processors that raise; head plans that yield nothing (the statement does not say what the host receives)"
REF_FILE = "contracts/refs/c21.py"
REF = open(os.path.join(os.path.dirname(os.path.dirname(os.path.abspath(__file__))), REF_FILE)).read()
KF = "C21-inserted-messages-reprocessed"
# locals that are dead at the cut point (the suspended `yield`): every continuation overwrites them before reading.
# Part of the cut invariant; keeps the canonical state space small.
DEAD = [(f"{MP}:plan_mutator", v) for v in ("msg", "inner_ret", "new_gen", "tail_gen", "exhausted_gen", "failed_gen", "gen",
                                            "saved_result", "e", "ex")] + \
       [("verif_ref_c21:ref_plan_mutator", v) for v in ("m", "t", "e", "stop", "via_throw", "msg")]


def processor(b, decisions, consulted_inserted, side_name):
    """abstract msg_proc: decision per message identity, shared by both sides; head/tail generators per side"""
    w = b.w

    def proc(I_, a, k):
        msg = a[0]
        inserted = isinstance(msg, Opaque) and msg.name.split("!")[0].startswith(("m_head", "m_tail"))
        if inserted:
            # the statement says the processor is not consulted for inserted messages
            if side_name == "impl":
                consulted_inserted.append(msg)
            return (None, None)       # listed known-finding case excluded: an inserting answer here would recurse
        key = id(msg)
        if key not in decisions:
            kind = w.choose(["none", "head", "tail", "both"], "msg_proc answer")
            n = len(decisions)
            pairs = {}
            if kind in ("head", "both"):
                pairs["head"] = b.absgen_pair(f"head{n}")
            if kind in ("tail", "both"):
                pairs["tail"] = b.absgen_pair(f"tail{n}")
            for nm, (gi, gr) in pairs.items():
                gi.canon_name = gr.canon_name = nm
            decisions[key] = (kind, pairs, msg)
        kind, pairs, _ = decisions[key]
        idx = 0 if side_name == "impl" else 1
        return (pairs["head"][idx] if "head" in pairs else None, pairs["tail"][idx] if "tail" in pairs else None)
    proc._canon_label = "msg_proc"
    return native(proc)


def msg_factory(w, gname, k):
    return Opaque(w.fresh(f"m_{gname}"), {"token": "msg"})


@task("plan_mutator[inserting]", PROP, functions=[f"{MP}:plan_mutator", "bluesky.utils:single_gen"],
      expect=[f"{MP}:plan_mutator#trace[same calls on the wrapped generators]",
              f"{MP}:plan_mutator#outcome[same yield / return / raise at every step]",
              f"{MP}:plan_mutator#ensures[processor not consulted for inserted messages]"],
      covers=[f"{MP}:plan_mutator: closed at an established cut point", "head and tail inserted"])
def plan_mutator_inserting(I):
    w = I.w
    b = Bisim(I, f"{MP}:plan_mutator", replay="generators_c21.script", msg_factory=msg_factory,
              cfg={"module": MP, "ref_file": REF_FILE},
              canon_exclude=[(f"{MP}:plan_mutator", "msgs_seen"), ("verif_ref_c21:ref_plan_mutator", "seen")] + DEAD, max_steps=2000)
    ref = reference_module(I.P, "verif_ref_c21", REF)
    # precondition: a head plan yields at least one message
    b.oracle.opt_filter = lambda g, tok, opts: [o for o in opts if not (g.name.startswith("head") and not g.started and o in ("return", "raise"))]
    decisions = {}
    consulted = []

    # cut invariant: entries of tail_cache / tail_result_cache keyed by the id of a *finished* generator are dead
    # (lookups only use generators just popped from plan_stack; a finished generator is never pushed again)
    def live_only(cn, d):
        ids = I.w.ghost.get("$ids", {})
        return {k: v for k, v in d.items() if not getattr(ids.get(k[1]) if isinstance(k, tuple) else None, "done", False)}
    b.canon_filters = {(f"{MP}:plan_mutator", "tail_cache"): live_only, (f"{MP}:plan_mutator", "tail_result_cache"): live_only}
    # cut invariant: at the suspended yield every entry of result_stack is dead (each later pop is preceded by a push made
    # after the yield; the code leaks stale entries at the bottom).  Checked dynamically by the engine (floor check).
    b.dead_stacks = [(f"{MP}:plan_mutator", "result_stack")]
    b.extra = lambda: {"decisions": [k for k, _, _ in decisions.values()]}
    Pi, Pr = b.absgen_pair("plan")
    impl = I.call_value(I.get_function(f"{MP}:plan_mutator"), Pi, processor(b, decisions, consulted, "impl"))
    rg = I.call_value(I.global_lookup(ref, "ref_plan_mutator"), Pr, processor(b, decisions, consulted, "ref"))
    # decisions must be part of the cut key: which heads/tails exist is already visible through the stacks
    b.run(impl, rg)
    if any(k == "both" for k, _, _ in decisions.values()):
        w.cover("head and tail inserted")
    info = b.info("msg_proc was called for a message yielded by an inserted head/tail plan")
    info["replay"] = "generators_c21.consulted"
    w.check_kf(f"{MP}:plan_mutator#ensures[processor not consulted for inserted messages]", len(consulted) == 0, KF, True, info)
