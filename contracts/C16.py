"""C16 - descriptors carry the device configuration current when they were made.

Carriers: bluesky/bundlers.py: RunBundler._cache_read_config, _cache_describe_config, _prepare_stream, configure,
monitor (+ its emit_event closure), save, declare_stream, collect (+ _describe_collect, _collect_events, _collect_event_pages,
_pack_external_assets); bluesky/run_engine.py: RunEngine._configure.
Clauses: a descriptor records, for every object of its stream, the configuration values / timestamps / keys cached
*at the time it is made*; configure(obj) re-reads obj's configuration and, for every stream containing obj, emits a new
descriptor with the new configuration and unchanged data keys, and every later event of that stream - bundled (save)
or monitored (the subscription callback) - references the new descriptor; streams without obj are untouched.

The statement quantifies over plans interleaving configure with the events of *every* stream containing the object.  The
`program[...]` tasks therefore run the real message handlers (RunEngine._configure -> RunBundler.configure, create / read /
save / drop, declare_stream, monitor + its callback, kickoff / collect with _collect_events / _collect_event_pages /
_describe_collect) over generated programs and judge every emitted document with the monitor of replay/c16_spec.py, which
is the statement written once for both the symbolic and the native side:
  * the first configure arrives at every kind of point in the life of the object: never seen, read in a dropped bundle
    (cached, no descriptor yet), saved, pre-declared, in two streams, monitored, saved + monitored; before the first collect /
    after a collect of a flyer that is pre-declared (collected with and without name=) or old-style (nested describe_collect,
    two streams), yielding events, event pages, or - a detector writing stream assets - stream_datums;
  * afterwards every stream emits again (bundles, monitor ticks, collects), a second configure (the same object, another
    object of the stream, both, twice in a row) follows and every stream emits once more; configuration values are symbolic
    and change at every configure (obj.configure is called by the real RunEngine._configure);
  * after every action all descriptors emitted so far must still hold the configuration they were emitted with.
"""
from .lib import *
from .re_lib import *
from .C15 import device, reading
from replay import c16_spec as S

PROP = "C16"
Q = f"{MB}:RunBundler"
TRUSTED = EM_ASSUMPTIONS + ["devices: read_configuration() / describe_configuration() return arbitrary mappings (symbolic values); "
                            "subscribe() only registers the callback (the harness calls it to model a signal update)",
                            "a device's configuration changes only inside its configure() (called by RunEngine._configure, which is executed); "
                            "configure() returns the (old, new) pair",
                            "flyers: collect() / collect_pages() yield a concrete number of partial events / pages (2 per stream / 1 per stream) "
                            "with symbolic cells; iterate_maybe_async yields exactly the items of its argument; maybe_collect_asset_docs(msg, obj, index) "
                            "yields the documents of obj.collect_asset_docs(index) for a detector writing stream assets (one stream_resource once, one "
                            "stream_datum of two frames per collect) and nothing for other objects; itertools.combinations is the standard one; "
                            "async for (pyvc) runs over the finite sequence its stubbed producer returns",
                            "program shapes are enumerated (histories x second configure, see the module docstring); one configuration key per object"]
NOT_DECIDED = ("plans outside the enumerated program shapes (longer interleavings are covered only in so far as every handler re-reads "
               "self._descriptors[name] at emission time, which is what the programs exercise after one and after two configures); "
               "several stream-asset detectors collected together; a monitor callback called with readings; what the caller does with the "
               "(old, new) pair returned by RunEngine._configure; "
               "an object that belongs to streams of several simultaneously open runs: RunEngine._configure tells only the run of the message, "
               "so the descriptors of the other run keep the old configuration (observed natively; multi-run plans are outside the statement's quantifier)")


def cfg_device(I, w, b, name, keys, conf_holder):
    d = Opaque(name, {"token": "dev", "attrs": {"name": name, "hints": {"fields": list(keys)}}, "truth": True, "hasattr": {"hints": True},
                      "isinstance": {"Configurable": True, "Collectable": False, "Subscribable": True, "Readable": True}, "isinstance_default": False,
                      "methods": {"read_configuration": lambda I_, o, a, k: {"gain": {"value": conf_holder["gain"], "timestamp": conf_holder["ts"]}},
                                  "describe_configuration": lambda I_, o, a, k: {"gain": {"dtype": "number", "shape": [], "source": name}},
                                  "describe": lambda I_, o, a, k: {kk: {"dtype": "number", "shape": [], "source": name} for kk in keys},
                                  "subscribe": lambda I_, o, a, k: conf_holder.setdefault("callbacks", []).append(a[0]),
                                  "clear_sub": lambda I_, o, a, k: conf_holder.__setitem__("callbacks", [c for c in conf_holder.get("callbacks", []) if c is not a[0]]),
                                  "read": lambda I_, o, a, k: {kk: {"value": I_.w.real(f"mon_{kk}", fresh=True), "timestamp": I_.w.real("mon_ts", fresh=True)} for kk in keys}}})
    return d


def setup(I):
    w = I.w
    env = Env(I)
    b, uid = opened_bundler(I, env)
    w.stubs[(MB, "maybe_collect_asset_docs")] = native(lambda I_, a, k: [])
    w.stubs[(MB, "maybe_update_hints")] = native(lambda I_, a, k: None)
    w.stubs[(MB, "check_supports")] = native(lambda I_, a, k: a[0])
    w.stubs["asyncio.gather"] = lambda I_, a, k: Ready([run_coro(I_, c) if isinstance(c, GenObj) else c for c in a])
    return env, b


@task("configure", PROP, functions=[f"{Q}.configure", f"{Q}._cache_read_config", f"{Q}._cache_describe_config", f"{Q}._cache_describe",
                                    f"{Q}._ensure_cached", f"{Q}._prepare_stream", f"{Q}.monitor", f"{Q}.monitor.emit_event", f"{Q}.save"],
      expect=[f"{Q}._prepare_stream#ensures[descriptor configuration = the object's configuration cached when it is made]",
              f"{Q}.configure#ensures[new descriptor with the new configuration and unchanged data keys for every stream containing the object]",
              f"{Q}.configure#ensures[later bundled events of the stream reference the new descriptor]",
              f"{Q}.configure#ensures[later monitor events of the stream reference the new descriptor]",
              f"{Q}.configure#ensures[streams without the object are untouched]"])
def configure(I):
    w = I.w
    env, b = setup(I)
    conf = {"gain": w.real("det_gain0"), "ts": w.real("det_ts0")}
    det = cfg_device(I, w, b, "det", ["x"], conf)
    other_conf = {"gain": w.real("other_gain0"), "ts": w.real("other_ts0")}
    other = cfg_device(I, w, b, "other", ["y"], other_conf)
    # the same scenario as a program for the native replay (replay/c16_spec.py), judged there by the clause named in `clause`
    prog = [["bundle", "primary", ["det"]], ["bundle", "aux", ["other"]], ["monitor", "det", "mon"], ["configure", "det"],
            ["bundle", "primary", ["det"]], ["tick", "det"]]

    def rp_(clause, upto):
        return {"replay": "bundler.configure_program", "program": prog[:upto], "flyer": None, "clause": clause}
    rp = rp_(S.DESC, 3)
    # stream 'primary' (bundled, contains det), stream 'mon' (monitor of det), stream 'aux' (contains only `other`)
    for name, dv in (("primary", det), ("aux", other)):
        call_async(I, I.getattr(b, "create"), MsgVal("create", None, (), {"name": name}, None))
        rd = dv.spec["methods"]["read"](I, dv, (), {})
        call_async(I, I.getattr(b, "read"), MsgVal("read", dv, (), {}, None), rd)
        r = call_async(I, I.getattr(b, "save"), MsgVal("save", None, (), {}, None))
        if r[0] != "ok":
            raise EngineError(f"harness save failed: {r[1].attrs}")
    r = call_async(I, I.getattr(b, "monitor"), MsgVal("monitor", det, (), {"name": "mon"}, None))
    if r[0] != "ok":
        raise EngineError(f"harness monitor failed: {r[1].attrs}")
    descs0 = {d["name"]: d for n, d in env.emitted if n == "descriptor"}
    w.check(f"{Q}._prepare_stream#ensures[descriptor configuration = the object's configuration cached when it is made]",
            And(set(descs0) == {"primary", "aux", "mon"},
                Eq(descs0["primary"]["configuration"]["det"]["data"]["gain"], conf["gain"]),
                Eq(descs0["primary"]["configuration"]["det"]["timestamps"]["gain"], conf["ts"]),
                Eq(descs0["aux"]["configuration"]["other"]["data"]["gain"], other_conf["gain"]),
                set(descs0["primary"]["configuration"]["det"]["data_keys"]) == {"gain"}), rp)
    # the device is re-configured
    conf["gain"], conf["ts"] = w.real("det_gain1"), w.real("det_ts1")
    rp = rp_(S.CONF, 4)
    env.emitted.clear()
    r = call_async(I, I.getattr(b, "configure"), MsgVal("configure", det, (), {}, None))
    new = {d["name"]: d for n, d in env.emitted if n == "descriptor"}
    ok = r[0] == "ok" and set(new) == {"primary", "mon"} and all(n == "descriptor" for n, d in env.emitted) and len(env.emitted) == 2
    w.check(f"{Q}.configure#ensures[new descriptor with the new configuration and unchanged data keys for every stream containing the object]",
            And(ok, *([Eq(new[s]["configuration"]["det"]["data"]["gain"], conf["gain"]) for s in new]
                      + [set(new[s]["data_keys"]) == set(descs0[s]["data_keys"]) for s in new]
                      + [new[s]["uid"] != descs0[s]["uid"] for s in new] if ok else [False])), rp)
    w.check(f"{Q}.configure#ensures[streams without the object are untouched]",
            "aux" not in new and b._descriptors["aux"].attrs["descriptor_doc"] is descs0["aux"], rp)
    n_b, n_m = (f"{Q}.configure#ensures[later bundled events of the stream reference the new descriptor]",
                f"{Q}.configure#ensures[later monitor events of the stream reference the new descriptor]")
    if not ok:
        # some stream containing the object has no new descriptor: its later events cannot reference one
        w.fail(n_b, rp_(S.CONF, 4))
        w.fail(n_m, rp_(S.CONF, 4))
        return
    # a later bundled event
    rp = rp_(S.EV_B, 5)
    env.emitted.clear()
    call_async(I, I.getattr(b, "create"), MsgVal("create", None, (), {"name": "primary"}, None))
    call_async(I, I.getattr(b, "read"), MsgVal("read", det, (), {}, None), det.spec["methods"]["read"](I, det, (), {}))
    call_async(I, I.getattr(b, "save"), MsgVal("save", None, (), {}, None))
    evs = [d for n, d in env.emitted if n == "event"]
    w.check(f"{Q}.configure#ensures[later bundled events of the stream reference the new descriptor]",
            len(evs) == 1 and evs[0]["descriptor"] == new["primary"]["uid"] and [n for n, d in env.emitted] == ["event"], rp)
    # a later monitor update: the subscription callback fires
    rp = rp_(S.EV_M, 6)
    env.emitted.clear()
    cbs = conf.get("callbacks", [])
    if len(cbs) != 1:
        w.fail(f"{Q}.configure#ensures[later monitor events of the stream reference the new descriptor]", rp)
        return
    I.call_value(cbs[0])
    evs = [d for n, d in env.emitted if n == "event"]
    w.check(f"{Q}.configure#ensures[later monitor events of the stream reference the new descriptor]",
            len(evs) == 1 and evs[0]["descriptor"] == new["mon"]["uid"], rp)


# ---------------------------------------------------------------------------------------------------------------------
# generated programs judged by the shared monitor (replay/c16_spec.py)

DK = {"dtype": "number", "shape": [], "source": "sim"}
FLY_KEYS = {"fly": ["fx", "fz"], "fly2": ["fy"]}


class Prog:
    """runs a program (see replay/c16_spec.py) on the real handlers; every document goes through the monitor"""

    def __init__(self, I, flyer=None, judge=True):
        self.I, self.w, self.judge = I, I.w, judge
        w = I.w
        self.env, self.b = setup(I)
        w.stubs[(MB, "iterate_maybe_async")] = native(lambda I_, a, k: list(a[0]))
        w.stubs["itertools.combinations"] = lambda I_, a, k: [tuple(c) for c in __import__("itertools").combinations(list(a[0]), a[1])]
        w.stubs[(MB, "StreamRange")] = native(lambda I_, a, k: dict(k))
        w.stubs[(MB, "EventModelValueError")] = self.env.value_error

        def asset_docs(I_, a, k):
            # maybe_collect_asset_docs(msg, obj, index=...): the documents of obj.collect_asset_docs(index) when obj writes assets, else none
            m = a[1].spec.get("methods", {}).get("collect_asset_docs")
            return list(m(I_, a[1], (k.get("index"),), {})) if m else []
        w.stubs[(MB, "maybe_collect_asset_docs")] = native(asset_docs)
        self.re =make_re(I, self.env, _run_bundlers={None: self.b})
        self.program = []
        self.flyer = flyer         # None | {"kind": "events"|"pages"|"assets", "describe": "flat"|"nested"}
        self.spec = S.Spec(eq=Eq, conj=lambda cs: And(*cs), report=self.report)
        self.holders, self.devs = {}, {}
        for name, keys in (("det", ["x"]), ("other", ["y"])):
            self.add_device(name, keys)
        if flyer:
            self.add_device("fly", [], flyer)

    def report(self, clause, cond, detail):
        if not self.judge:
            return      # (the must-fail twin states its own, deliberately wrong, clause)
        self.w.check(clause, cond, {"replay": "bundler.configure_program", "program": [list(a) for a in self.program], "flyer": self.flyer})

    def add_device(self, name, keys, flyer=None):
        w, spec = self.w, self.spec
        h = self.holders[name] = {"n": 0, "gain": w.real(f"{name}_gain0"), "ts": w.real(f"{name}_ts0"), "callbacks": []}
        spec.device_reports(name, {"gain": (h["gain"], h["ts"])})

        def read_configuration(I_, o, a, k):
            return {"gain": {"value": h["gain"], "timestamp": h["ts"]}}

        def configure(I_, o, a, k):
            old = read_configuration(I_, o, a, k)
            h["n"] += 1
            h["gain"], h["ts"] = w.real(f"{name}_gain{h['n']}"), w.real(f"{name}_ts{h['n']}")
            spec.device_reports(name, {"gain": (h["gain"], h["ts"])})
            return (old, read_configuration(I_, o, a, k))
        methods = {"read_configuration": read_configuration, "configure": configure,
                   "describe_configuration": lambda I_, o, a, k: {"gain": dict(DK)},
                   "describe": lambda I_, o, a, k: {kk: dict(DK) for kk in keys},
                   "subscribe": lambda I_, o, a, k: h["callbacks"].append(a[0]),
                   "clear_sub": lambda I_, o, a, k: h.__setitem__("callbacks", [c for c in h["callbacks"] if c is not a[0]]),
                   "read": lambda I_, o, a, k: {kk: {"value": I_.w.real(f"{kk}_v", fresh=True), "timestamp": I_.w.real(f"{kk}_t", fresh=True)} for kk in keys}}
        isa = {"Configurable": True, "Collectable": False, "Subscribable": True, "Readable": True}
        if flyer:
            streams = FLY_KEYS if flyer["describe"] == "nested" else {"fly": FLY_KEYS["fly"]}
            isa = {"Configurable": True, "Collectable": True, "Flyable": True, "Readable": False, "Subscribable": False, "WritesStreamAssets": False,
                   "EventCollectable": flyer["kind"] == "events", "EventPageCollectable": flyer["kind"] == "pages"}
            cell = lambda I_, kk: I_.w.real(f"{kk}_c", fresh=True)
            methods["describe_collect"] = (lambda I_, o, a, k: {s: {kk: dict(DK) for kk in ks} for s, ks in streams.items()}) if flyer["describe"] == "nested" \
                else (lambda I_, o, a, k: {kk: dict(DK) for kk in streams["fly"]})
            # two partial events per stream, interleaved / one page of two rows per stream
            methods["collect"] = lambda I_, o, a, k: [{"data": {kk: cell(I_, kk) for kk in ks}, "timestamps": {kk: cell(I_, kk) for kk in ks}, "time": cell(I_, "t")}
                                                      for _ in range(2) for s, ks in streams.items()]
            methods["collect_pages"] = lambda I_, o, a, k: [{"data": {kk: [cell(I_, kk), cell(I_, kk)] for kk in ks}, "timestamps": {kk: [cell(I_, kk), cell(I_, kk)] for kk in ks},
                                                             "time": [cell(I_, "t"), cell(I_, "t")]} for s, ks in streams.items()]
            if flyer["kind"] == "assets":
                # a detector writing stream assets (one external data key): a stream_resource once, then one stream_datum of two frames per collect
                st = {"first": True, "idx": 0}
                ext = dict(DK, dtype="array", shape=[1], external="STREAM:")
                isa.update({"WritesStreamAssets": True, "Flyable": True})
                methods["describe_collect"] = lambda I_, o, a, k: {"fx": dict(ext)}
                methods["get_index"] = lambda I_, o, a, k: st["idx"] + 2

                def collect_asset_docs(I_, o, a, k):
                    out = [("stream_resource", {"uid": "sr-fx", "data_key": "fx", "mimetype": "x", "uri": "file://x", "parameters": {}})] if st["first"] else []
                    out.append(("stream_datum", {"uid": f"sr-fx/{st['idx']}", "stream_resource": "sr-fx", "descriptor": "",
                                                 "indices": {"start": st["idx"], "stop": st["idx"] + 2}, "seq_nums": {"start": 0, "stop": 0}}))
                    st["first"], st["idx"] = False, st["idx"] + 2
                    return out
                methods["collect_asset_docs"] = collect_asset_docs
                del methods["collect"], methods["collect_pages"]
        self.devs[name] = Opaque(name, {"token": "dev", "attrs": {"name": name, "hints": {"fields": list(keys)}}, "truth": True, "hasattr": {"hints": True},
                                        "isinstance": isa, "isinstance_default": False, "methods": methods})

    # ---- one action
    def _msg(self, command, obj=None, args=(), **kwargs):
        r = call_async(self.I, self.I.getattr(self.b, command), MsgVal(command, obj, tuple(args), kwargs, None))
        return r

    def _run(self, a):
        I, b, D = self.I, self.b, self.devs
        if a[0] in ("bundle", "dropped"):
            steps = [lambda: self._msg("create", name=a[1])]
            for o in a[2]:
                steps.append(lambda o=o: call_async(I, I.getattr(b, "read"), MsgVal("read", D[o], (), {}, None), D[o].spec["methods"]["read"](I, D[o], (), {})))
            steps.append(lambda: self._msg("save" if a[0] == "bundle" else "drop"))
        elif a[0] == "declare":
            steps = [lambda: self._msg("declare_stream", None, [D[o] for o in a[2]], name=a[1])]
        elif a[0] == "declare_fly":
            steps = [lambda: self._msg("declare_stream", None, [D[a[2]]], name=a[1], collect=True)]
        elif a[0] == "monitor":
            steps = [lambda: self._msg("monitor", D[a[1]], name=a[2])]
        elif a[0] == "tick":
            steps = [lambda cb=cb: catch(I, cb) for cb in list(self.holders[a[1]]["callbacks"])]
        elif a[0] == "collect":
            steps = [lambda: self._msg("kickoff", D[a[1]]), lambda: self._msg("collect", D[a[1]], **({"name": a[2]} if a[2] else {}))]
        elif a[0] == "configure":
            n = self.holders[a[1]]["n"] + 1
            steps = [lambda: call_async(I, I.getattr(self.re, "_configure"), MsgVal("configure", D[a[1]], (n,), {}, None))]
        else:
            raise EngineError(f"unknown action {a}")
        for st in steps:
            r = st()
            if r[0] != "ok":
                exc = r[1]
                return f"{getattr(getattr(exc, 'cls', None), 'name', type(exc).__name__)}{getattr(exc, 'attrs', {}).get('args', '')!r}"[:200]
        return None

    def do(self, *action):
        a = list(action)
        self.program.append(a)
        n0 = len(self.env.emitted)
        self.spec.begin(a)
        raised = self._run(a)
        for name, doc in self.env.emitted[n0:]:
            self.spec.doc(name, doc)
        self.spec.end(raised)

    def run(self, actions):
        for a in actions:
            self.do(*a)


PRIMARY, AUX, SIDE = ["bundle", "primary", ["det", "other"]], ["bundle", "aux", ["det"]], ["bundle", "side", ["other"]]
HISTORIES = {
    "never seen": [],
    "read in a dropped bundle": [["dropped", "primary", ["det", "other"]]],
    "saved": [PRIMARY],
    "pre-declared, no event yet": [["declare", "primary", ["det", "other"]]],
    "pre-declared and saved": [["declare", "primary", ["det", "other"]], PRIMARY],
    "saved on two streams": [PRIMARY, AUX],
    "dropped on one stream, saved on another": [["dropped", "primary", ["det", "other"]], AUX],
    "monitored": [["monitor", "det", "mon"], ["tick", "det"]],
    "saved and monitored": [PRIMARY, ["monitor", "det", "mon"], ["tick", "det"]],
}
SECOND = {"the same object": [["configure", "det"]], "another object of the stream": [["configure", "other"]],
          "twice in a row": [["configure", "det"], ["configure", "det"]], "both objects": [["configure", "other"], ["configure", "det"]]}
BUNDLE_CLAUSES = [S.DESC, S.KEYS, S.CONF, S.EV_B, S.EV_M, S.QUIET, S.FROZEN]


def _bundles(second):
    @task(f"program[bundles and monitors; second configure: {second}]", PROP,
          functions=[f"{RE}._configure", f"{Q}.configure", f"{Q}._cache_read_config", f"{Q}._cache_describe_config", f"{Q}._cache_describe", f"{Q}._ensure_cached",
                     f"{Q}._prepare_stream", f"{Q}.declare_stream", f"{Q}.create", f"{Q}.read", f"{Q}.save", f"{Q}.drop", f"{Q}.monitor", f"{Q}.monitor.emit_event"],
          expect=BUNDLE_CLAUSES, bounded=None)
    def t(I):
        w = I.w
        h = w.choose(list(HISTORIES), "history of the object before its first configure")
        p = Prog(I)
        p.run([SIDE] + HISTORIES[h])
        monitored = any(a[0] == "monitor" for a in HISTORIES[h])
        p.do("configure", "det")
        # every stream emits again; the monitor of the other histories starts now (its descriptor is made after the configure)
        p.run([PRIMARY, AUX, SIDE] + ([] if monitored else [["monitor", "det", "mon"]]) + [["tick", "det"]])
        p.run(SECOND[second])
        p.run([["tick", "det"], PRIMARY, AUX, SIDE, ["tick", "det"], PRIMARY])
    return t


for _s in SECOND:
    _bundles(_s)

FLY_HIST = {"before the first collect": [], "after a collect": ["collect"]}
COLLECT_CLAUSES = [S.DESC, S.KEYS, S.CONF, S.EV_C, S.EV_B, S.FROZEN]


def _collects(kind, how):
    nested = how == "old-style nested describe_collect"
    streams = ["fly", "fly2"] if nested else ["fly"]
    collect = ["collect", "fly", "fly" if how == "pre-declared, collect with name=" else None, streams]

    @task(f"program[collect; {kind}; {how}]", PROP,
          functions=[f"{RE}._configure", f"{Q}.configure", f"{Q}._cache_read_config", f"{Q}._ensure_cached", f"{Q}._prepare_stream", f"{Q}.declare_stream",
                     f"{Q}.kickoff", f"{Q}.collect", f"{Q}._pack_external_assets",
                     f"{Q}._format_datakeys_with_stream_name", f"{Q}.save"] + ([f"{Q}._describe_collect", f"{Q}._cache_describe_collect"] if nested else [])
          + {"events": [f"{Q}._collect_events"], "pages": [f"{Q}._collect_event_pages"], "assets": [f"{Q}._pack_seq_nums_into_stream_datum", f"{Q}.get_external_data_keys"]}[kind],
          expect=COLLECT_CLAUSES + ([] if nested else [S.QUIET]))
    def t(I):
        w = I.w
        h = w.choose(list(FLY_HIST), "history of the flyer before its first configure")
        p = Prog(I, flyer={"kind": kind, "describe": "nested" if nested else "flat"})
        step = ["bundle", "primary", ["det"]]
        p.run([step] + ([] if nested else [["declare_fly", "fly", "fly"]]) + [collect for _ in FLY_HIST[h]])
        p.run([["configure", "fly"], collect, step, collect])
        p.run([["configure", "fly"], ["configure", "det"], collect, step, ["configure", "fly"], collect])
    return t


for _k in ("events", "pages", "assets"):
    for _h in ("pre-declared, collect with name=", "pre-declared, collect without name=", "old-style nested describe_collect"):
        if not (_k == "assets" and _h.startswith("old-style")):      # (stream assets need a pre-declared stream)
            _collects(_k, _h)


@task("program.twin", PROP, twin="twin:events after a configure keep referencing the stream's first descriptor")
def twin(I):
    p = Prog(I, judge=False)
    p.run([PRIMARY, ["configure", "det"]])
    first = [d for n, d in p.env.emitted if n == "descriptor" and d["name"] == "primary"][0]
    p.do(*PRIMARY)
    ev = [d for n, d in p.env.emitted if n == "event"][-1]
    I.w.check("twin:events after a configure keep referencing the stream's first descriptor", ev["descriptor"] == first["uid"])
