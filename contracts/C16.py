"""C16 - descriptors carry the device configuration current when they were made.

Carriers: bluesky/bundlers.py: RunBundler._cache_read_config, _cache_describe_config, _prepare_stream, configure,
monitor (+ its emit_event closure), save.
Clauses: a descriptor records, for every object of its stream, the configuration values / timestamps / keys cached
*at the time it is made*; configure(obj) re-reads obj's configuration and, for every stream containing obj, emits a new
descriptor with the new configuration and unchanged data keys, and every later event of that stream - bundled (save)
or monitored (the subscription callback) - references the new descriptor; streams without obj are untouched.
"""
from .lib import *
from .re_lib import *
from .C15 import device, reading

PROP = "C16"
Q = f"{MB}:RunBundler"
TRUSTED = EM_ASSUMPTIONS + ["devices: read_configuration() / describe_configuration() return arbitrary mappings (symbolic values); "
                            "subscribe() only registers the callback (the harness calls it to model a signal update)"]
NOT_DECIDED = "collect streams (flyers) after configure; what the RunEngine's _configure does with the (old, new) pair"


def cfg_device(I, w, b, name, keys, conf_holder):
    d = Opaque(name, {"token": "dev", "attrs": {"name": name, "hints": {"fields": list(keys)}}, "truth": True, "hasattr": {"hints": True},
                      "isinstance": {"Configurable": True, "Collectable": False, "Subscribable": True, "Readable": True}, "isinstance_default": False,
                      "methods": {"read_configuration": lambda I_, o, a, k: {"gain": {"value": conf_holder["gain"], "timestamp": conf_holder["ts"]}},
                                  "describe_configuration": lambda I_, o, a, k: {"gain": {"dtype": "number", "shape": [], "source": name}},
                                  "describe": lambda I_, o, a, k: {kk: {"dtype": "number", "shape": [], "source": name} for kk in keys},
                                  "subscribe": lambda I_, o, a, k: conf_holder.setdefault("callbacks", []).append(a[0]),
                                  "clear_sub": lambda I_, o, a, k: conf_holder.__setitem__("callbacks", [c for c in conf_holder.get("callbacks", []) if c is not a[0]]),
                                  "read": lambda I_, o, a, k: {kk: {"value": I_.w.real(f"mon_{kk}", fresh=True), "timestamp": I_.w.real("mon_ts", fresh=True)} for kk in keys}}})
    return d


def setup(I):
    w = I.w
    env = Env(I)
    b, uid = opened_bundler(I, env)
    w.stubs[(MB, "maybe_collect_asset_docs")] = native(lambda I_, a, k: [])
    w.stubs[(MB, "maybe_update_hints")] = native(lambda I_, a, k: None)
    w.stubs[(MB, "check_supports")] = native(lambda I_, a, k: a[0])
    w.stubs["asyncio.gather"] = lambda I_, a, k: Ready([run_coro(I_, c) if isinstance(c, GenObj) else c for c in a])
    return env, b


@task("configure", PROP, functions=[f"{Q}.configure", f"{Q}._cache_read_config", f"{Q}._cache_describe_config", f"{Q}._cache_describe",
                                    f"{Q}._ensure_cached", f"{Q}._prepare_stream", f"{Q}.monitor", f"{Q}.monitor.emit_event", f"{Q}.save"],
      expect=[f"{Q}._prepare_stream#ensures[descriptor configuration = the object's configuration cached when it is made]",
              f"{Q}.configure#ensures[new descriptor with the new configuration and unchanged data keys for every stream containing the object]",
              f"{Q}.configure#ensures[later bundled events of the stream reference the new descriptor]",
              f"{Q}.configure#ensures[later monitor events of the stream reference the new descriptor]",
              f"{Q}.configure#ensures[streams without the object are untouched]"])
def configure(I):
    w = I.w
    env, b = setup(I)
    conf = {"gain": w.real("gain0"), "ts": w.real("gain0_ts")}
    det = cfg_device(I, w, b, "det", ["x"], conf)
    other_conf = {"gain": w.real("other_gain"), "ts": w.real("other_ts")}
    other = cfg_device(I, w, b, "other", ["y"], other_conf)
    rp = {"replay": "bundler.configure"}
    # stream 'primary' (bundled, contains det), stream 'mon' (monitor of det), stream 'aux' (contains only `other`)
    for name, dv in (("primary", det), ("aux", other)):
        call_async(I, I.getattr(b, "create"), MsgVal("create", None, (), {"name": name}, None))
        rd = dv.spec["methods"]["read"](I, dv, (), {})
        call_async(I, I.getattr(b, "read"), MsgVal("read", dv, (), {}, None), rd)
        r = call_async(I, I.getattr(b, "save"), MsgVal("save", None, (), {}, None))
        if r[0] != "ok":
            raise EngineError(f"harness save failed: {r[1].attrs}")
    r = call_async(I, I.getattr(b, "monitor"), MsgVal("monitor", det, (), {"name": "mon"}, None))
    if r[0] != "ok":
        raise EngineError(f"harness monitor failed: {r[1].attrs}")
    descs0 = {d["name"]: d for n, d in env.emitted if n == "descriptor"}
    w.check(f"{Q}._prepare_stream#ensures[descriptor configuration = the object's configuration cached when it is made]",
            And(set(descs0) == {"primary", "aux", "mon"},
                Eq(descs0["primary"]["configuration"]["det"]["data"]["gain"], conf["gain"]),
                Eq(descs0["primary"]["configuration"]["det"]["timestamps"]["gain"], conf["ts"]),
                Eq(descs0["aux"]["configuration"]["other"]["data"]["gain"], other_conf["gain"]),
                set(descs0["primary"]["configuration"]["det"]["data_keys"]) == {"gain"}), rp)
    # the device is re-configured
    conf["gain"], conf["ts"] = w.real("gain1"), w.real("gain1_ts")
    env.emitted.clear()
    r = call_async(I, I.getattr(b, "configure"), MsgVal("configure", det, (), {}, None))
    new = {d["name"]: d for n, d in env.emitted if n == "descriptor"}
    ok = r[0] == "ok" and set(new) == {"primary", "mon"} and all(n == "descriptor" for n, d in env.emitted) and len(env.emitted) == 2
    w.check(f"{Q}.configure#ensures[new descriptor with the new configuration and unchanged data keys for every stream containing the object]",
            And(ok, *([Eq(new[s]["configuration"]["det"]["data"]["gain"], conf["gain"]) for s in new]
                      + [set(new[s]["data_keys"]) == set(descs0[s]["data_keys"]) for s in new]
                      + [new[s]["uid"] != descs0[s]["uid"] for s in new] if ok else [False])), rp)
    w.check(f"{Q}.configure#ensures[streams without the object are untouched]",
            "aux" not in new and b._descriptors["aux"].attrs["descriptor_doc"] is descs0["aux"], rp)
    if not ok:
        return
    # a later bundled event
    env.emitted.clear()
    call_async(I, I.getattr(b, "create"), MsgVal("create", None, (), {"name": "primary"}, None))
    call_async(I, I.getattr(b, "read"), MsgVal("read", det, (), {}, None), det.spec["methods"]["read"](I, det, (), {}))
    call_async(I, I.getattr(b, "save"), MsgVal("save", None, (), {}, None))
    evs = [d for n, d in env.emitted if n == "event"]
    w.check(f"{Q}.configure#ensures[later bundled events of the stream reference the new descriptor]",
            len(evs) == 1 and evs[0]["descriptor"] == new["primary"]["uid"] and [n for n, d in env.emitted] == ["event"], rp)
    # a later monitor update: the subscription callback fires
    env.emitted.clear()
    cbs = conf.get("callbacks", [])
    if len(cbs) != 1:
        w.fail(f"{Q}.configure#ensures[later monitor events of the stream reference the new descriptor]", rp)
        return
    I.call_value(cbs[0])
    evs = [d for n, d in env.emitted if n == "event"]
    w.check(f"{Q}.configure#ensures[later monitor events of the stream reference the new descriptor]",
            len(evs) == 1 and evs[0]["descriptor"] == new["mon"]["uid"], rp)
