"""C02 - exit status, reason and raised exception reflect how the run ended.

Carriers: RunEngine._run (exception ladder and epilogue), __call__ / resume tails, _abort_coro / _stop_coro / _halt_coro,
request_suspend._request_suspend, _open_run / _close_run; preprocessors.run_wrapper (T1 task below, bisimulation against the
statement's mapping); RunEngine._status_object_completed (T1 task).

Clauses, from the statement:
  S1  a run still open when the plan ends is closed by the engine with exit_status 'success' for normal completion or RE.stop(),
      'abort' for RE.abort(), RE.halt() and pauses / suspensions in a non-resumable section, 'fail' with the exception text as reason
      for an unhandled plan or device error
  S2  the call raises RunEngineInterrupted after an interruption that took effect
  S3  after a failure the call re-raises the unhandled exception itself
  S4  a status that finishes unsuccessfully surfaces as FailedStatus chained to the device's exception"""
import os

from .t2 import *

PROP = "C02"
TRUSTED = TRUSTED_T2 + [
    "A-ENV: at most one request of another thread is in flight at a time; no new pause / suspension is requested while two or more plans are stacked",
    "when several termination requests were made during one call, the status of any of them is accepted",
]
NOT_DECIDED = ("exit status of runs the *plan* closes itself through run_wrapper under every interleaving (the wrapper's mapping is proved as a "
               "generator contract, T1); real preemptive threads")
THOROUGH = os.environ.get("VERIF_TIER") == "thorough"

SCENARIOS = [
    ("open_run,close_run,custom", "", {}),
    ("open_run,custom", "abort", {}),
    ("open_run,custom", "stop", {}),
    ("open_run,custom", "halt", {}),
    ("open_run,custom,checkpoint", "pause", {}),
    ("open_run,custom,clear_checkpoint", "pause", {} if THOROUGH else {"max_requests": 2}),
    ("open_run,custom,clear_checkpoint", "suspend", {}),
    ("open_run,custom_async", "abort", {}),
    ("open_run,custom,checkpoint", "pause,abort", {"max_requests": 2}),
    ("open_run,custom,checkpoint", "pause,stop", {"max_requests": 2}),
]
if THOROUGH:
    SCENARIOS += [
        ("open_run,close_run,custom,checkpoint", "pause,abort", {}),
        ("open_run,close_run,custom,checkpoint", "pause,stop", {}),
        ("open_run,custom,checkpoint", "pause,halt", {}),
        ("open_run,custom,checkpoint", "abort,stop", {}),
        ("open_run,custom_async,checkpoint", "suspend,abort", {"max_requests": 2}),
    ]

S1 = f"{REQ}._run#ensures[a run still open at the end is closed with the exit status and reason of how the plan ended]"
t2_tasks(PROP, "exit", SCENARIOS, [c02_checks])


def _twin_check(sc, tr):
    def check(kind, *a):
        if kind == "close_run" and "exit_status" in a[1].kwargs:
            sc.w.check("twin:the engine closes runs with exit_status success only", a[0].stop["exit_status"] == "success")
    tr.checks.append(check)


t2_tasks(PROP, "twin", [("open_run,custom", "abort", {})], [_twin_check], twin="twin:the engine closes runs with exit_status success only")
