"""C02 - exit status, reason and raised exception reflect how the run ended.

Carriers: RunEngine._run (exception ladder and epilogue), __call__ / resume tails, _abort_coro / _stop_coro / _halt_coro,
request_suspend._request_suspend, _open_run / _close_run; preprocessors.run_wrapper (T1 task below, bisimulation against the
statement's mapping); RunEngine._status_object_completed (T1 task).

Clauses, from the statement:
  S1  a run still open when the plan ends is closed by the engine with exit_status 'success' for normal completion or RE.stop(),
      'abort' for RE.abort(), RE.halt() and pauses / suspensions in a non-resumable section, 'fail' with the exception text as reason
      for an unhandled plan or device error
  S2  the call raises RunEngineInterrupted after an interruption that took effect
  S3  after a failure the call re-raises the unhandled exception itself
  S4  a status that finishes unsuccessfully surfaces as FailedStatus chained to the device's exception"""
import os

from .t2 import *

PROP = "C02"
TRUSTED = TRUSTED_T2 + [
    "A-ENV: at most one request of another thread is in flight at a time; no new pause / suspension is requested while two or more plans are stacked",
    "when several termination requests were made during one call, the status of any of them is accepted",
]
NOT_DECIDED = ("exit status of runs the *plan* closes itself through run_wrapper under every interleaving (the wrapper's mapping is proved as a "
               "generator contract, T1); real preemptive threads")
THOROUGH = os.environ.get("VERIF_TIER") == "thorough"

SCENARIOS = [
    ("open_run,close_run,custom", "", {}),
    ("open_run,custom", "abort", {}),
    ("open_run,custom", "stop", {}),
    ("open_run,custom", "halt", {}),
    ("open_run,custom,checkpoint", "pause", {}),
    ("open_run,custom,clear_checkpoint", "pause", {} if THOROUGH else {"max_requests": 2}),
    ("open_run,custom,clear_checkpoint", "suspend", {}),
    ("open_run,custom_async", "abort", {}),
    ("open_run,clear_checkpoint,stage,rewindable_off", "pause", {} if THOROUGH else {"max_requests": 2}),
    ("open_run,custom,checkpoint", "pause,abort", {"max_requests": 2}),
    ("open_run,custom,checkpoint", "pause,stop", {"max_requests": 2}),
]
if THOROUGH:
    SCENARIOS += [
        # (pairs of request kinds: one request beyond the two of the quick tier; single kinds are unbounded)
        ("open_run,close_run,custom,checkpoint", "pause,abort", {"max_requests": 3}),
        ("open_run,close_run,custom,checkpoint", "pause,stop", {"max_requests": 3}),
        ("open_run,custom,checkpoint", "pause,halt", {"max_requests": 3}),
        ("open_run,custom,checkpoint", "abort,stop", {"max_requests": 3}),
        ("open_run,custom_async,checkpoint", "suspend,abort", {"max_requests": 2}),
    ]

S1 = f"{REQ}._run#ensures[a run still open at the end is closed with the exit status and reason of how the plan ended]"
# 'abort' for pauses / suspensions in a non-resumable section: the engine must abort there rather than pause (C10's clauses, attached here too)
from .run_mon2 import c10_checks   # noqa: E402
t2_tasks(PROP, "exit", SCENARIOS, [c02_checks, c10_checks])


def _twin_check(sc, tr):
    def check(kind, *a):
        if kind == "close_run" and "exit_status" in a[1].kwargs:
            sc.w.check("twin:the engine closes runs with exit_status success only", a[0].stop["exit_status"] == "success")
    tr.checks.append(check)


t2_tasks(PROP, "twin", [("open_run,custom", "abort", {})], [_twin_check], twin="twin:the engine closes runs with exit_status success only")


# ------------------------------------------------------------------------------------------------ T1: run_wrapper's status mapping
# the wrapper most plans use to close their own runs: exit_status of the control exception, 'fail' + str(e) for any other
# exception, no status (the engine's own: success) otherwise - proved as a generator contract (C23's bisimulation, re-used)
from . import C23 as _c23   # noqa: E402

task("run_wrapper", PROP, functions=[f"{_c23.MP}:run_wrapper", f"{_c23.MP}:run_wrapper.except_plan", f"{_c23.MP}:contingency_wrapper",
                                     f"{_c23.MS}:open_run", f"{_c23.MS}:close_run"],
     expect=[f"{_c23.MP}:run_wrapper#trace[same calls on the wrapped generators]",
             f"{_c23.MP}:run_wrapper#outcome[same yield / return / raise at every step]"])(_c23.run_wrapper)


# ------------------------------------------------------------------------------------------------ T1: FailedStatus
SOC = f"{RE}._status_object_completed"


@task("status_object_completed", PROP, functions=[SOC],
      expect=[f"{SOC}#ensures[an unsuccessful status surfaces as FailedStatus(status) chained to the device's exception, stored for the plan and set on the future]",
              f"{SOC}#ensures[a successful (or pardoned) status completes the future with None and stores nothing]"],
      covers=["failed status", "successful status", "pardoned failure"])
def status_object_completed(I):
    w = I.w
    success = w.choose([True, False], "status.success")
    pardoned = w.choose([False, True], "pardon_failures.is_set()")
    dev_exc = Obj(BUILTIN_CLASSES["ValueError"], {"args": ("device says no",), "__cause__": None}, label="device_exc")
    log = []
    ret = Opaque("status", {"token": "status", "truth": True, "isinstance_default": False, "attrs": {"success": success},
                            "methods": {"exception": lambda I_, o, a, k: dev_exc}})
    fut = Opaque("fut", {"token": "fut", "truth": True, "isinstance_default": False,
                         "methods": {"set_exception": lambda I_, o, a, k: log.append(("set_exception", a[0])),
                                     "set_result": lambda I_, o, a, k: log.append(("set_result", a[0])),
                                     "exception": lambda I_, o, a, k: log.append(("exception",))}})
    pardon = Opaque("pardon", {"token": "event", "truth": True, "isinstance_default": False, "methods": {"is_set": lambda I_, o, a, k: pardoned}})
    before = Opaque("previous", {"token": "exc", "truth": True})
    me = bare(I, RE, _state_lock=Opaque("lock", {"ctx": "transparent", "isinstance_default": False}), _exception=before)
    r = catch(I, I.getattr(me, "_status_object_completed"), ret, fut, pardon)
    rp = {"replay": "lifecycle.failed_status"}
    w.check(f"{SOC}#raises[nothing]", r[0] == "ok", rp)
    e = I.getattr(me, "_exception")
    if not success and not pardoned:
        w.cover("failed status")
        fs = I.P.class_info("bluesky.utils", "FailedStatus")
        ok = isinstance(e, Obj) and e.cls.issubclass(fs) and tuple(e.attrs.get("args", ())) == (ret,) and e.attrs.get("__cause__") is dev_exc
        sets = [x for x in log if x[0] == "set_exception"]
        w.check(f"{SOC}#ensures[an unsuccessful status surfaces as FailedStatus(status) chained to the device's exception, stored for the plan and set on the future]",
                ok and len(sets) == 1 and sets[0][1] is e and not any(x[0] == "set_result" for x in log), rp)
    else:
        w.cover("successful status" if success else "pardoned failure")
        w.check(f"{SOC}#ensures[a successful (or pardoned) status completes the future with None and stores nothing]",
                e is before and [x for x in log if x[0] != "exception"] == [("set_result", None)], rp)
