"""C24 - relative moves are offsets from the start and are undone at the end.

Carriers: bluesky/preprocessors.py: relative_set_wrapper (+ rewrite_pos, insert_reads), reset_positions_wrapper
(+ insert_reads, reset), __read_and_stash_a_motor, __get_result_of_message, pchain (through the real plan_mutator /
msg_mutator / finalize_wrapper bodies); bluesky/plan_stubs.py: rel_set, mvr; the rel_* plans' decorator stacks.
Trace contracts: lock-step bisimulation against references written from the statement (contracts/refs/c24.py); the
wrapped plan is abstract (arbitrary messages, 'set' with a symbolic real offset, over devices that are Locatable /
have a `position` / are read), the driver answers 'locate' / 'read' with None or a reading holding a symbolic real.
"""
import ast
import os

from .lib import *
from pyvc.bisim import Bisim, reference_module

PROP = "C24"
MP = "bluesky.preprocessors"
TRUSTED = ["A-REAL: positions and offsets are mathematical reals", "A-PLAN; abstract plans obey the generator protocol, yield a fresh Msg object each time",
           "the wrapper bisimulations use devices without pseudo-positioners: _normalize_devices(devices) == (set(devices), empty set); coupled "
           "families are covered by the contract of __read_and_stash_a_motor only (the family is recorded as a whole at its first stash)",
           "uuid tokens correspond by request order; print() is effect-free"]
NOT_DECIDED = "_normalize_devices / merge_axis for pseudo-positioners and mixed pseudo / real motion; whether the hardware physically returns"
REF_FILE = "contracts/refs/c24.py"
REF = open(os.path.join(os.path.dirname(os.path.dirname(os.path.abspath(__file__))), REF_FILE)).read()
DEAD = [(f"{MP}:plan_mutator", v) for v in ("msg", "inner_ret", "new_gen", "tail_gen", "exhausted_gen", "failed_gen", "gen", "saved_result", "e", "ex")]


def universe(w, kinds=("L", "P", "R")):
    def mk(name, kind):
        spec = {"token": "dev", "attrs": {"name": name, "parent": None}, "isinstance": {"Locatable": kind == "locatable"},
                "isinstance_default": False, "truth": True, "hasattr": {"position": kind == "position"}}
        if kind == "position":
            spec["attrs"]["position"] = w.real(f"{name}_position")
        if kind == "read":
            spec["attrs"]["hints"] = {"fields": [name]}
        return Opaque(name, spec)
    allk = {"L": "locatable", "P": "position", "R": "read"}
    return {k: mk(k, allk[k]) for k in kinds}


def factories(w, U):
    def msgs(w_, gname, k):
        cmd = w_.choose(["set", "null"], f"{gname}#{k} command")
        if cmd == "null":
            return MsgVal("null", None, (), {}, None)
        d = U[w_.choose(sorted(U), f"{gname}#{k} object")]
        return MsgVal("set", d, (w_.real("offset", fresh=True),), {"group": "g"}, None)

    def sent(w_, last):
        if isinstance(last, MsgVal) and last.command == "locate":
            if w_.choose(["None", "location"], "response to locate") == "None":
                return None, "None"
            return {"setpoint": w_.real("setpoint", fresh=True), "readback": w_.real("readback", fresh=True)}, "location"
        if isinstance(last, MsgVal) and last.command == "read":
            if w_.choose(["None", "reading"], "response to read") == "None":
                return None, "None"
            return {last.obj.name: {"value": w_.real("reading", fresh=True), "timestamp": 0}}, "reading"
        return Opaque(w_.fresh("v"), {"token": "sent", "isinstance_default": False}), "v"
    return msgs, sent


def setup(I, name, U):
    w = I.w
    msgs, sent = factories(w, U)
    b = Bisim(I, name, msg_factory=msgs, allow_reyield=False, driver=("send", "throw", "close", "throw_genexit"),
              canon_exclude=[(f"{MP}:plan_mutator", "msgs_seen")] + DEAD, max_steps=400, replay="generators_c24.script")
    b.dead_stacks = [(f"{MP}:plan_mutator", "result_stack")]
    b.send_factory = sent
    # precondition for this property: a plan that is being closed/halted does not raise a different exception
    b.oracle.opt_filter = lambda g, tok, opts: [o for o in opts if not (o == "raise" and "raise_same" in opts and "yield" not in opts)]
    I.call_hooks[f"{MP}:_normalize_devices"] = lambda I_, f, a, k: _ret((set(a[0]), set()))
    if True:      # both tiers (modular: callers are checked against the callee contract; the body of plan_mutator is C20 / C21's)
        # callee's contract: plan_mutator replaced by its C21 reference (insert_reads answers (None, None) for the
        # inserted locate/read messages and the re-yielded set is skipped by identity)
        c21 = reference_module(I.P, "verif_ref_c21", open(os.path.join(os.path.dirname(os.path.dirname(os.path.abspath(__file__))), "contracts/refs/c21.py")).read())
        refpm = I.global_lookup(c21, "ref_plan_mutator")
        I.call_hooks[f"{MP}:plan_mutator"] = lambda I_, f, a, k: I_.call(refpm, a, k)
        b.canon_exclude = tuple(b.canon_exclude) + (("verif_ref_c21:ref_plan_mutator", "seen"),) + tuple(
            ("verif_ref_c21:ref_plan_mutator", v) for v in ("m", "t", "e", "stop", "via_throw", "msg"))
    return b, reference_module(I.P, "verif_ref_c24", REF)


def _ret(v):
    return v
    yield


KINDS = [("L",), ("P",), ("R",), ("L", "P")]
for _fn, _ref, _kinds in [(f, r, k) for f, r in (("relative_set_wrapper", "ref_relative_set"), ("reset_positions_wrapper", "ref_reset_positions")) for k in KINDS]:
    def _mk(fn=_fn, refname=_ref, kinds=_kinds):
        @task(f"{fn}[{'+'.join(kinds)}]", PROP, functions=[f"{MP}:{fn}", f"{MP}:{fn}.insert_reads", f"{MP}:__read_and_stash_a_motor", f"{MP}:__get_result_of_message",
                                   f"{MP}:pchain", f"{MP}:plan_mutator"] + ([f"{MP}:{fn}.rewrite_pos", f"{MP}:msg_mutator"] if fn.startswith("relative") else
                                                                            [f"{MP}:{fn}.reset", f"{MP}:finalize_wrapper"]),
              expect=[f"{MP}:{fn}#trace[same calls on the wrapped generators]", f"{MP}:{fn}#outcome[same yield / return / raise at every step]"],
              covers=[f"{MP}:{fn}: closed at an established cut point", f"{MP}:{fn}: terminated by return"])
        def t(I):
            w = I.w
            U = universe(w, kinds)
            restrict = len(kinds) > 1 and w.choose([False, True], "devices given")
            b, ref = setup(I, f"{MP}:{fn}", U)
            b.extra = lambda: {"fn": fn, "restrict": restrict}
            devs = [U[kinds[0]]] if restrict else None
            Pi, Pr = b.absgen_pair("plan")
            impl = I.call_value(I.get_function(f"{MP}:{fn}"), Pi, devs)
            rg = I.call_value(I.global_lookup(ref, refname), Pr, set(devs) if devs else None)
            b.run(impl, rg)
    _mk()


@task("rel_plans.structure", PROP, functions=["bluesky.plan_stubs:rel_set", "bluesky.plan_stubs:mvr", "bluesky.plans:rel_scan"],
      expect=["bluesky.plan_stubs:rel_set#ensures[is relative_set_wrapper(abs_set(...))]",
              "bluesky.plans:rel_*#ensures[inner plan wrapped by reset_positions_decorator and relative_set_decorator on the motors]"])
def structure(I):
    w = I.w
    m, _, node = I.P.find_function("bluesky.plan_stubs:rel_set")
    rets = [n for n in ast.walk(node) if isinstance(n, ast.Return)]
    src = ast.unparse(rets[-1].value).replace(" ", "") if rets else ""
    w.check("bluesky.plan_stubs:rel_set#ensures[is relative_set_wrapper(abs_set(...))]",
            src.startswith("(yieldfromrelative_set_wrapper(abs_set(obj,*args,group=group,wait=wait,**kwargs)))"))
    m, _, node = I.P.find_function("bluesky.plan_stubs:mvr")
    rets = [n for n in ast.walk(node) if isinstance(n, ast.Return)]
    src = ast.unparse(rets[-1].value).replace(" ", "") if rets else ""
    w.check("bluesky.plan_stubs:mvr#ensures[is relative_set_wrapper(mv(...)) on the moved objects]",
            any("inner_mvr()" in ast.unparse(r_) for r_ in rets) and any(isinstance(n, ast.FunctionDef) and n.name == "inner_mvr"
                                         and [ast.unparse(d_) for d_ in n.decorator_list] == ["relative_set_decorator(objs)"]
                                         and "mv(*args" in ast.unparse(n) for n in ast.walk(node)))
    ok = True
    names = []
    mod = I.P.module("bluesky.plans")
    for name, d in mod.defs.items():
        if d[0] == "func" and name.startswith("rel_") and name not in ("rel_spiral_square",) or name in ("rel_spiral_square",) and d[0] == "func":
            fn = d[1]
            inner = [n for n in ast.walk(fn) if isinstance(n, ast.FunctionDef) and n is not fn]
            decs = [ast.unparse(x) for f in inner for x in f.decorator_list]
            has = any(x.startswith("bpp.reset_positions_decorator(") for x in decs) and any(x.startswith("bpp.relative_set_decorator(") for x in decs)
            # reset must be the OUTER decorator so that the positions are restored after the relative wrapper finished
            order_ok = all([ast.unparse(x).split("(")[0] for x in f.decorator_list][:2] == ["bpp.reset_positions_decorator", "bpp.relative_set_decorator"]
                           for f in inner if f.decorator_list)
            names.append(name)
            ok = ok and has and order_ok
    w.check("bluesky.plans:rel_*#ensures[inner plan wrapped by reset_positions_decorator and relative_set_decorator on the motors]",
            ok and len(names) >= 9, {"plans": names})


TWIN = REF.replace("initial[msg.obj] + msg.args[0]", "initial[msg.obj] - msg.args[0]")


@task("relative_set.twin", PROP, twin="twin:relative_set_wrapper#outcome[same yield / return / raise at every step]")
def twin(I):
    w = I.w
    U = universe(w, ("P",))
    b, _ = setup(I, "twin:relative_set_wrapper", U)
    b.replay = None
    ref = reference_module(I.P, "verif_ref_c24_twin", TWIN)
    Pi, Pr = b.absgen_pair("plan")
    impl = I.call_value(I.get_function(f"{MP}:relative_set_wrapper"), Pi, None)
    rg = I.call_value(I.global_lookup(ref, "ref_relative_set"), Pr, None)
    b.run(impl, rg)


# ------------------------------------------------------------------------------------------------ explicit device lists
# with a child of a pseudo-positioner parent: the real _normalize_devices / merge_axis run here (no assumed contract).
# Listing a *real* or an *unrelated* child couples nothing: the listed device itself must be treated relatively and reset.
def pp_universe(w):
    def child(name):
        return Opaque(name, {"token": "dev", "attrs": {"name": name, "position": w.real(f"{name}_position")},
                             "isinstance": {"Locatable": False}, "isinstance_default": False, "truth": True,
                             "hasattr": {"position": True, "RealPosition": False, "pseudo_positioners": False}})
    r1, p1, u = child("r1"), child("p1"), child("u")
    PP = Opaque("PP", {"token": "dev", "attrs": {"name": "PP", "parent": None, "real_positioners": [r1], "pseudo_positioners": [p1],
                                                 "RealPosition": True, "position": (w.real("PP_pos"),)},
                       "isinstance_default": False, "truth": True, "hasattr": {"RealPosition": True, "position": True}})
    for c in (r1, p1, u):
        c.spec["attrs"]["parent"] = PP
    return {"r1": r1, "u": u}, PP


def _mk_pp(fn, refname, listed):
    @task(f"{fn}[explicit list: {listed} child of a pseudo-positioner]", PROP,
          functions=[f"{MP}:{fn}", f"{MP}:_normalize_devices", "bluesky.utils:merge_axis"],
          expect=[f"{MP}:{fn}#outcome[same yield / return / raise at every step] (listed {listed})"])
    def t(I):
        w = I.w
        U, PP = pp_universe(w)
        b, ref = setup(I, f"{MP}:{fn}", U)
        I.call_hooks.pop(f"{MP}:_normalize_devices", None)          # the real body runs
        w.stubs[("bluesky.utils", "groupby")] = native(lambda I_, a, k: _groupby(I_, a[0], a[1]))
        w.stubs[("bluesky.utils", "check_supports")] = native(lambda I_, a, k: a[0])
        b.extra = lambda: {"fn": fn, "listed": listed}
        b.replay = None
        devs = [U[listed]]
        Pi, Pr = b.absgen_pair("plan")
        impl = I.call_value(I.get_function(f"{MP}:{fn}"), Pi, list(devs))
        rg = I.call_value(I.global_lookup(ref, refname), Pr, set(devs))
        b.run(impl, rg)
        for r in w.results:
            if r.name.startswith(f"{MP}:{fn}#"):
                r.name += f" (listed {listed})"


def _groupby(I, key, seq):
    out = {}
    for x in I.run(I.iterate(seq)):
        out.setdefault(I.call_value(key, x), []).append(x)
    return out


for _fn, _ref in (("relative_set_wrapper", "ref_relative_set"), ("reset_positions_wrapper", "ref_reset_positions")):
    for _listed in ("r1", "u"):
        _mk_pp(_fn, _ref, _listed)


# ------------------------------------------------------------------------------------------------ coupled (pseudo-positioner) families
RS = f"{MP}:__read_and_stash_a_motor"
E_FAM = (f"{RS}#ensures[a coupled family is recorded as a whole, from one reading of the parent's position: the parent and every one of its pseudo "
         "axes are recorded (so that no later set of a sibling stashes the family again, after it has moved); entries of other devices untouched]")


@task("read_and_stash.coupled_family", PROP, functions=[RS], expect=[E_FAM])
def stash_family(I):
    """'initial position' in the statement is the position before the wrapper's plan moved anything: insert_reads stashes an object only
    when it is not yet recorded, so the stash of a pseudo axis must record its whole coupled family at once"""
    w = I.w
    n = w.choose([2, 3], "pseudo axes of the parent")
    pos = tuple(w.real(f"p{i}") for i in range(n))
    parent = Opaque("pp", {"token": "dev", "truth": True, "isinstance_default": False, "isinstance": {"Locatable": False},
                           "hasattr": {"position": True}, "attrs": {"name": "pp", "parent": None, "position": pos}})
    kids = [Opaque(f"ax{i}", {"token": "dev", "truth": True, "isinstance_default": False, "isinstance": {"Locatable": False},
                              "hasattr": {"position": True}, "attrs": {"name": f"ax{i}", "parent": parent, "position": pos[i]}}) for i in range(n)]
    parent.attrs["pseudo_positioners"] = tuple(kids)
    other = Opaque("other", {"token": "dev", "truth": True, "isinstance_default": False, "attrs": {"name": "other", "parent": None}})
    other_pos = w.real("other_position")
    who = w.choose(["parent"] + [f"ax{i}" for i in range(n)], "object that is set first")
    obj = parent if who == "parent" else kids[int(who[2:])]
    ip = {other: other_pos} if w.choose([False, True], "another device recorded already") else {}
    before = dict(ip)
    g = I.call_value(I.get_function(RS), obj, ip, {parent})
    rp = {"replay": "relative.stash_family", "axes": n, "who": who}
    try:
        out = g.resume(("send", None))
    except PyRaise as pr:
        w.fail(E_FAM, dict(rp, raised=repr(pr.exc)))
        return
    if out[0] != "return":
        w.fail(E_FAM, dict(rp, note="yielded a message although the object has a position attribute"))
        return
    ok = (parent in ip and all(k in ip for k in kids) and all(ip[k] is v for k, v in before.items()) and set(ip) == set(before) | {parent} | set(kids))
    cond = ok
    if ok:
        pp = ip[parent]
        cond = And(isinstance(pp, tuple) and len(pp) == n, *[Eq(ip[kids[i]], pos[i]) for i in range(n)],
                   *([Eq(pp[i], pos[i]) for i in range(n)] if isinstance(pp, tuple) and len(pp) == n else [False]))
    w.check(E_FAM, cond, rp)
