"""Ghost monitor for C41 (monitors report only while their run is open and the engine is running) over the events of a T2 scenario.

The abstract bundler of run_lib.py carries, per run, `monitoring` (the run holds a monitor: set by monitor, cleared by unmonitor / close_run /
clear_monitors) and `monitors_suspended` (set by suspend_monitors, cleared by restore_monitors) - the contract of the real RunBundler that the
T1 tasks of contracts/C41.py establish.  A run holds a *live* subscription iff it is open, monitoring and not suspended."""
from .lib import *
from .run_lib import *
from .run_mon import REQ
from .run_mon2 import Mon
from .run_scn import ALPHABET

M_PAUSED = f"{REQ}._run#ensures[while the engine is paused no run holds a live monitor subscription]"
M_SUSP = f"{REQ}._start_suspender#ensures[while the plan is suspended (pre-plan, wait for the release) no run holds a live monitor subscription]"
M_BACK = f"{REQ}._resume#ensures[once the engine runs again after a pause or a suspension every monitor of an open run is subscribed when the next message is executed]"
M_IDLE = f"{REQ}._run#ensures[at idle every monitor subscription installed by a run has been removed]"
INTERNAL = ("_start_suspender", "rewindable", "wait_for", "_resume_from_suspender")


def alphabet_name(m):
    for n, f in ALPHABET.items():
        x = f()
        if x.command == m.command and x.run == m.run and x.obj is m.obj and tuple(x.args) == tuple(m.args) and dict(x.kwargs) == dict(m.kwargs):
            return n
    return m.command


class C41(Mon):
    fields = ("susp",)

    def __init__(self, sc, tr):
        self.sc, self.tr, self.I, self.w, self.eng = sc, tr, sc.I, sc.w, sc.eng
        self.susp = False                # between a '_start_suspender' message and the '_resume_from_suspender' that ends that suspension
        # what happened so far, in the order it took effect (diagnostic only - handed to the native replay, which re-plays the same history
        # with the requests landing at message boundaries; never consulted by an obligation, not part of the closure key)
        self.hist = []
        self.eng.ghost.setdefault("on_transition", []).append(self.on_transition)
        sc.I.setattr(sc.re, "msg_hook", native(lambda I_, a, k: self.eng.event("msg", a[0])))

    def on_transition(self, fr, to):
        self.hist.append(("state", to))
        if to in ("pausing", "paused"):
            self.susp = False            # a pause supersedes the suspension phase (the wait is abandoned): the paused clause takes over

    def live(self):
        return [b.idx for b in self.eng.bundlers if b.open and b.monitoring and not b.monitors_suspended]

    def silent(self):
        return [b.idx for b in self.eng.bundlers if b.open and b.monitoring and b.monitors_suspended]

    def undisturbed(self):
        tr = self.tr
        return not tr.term_requested and not tr.failed_pause and not tr.nonresumable_seen

    def check(self, name, bad, **more):
        if bad:
            self.w.check(name, False, dict({"requests": list(self.sc.requests), "replay": "lifecycle.replay_monitors", "runs": bad,
                                            "history": [list(h) for h in self.hist], "scenario": getattr(self.sc, "info", {}).get("scenario")}, **more))
        else:
            self.w.check(name, True)

    def __call__(self, kind, *a):
        sc = self.sc
        st = self.eng.state
        if kind == "call":
            self.hist.append(("call", a[0]))
            if a[0] == "__call__":
                self.susp = False
        elif kind == "request":
            # (made while a blocking call is in progress, or while the main thread sits at the prompt of a paused engine)
            self.hist.append(("req", a[0], "during-call" if self.tr.in_call else "main-idle"))
        elif kind == "plan-yield" and a[0] is sc.plan:
            self.hist.append(("plan", alphabet_name(a[1])))
        elif kind == "cut":
            if st == "paused":
                self.check(M_PAUSED, self.live(), at=str(a[0]))
            elif self.susp and self.undisturbed():
                self.check(M_SUSP, self.live(), at="scheduling point")
        elif kind == "msg":
            cmd = a[0].command
            if self.susp and cmd != "_start_suspender" and self.undisturbed():
                self.check(M_SUSP, self.live(), at=f"message {cmd}")
            if cmd == "_start_suspender":
                self.susp = True
                self.hist.append(("suspension-starts",))
            elif cmd == "_resume_from_suspender":
                self.susp = False
            elif cmd not in INTERNAL and not self.susp and st == "running":
                self.check(M_BACK, self.silent(), message=cmd)
        elif kind == "returned":
            name, r = a
            if st == "paused":
                self.check(M_PAUSED, self.live(), at=f"{name} returned")
            elif st == "idle":
                self.susp = False
                self.check(M_IDLE, [b.idx for b in self.eng.bundlers if b.monitoring], call=name)


def c41_checks(sc, tr):
    tr.checks.append(C41(sc, tr))
