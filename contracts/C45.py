"""C45 - collected stream assets line up with the stream's event numbering.

Carriers: bluesky/bundlers.py: RunBundler.collect (pre-declared stream, WritesStreamAssets detectors), _pack_external_assets,
_pack_seq_nums_into_stream_datum, _prepare_stream (new stream starts at 1), close_run (num_events).

Step contract of one `collect` on stream s with n >= 1 detectors (symbolic indices, symbolic counter next(s) >= 1), from the statement:
  K1  several detectors collected together are all asked to advance to the same index, the minimum of their current indices
      (a single detector is asked with index None: it reports whatever it has)
  K2  every stream_datum emitted by this collect carries seq_nums = [next, next + width) with width = indices.stop - indices.start,
      its indices untouched, and the descriptor uid of s; all datums of one collect have the same width, else EventModelValueError
      and nothing is counted
  K3  afterwards next'(s) = next + width (the collect accounts for exactly the frames it declared)
Lemma (z3, over K2/K3 + new stream starts at 1 + close_run's num_events = next - 1 (proved under C05)): the seq_num ranges of a
stream's datums are contiguous and start at 1; if each detector's indices are contiguous from 0 (detector contract) then
seq_nums == indices + 1 for every datum and num_events equals the number of frames declared."""
from .lib import *
from .bundler_lib import *
from . import C05 as _c05

PROP = "C45"
Q = f"{MB}:RunBundler"
TRUSTED = EM_ASSUMPTIONS + [
    "maybe_collect_asset_docs(msg, det, index=i) yields exactly the documents of det.collect_asset_docs(i) (bluesky.utils helper, replaced by that contract; "
    "its warn_if_msg_args_or_kwargs call is dropped); asyncio.gather returns the results in order",
    "detector contract (for the lemma's index clause only): the k-th stream_datum of a detector has indices [I(k-1), I(k)) with I(0) = 0",
    "the number of detectors per collect is enumerated (1, 2, 3); indices, widths and counters are unbounded symbolic integers",
]
NOT_DECIDED = ("old-style (doubly nested) collect paths through describe_collect / _collect_events / _collect_event_pages; that real detectors honour the "
               "index they are asked to advance to")
K1 = f"{Q}.collect#ensures[detectors collected together are asked to advance to the minimum of their indices]"
K2 = f"{Q}.collect#ensures[every stream_datum gets seq_nums = [next, next + width), indices untouched, the stream's descriptor]"
K3 = f"{Q}.collect#ensures[the stream's counter advances by exactly the frames declared]"
KR = f"{Q}.collect#raises[only EventModelValueError, iff the detectors declare different widths; nothing is counted then]"


def detector(I, i, asked, first):
    w = I.w
    idx = w.int(f"index_{i}")
    s, e = w.int(f"start_{i}"), w.int(f"stop_{i}")
    w.add(And(s >= 0, e >= s, idx >= 0))

    def collect_asset_docs(I_, o, a, k):
        asked.append(a[0] if a else k.get("index"))
        docs = []
        if first:
            docs.append(("stream_resource", {"uid": f"sr{i}", "data_key": f"img{i}", "mimetype": "x", "uri": "file://x", "parameters": {}}))
        docs.append(("stream_datum", {"uid": f"sr{i}/0", "stream_resource": f"sr{i}", "descriptor": "",
                                      "indices": {"start": s, "stop": e}, "seq_nums": {"start": 0, "stop": 0}}))
        return docs
    d = Opaque(f"det{i}", {"token": "dev", "truth": True, "isinstance_default": False,
                           "isinstance": {"Collectable": True, "WritesStreamAssets": True, "Flyable": True},
                           "attrs": {"name": f"det{i}", "parent": None}, "hasattr_default": False, "hasattr": {"name": True},
                           "methods": {"get_index": lambda I_, o, a, k: idx, "collect_asset_docs": collect_asset_docs}})
    return d, idx, s, e


def _mk(n, first):
    @task(f"collect[n={n},{'first' if first else 'later'}]", PROP,
          functions=[f"{Q}.collect", f"{Q}.rewind", f"{Q}._pack_external_assets", f"{Q}._pack_seq_nums_into_stream_datum", f"{Q}._prepare_stream", f"{Q}.get_external_data_keys"],
          expect=[K1, K2, K3] + ([KR] if n > 1 else []), covers=["collected"] + (["width mismatch"] if n > 1 else []))
    def t(I):
        w = I.w
        env = Env(I)
        b, uid = opened_bundler(I, env)
        w.stubs[(MB, "StreamRange")] = native(lambda I_, a, k: dict(k))
        w.stubs[(MB, "EventModelValueError")] = env.value_error
        w.stubs["asyncio.gather"] = lambda I_, a, k: Ready([run_coro(I_, c) if isinstance(c, GenObj) else c for c in a])
        asked = []
        dets = [detector(I, i, asked, first) for i in range(n)]
        objs = [d[0] for d in dets]

        def collect_docs(I_, f, a, k):
            return list(I_.call_value(I_.getattr(a[1], "collect_asset_docs"), k.get("index")))
            yield
        I.call_hooks["bluesky.utils:maybe_collect_asset_docs"] = collect_docs
        # the stream was pre-declared for exactly these detectors (through the real _prepare_stream)
        objs_dks = {}
        for i, o in enumerate(objs):
            for cache in ("_config_values_cache", "_config_ts_cache", "_config_desc_cache"):
                b.attrs[cache][o] = {}
            objs_dks[o] = {f"img{i}": {"dtype": "array", "shape": [1], "source": "x", "external": "STREAM:"}}
        r = call_async(I, I.getattr(b, "_prepare_stream"), "fly", objs_dks)
        if r[0] != "ok":
            raise EngineError(f"_prepare_stream failed in harness: {r[1].attrs}")
        desc_uid = r[1][0]["uid"]
        w.check(f"{Q}._prepare_stream#ensures[a new stream's numbering starts at 1]", Eq(b._sequence_counters["fly"], 1))
        b._declared_stream_names[frozenset(objs)] = ["fly"]
        nxt = w.int("next_fly")
        w.add(nxt >= 1)
        b._sequence_counters["fly"] = nxt
        if not first:
            for i in range(n):
                b._stream_resource_data_keys[f"sr{i}"] = f"img{i}"
        env.emitted.clear()
        msg = MsgVal("collect", objs[0], tuple(objs[1:]), {"name": "fly"}, None)
        r = call_async(I, I.getattr(b, "collect"), msg)
        rp = {"replay": "bundler.collect_streams", "n": n, "first": first}
        widths = [e - s for _, _, s, e in dets]
        same = And(*[Eq(widths[0], x) for x in widths[1:]]) if n > 1 else True
        # a zero width is "no previous width yet" for the code: [0, k] passes, [k, 0] raises - both are mismatches for the statement,
        # the first is harmless only when every later width is 0 too; we state the clause for positive widths and report the rest
        positive = And(*[x > 0 for x in widths])
        datums = [d for nm, d in env.emitted if nm == "stream_datum"]
        if r[0] == "raise":
            w.cover("width mismatch")
            ok_cls = isinstance(r[1], Obj) and r[1].cls.issubclass(env.value_error)
            w.check(KR, And(ok_cls, Not(same), Eq(b._sequence_counters["fly"], nxt)), rp)
            return
        w.cover("collected")
        if n > 1:
            w.check(KR, Or(same, Not(positive)), rp)
        # K1
        idxs = [d[1] for d in dets]
        if n == 1:
            w.check(K1, len(asked) == 1 and asked[0] is None, rp)
        elif any(a_ is None or isinstance(a_, (str, tuple, list, dict)) for a_ in asked):
            w.check(K1, False, dict(rp, asked=repr(asked)[:80]))      # asked to report "whatever you have" although collected together
        else:
            k1 = len(asked) == n
            cond = True
            for a_ in asked:
                cond = And(cond, *[ops.compare("<=", a_, x) for x in idxs], Or(*[Eq(a_, x) for x in idxs]))
            w.check(K1, And(k1, cond), rp)
        # K2
        ok = len(datums) == n
        cond = True
        for (d_, _, s, e), doc in zip(dets, datums):
            cond = And(cond, Eq(doc["seq_nums"]["start"], nxt), Eq(doc["seq_nums"]["stop"], nxt + (e - s)),
                       Eq(doc["indices"]["start"], s), Eq(doc["indices"]["stop"], e), doc["descriptor"] == desc_uid)
        w.check(K2, And(ok, cond), rp)
        # K3
        w.check(K3, Implies(Or(same, n == 1), Eq(b._sequence_counters["fly"], nxt + widths[0])), rp)
        # collected frames are never re-taken: a rewind (pause / suspension before the next checkpoint) must keep the numbering
        snap = w.int("snap_fly")
        w.add(And(snap >= 1, snap <= nxt))
        b._sequence_counters_copy["fly"] = snap
        after = b._sequence_counters["fly"]
        rr = catch(I, I.getattr(b, "rewind"))
        w.check(f"{Q}.collect#ensures[a rewind after the collect keeps the stream's numbering: collected frames are not re-taken]",
                And(rr[0] == "ok", Eq(b._sequence_counters["fly"], after)), dict(rp, clause="rewind"))
    return t


for _n in (1, 2, 3):
    for _first in (True, False):
        _mk(_n, _first)


task("_pack_seq_nums_into_stream_datum", PROP, functions=[f"{Q}._pack_seq_nums_into_stream_datum"],
     expect=[f"{Q}._pack_seq_nums_into_stream_datum#ensures[seq_nums = [next, next + width); counters unchanged]"])(_c05.pack_seq_nums)
task("close_run.num_events", PROP, functions=[f"{Q}.close_run"],
     expect=[f"{Q}.close_run#ensures[stop.num_events[s] == next(s) - 1 for every stream]"])(_c05.close_num_events)


@task("lemma.contiguous", PROP, expect=["lemma:C45.datum ranges are contiguous from 1, in step with the indices, and num_events counts the frames declared"])
def lemma(I):
    """induction over the collects of one stream.  State: next (the counter), hi (ghost: seq_nums covered so far are exactly [1, hi)),
    frames (ghost: frames declared so far), last (ghost: index up to which every detector has reported)."""
    import z3
    w = I.w
    nxt, hi, frames, last = z3.Ints("next hi frames last")
    n2, h2, f2, l2 = z3.Ints("next2 hi2 frames2 last2")
    start, stop, width = z3.Ints("start stop width")
    inv = lambda n, h, f, l: z3.And(n >= 1, h == n, f == n - 1, l == f)
    init = z3.And(nxt == 1, hi == 1, frames == 0, last == 0)
    # one collect: detector contract start == last, stop >= start; K2 seq_nums = [next, next + width); K3 next' = next + width
    step = z3.And(start == last, stop >= start, width == stop - start, n2 == nxt + width, h2 == z3.If(nxt == hi, hi + width, hi),
                  f2 == frames + width, l2 == stop)
    seq_start, seq_stop = nxt, nxt + width
    contiguous = z3.And(seq_start == hi, seq_stop == seq_start + width)           # the new range starts where the previous one ended
    in_step = z3.And(seq_start == start + 1, seq_stop == stop + 1)               # seq_nums == indices + 1
    num_events = nxt - 1                                                         # close_run
    w.check("lemma:C45.datum ranges are contiguous from 1, in step with the indices, and num_events counts the frames declared",
            Sym(z3.And(z3.Implies(init, inv(nxt, hi, frames, last)),
                       z3.Implies(z3.And(inv(nxt, hi, frames, last), step), z3.And(inv(n2, h2, f2, l2), contiguous, in_step)),
                       z3.Implies(inv(nxt, hi, frames, last), num_events == frames))))


@task("collect.twin", PROP, twin="twin:collect advances the counter by one per collect")
def twin(I):
    w = I.w
    env = Env(I)
    b, uid = opened_bundler(I, env)
    w.stubs[(MB, "StreamRange")] = native(lambda I_, a, k: dict(k))
    w.stubs[(MB, "EventModelValueError")] = env.value_error
    w.stubs["asyncio.gather"] = lambda I_, a, k: Ready([run_coro(I_, c) if isinstance(c, GenObj) else c for c in a])
    asked = []
    d, idx, s, e = detector(I, 0, asked, True)

    def collect_docs(I_, f, a, k):
        return list(I_.call_value(I_.getattr(a[1], "collect_asset_docs"), k.get("index")))
        yield
    I.call_hooks["bluesky.utils:maybe_collect_asset_docs"] = collect_docs
    for cache in ("_config_values_cache", "_config_ts_cache", "_config_desc_cache"):
        b.attrs[cache][d] = {}
    call_async(I, I.getattr(b, "_prepare_stream"), "fly", {d: {"img0": {"dtype": "array", "shape": [1], "source": "x", "external": "STREAM:"}}})
    b._declared_stream_names[frozenset([d])] = ["fly"]
    r = call_async(I, I.getattr(b, "collect"), MsgVal("collect", d, (), {"name": "fly"}, None))
    w.check("twin:collect advances the counter by one per collect", And(r[0] == "ok", Eq(b._sequence_counters["fly"], 2)))
