"""A-LOOP: the model of asyncio / threading that the T2 contracts (RunEngine._run and the code around it) run against.

It is an *assumed contract* on the standard library, written down as executable host code:
  * one event loop with a FIFO ready queue (loop.call_soon / call_soon_threadsafe / create_task);
  * asyncio.Future / Task semantics of CPython 3.12: a task step resumes the coroutine; `await sleep(0)` re-queues the
    step; awaiting a pending future registers a wake-up callback (scheduled through call_soon when the future
    completes); awaiting a completed future does not suspend; Task.cancel() cancels the future being waited for, or
    sets the must-cancel flag that turns the next step into throw(CancelledError);
  * asyncio.Event, asyncio.wait (ALL_COMPLETED / FIRST_EXCEPTION / timeout decided by the environment), asyncio.sleep(t>0)
    (a timer future fired by the environment: time is arbitrary), run_coroutine_threadsafe (+ concurrent future whose
    done-callbacks run in the loop thread), threading.Event;
  * threads: the *main thread* runs the public blocking calls (RE(...), resume, abort, stop, halt); whenever it blocks
    (Event.wait, Future.result) the loop thread runs, and control returns to the main thread when the awaited condition
    holds and the loop is quiescent (A-MAIN: the main thread does not race the loop thread);
  * the *environment* (other threads: signal handler, suspender callbacks, device call-backs) may act before every step of
    the loop: the harness offers a menu of real public entry points (request_pause, request_suspend, abort, stop, halt)
    and completions of environment-controlled futures; its blocking waits return at once (the thread is not modelled).

Every scheduling point is a cut point of the proof: the canonical key of the whole configuration (RunEngine object, tasks with
their coroutine frames, ready queue, main-thread frames, ghost monitors) is computed there and a path ends when the key was
reached before (co-inductive closure; only beyond the replayed prefix)."""
import collections
import hashlib
import os

from .lib import *
from pyvc.bisim import Canon
from pyvc.vals import Ready

_SEEN = {}


class Sleep0:
    """the bare yield of `await asyncio.sleep(0)`"""
    def canon(self, cn):
        return ("sleep0",)


class EventWait:
    def __init__(self, ev):
        self.ev = ev

    def canon(self, cn):
        return ("event-wait", cn.c(self.ev))


class AFuture:
    kind = "future"

    def __init__(self, loop, label, env=False):
        self.loop, self.label = loop, label
        self.state = "PENDING"
        self.result_v = None
        self.exc = None
        self.callbacks = []
        self.env = env                 # completed by the environment (device / timer / suspender condition)
        self.on_wait = None            # (event, waiter) bookkeeping for asyncio.Event.wait
        self.facade = loop.facade_for(self)

    # -- asyncio.Future API
    def done(self):
        return self.state != "PENDING"

    def cancelled(self):
        return self.state == "CANCELLED"

    def cancel(self):
        if self.state != "PENDING":
            return False
        self.state = "CANCELLED"
        self._schedule()
        return True

    def set_result(self, v):
        if self.state != "PENDING":
            raise PyRaise(self.loop.I.mkexc("RuntimeError", "invalid state"))
        self.state, self.result_v = "FINISHED", v
        self._schedule()

    def set_exception(self, e):
        if self.state != "PENDING":
            raise PyRaise(self.loop.I.mkexc("RuntimeError", "invalid state"))
        self.state, self.exc = "FINISHED", e
        self._schedule()

    def _schedule(self):
        cbs, self.callbacks = self.callbacks, []
        for cb in cbs:
            self.loop.call_soon(cb, self, label="done-callback")

    def add_done_callback(self, cb):
        if self.done():
            self.loop.call_soon(cb, self, label="done-callback")
        else:
            self.callbacks.append(cb)

    def outcome(self):
        """resume token for a coroutine awaiting this (completed) future"""
        if self.state == "CANCELLED":
            return ("throw", self.loop.I.mkexc("CancelledError"))
        if self.exc is not None:
            return ("throw", self.exc)
        return ("send", self.result_v)

    def canon(self, cn):
        if id(self) in cn.ren:
            return cn.ren[id(self)]
        nm = cn.name(self, self.kind)
        return (nm, self.label, self.state, cn.c(self.result_v), cn.c(self.exc), tuple(cn.c(c) for c in self.callbacks))


class ATask(AFuture):
    kind = "task"

    def __init__(self, loop, coro, label):
        super().__init__(loop, label)
        self.coro = coro
        self.must_cancel = False
        self.fut_waiter = None
        loop.tasks.append(self)
        loop.call_soon(self.step, label=f"step:{label}")

    def cancel(self):
        if self.done():
            return False
        if self.fut_waiter is not None:
            if self.fut_waiter.cancel():
                return True
        self.must_cancel = True
        return True

    def wakeup(self, fut):
        tok = fut.outcome()
        if fut.on_wait is not None:
            ev = fut.on_wait
            if fut in ev.waiters:
                ev.waiters.remove(fut)
            if tok[0] == "send":
                tok = ("send", True)
        self.woken_by = fut
        self.step(tok)

    def step(self, tok=None):
        I = self.loop.I
        if self.done():
            raise EngineError(f"step of finished task {self.label}")
        from_future = tok is not None
        tok = tok or ("send", None)
        if self.must_cancel:
            if not (tok[0] == "throw" and I.exc_isinstance(tok[1], "CancelledError")):
                if from_future and self.loop.on_outcome_lost is not None:
                    # CPython: a cancel() that arrives after the awaited future completed but before the task is woken up
                    # replaces the future's result / exception by CancelledError
                    self.loop.on_outcome_lost(self, tok)
                tok = ("throw", I.mkexc("CancelledError"))
            self.must_cancel = False
        self.fut_waiter = None
        prev, self.loop.current = self.loop.current, self
        try:
            while True:
                try:
                    out = self.coro.resume(tok)
                except PyRaise as pr:
                    e = pr.exc
                    if I.exc_isinstance(e, "CancelledError"):
                        AFuture.cancel(self)
                    else:
                        AFuture.set_exception(self, e)
                    return
                if out[0] == "return":
                    if self.must_cancel:
                        self.must_cancel = False
                        AFuture.cancel(self)
                    else:
                        AFuture.set_result(self, out[1])
                    return
                if out[0] != "await":
                    raise EngineError(f"task {self.label} yielded {out!r}")
                a = self.loop.model_of(out[1][0])
                if isinstance(a, Sleep0):
                    self.loop.call_soon(self.step, label=f"step:{self.label}")
                    return
                if isinstance(a, EventWait):
                    if a.ev.value:
                        tok = ("send", True)
                        continue
                    f = AFuture(self.loop, "event-waiter")
                    f.on_wait = a.ev
                    a.ev.waiters.append(f)
                    a = f
                if isinstance(a, AFuture):
                    if a.done():
                        tok = a.outcome()
                        continue
                    a.add_done_callback(self.wakeup)
                    self.fut_waiter = a
                    if self.must_cancel and a.cancel():
                        self.must_cancel = False
                    return
                raise EngineError(f"task {self.label} awaits {out[1][0]!r}: not an awaitable of the model")
        finally:
            self.loop.current = prev

    def canon(self, cn):
        if id(self) in cn.ren:
            return cn.ren[id(self)]
        nm = cn.name(self, "task")
        return (nm, self.label, self.state, self.must_cancel, cn.c(self.fut_waiter), cn.c(self.result_v), cn.c(self.exc),
                tuple(cn.c(c) for c in self.callbacks), cn.c(self.coro) if not self.done() else None)


class AEvent:
    def __init__(self, loop, label):
        self.loop, self.label, self.value, self.waiters = loop, label, False, []
        self.facade = loop.facade_for(self)

    def set(self):
        if not self.value:
            self.value = True
            for f in list(self.waiters):
                if not f.done():
                    f.set_result(True)

    def canon(self, cn):
        return ("aevent", self.label, self.value, len(self.waiters))


class TEvent:
    """threading.Event"""

    def __init__(self, loop, label):
        self.loop, self.label, self.value = loop, label, False
        self.facade = loop.facade_for(self)

    def canon(self, cn):
        return ("tevent", self.label, self.value)


class CFuture:
    """concurrent.futures.Future returned by run_coroutine_threadsafe"""

    def __init__(self, loop, label):
        self.loop, self.label = loop, label
        self.state, self.result_v, self.exc, self.callbacks = "PENDING", None, None, []
        self.facade = loop.facade_for(self)

    def done(self):
        return self.state != "PENDING"

    def finish(self, src):
        if src.state == "CANCELLED":
            self.state = "CANCELLED"
        else:
            self.state, self.result_v, self.exc = "FINISHED", src.result_v, src.exc
        for cb in self.callbacks:
            self.loop.invoke(cb, self)
        self.callbacks = []

    def canon(self, cn):
        if id(self) in cn.ren:
            return cn.ren[id(self)]
        nm = cn.name(self, "cfut")
        return (nm, self.label, self.state, cn.c(self.result_v), cn.c(self.exc), len(self.callbacks))


class Loop:
    def __init__(self, I, name="loop"):
        self.I, self.w = I, I.w
        self.ready = collections.deque()
        self.tasks = []
        self.current = None          # task being stepped
        self.in_step = False
        self.env_thread = False
        self.env_menu = lambda: []    # harness hook: -> list of (label, action)
        self.extra_key = lambda cn: None
        self.on_cut = None
        self.nsteps = 0
        self.callback_errors = []
        self.name = name
        self.facade = Opaque("loop", {"token": "loop", "truth": True, "isinstance_default": False,
                                      "methods": {"call_soon_threadsafe": lambda I_, o, a, k: self.call_soon(a[0], *a[1:], label="threadsafe"),
                                                  "call_soon": lambda I_, o, a, k: self.call_soon(a[0], *a[1:], label="call_soon"),
                                                  "create_task": lambda I_, o, a, k: self.create_task(a[0]).facade,
                                                  "create_future": lambda I_, o, a, k: AFuture(self, "future").facade,
                                                  "is_running": lambda I_, o, a, k: True}})

    # ---------------------------------------------------------------- object-language faces of the model objects
    def facade_for(self, m):
        I = self.I
        if isinstance(m, CFuture):
            def result(I_, o, a, k):
                if not self.env_thread:
                    self.run_until(m.done, f"{m.label}.result()")
                if not m.done():
                    return None                      # environment thread: not modelled as blocking
                if m.state == "CANCELLED":
                    raise PyRaise(Obj(I.P.external_class("concurrent.futures.CancelledError"), {"args": (), "__cause__": None}))
                if m.exc is not None:
                    raise PyRaise(m.exc)
                return m.result_v

            def exception(I_, o, a, k):
                if not self.env_thread:
                    self.run_until(m.done, f"{m.label}.exception()")
                if m.state == "CANCELLED":
                    raise PyRaise(Obj(I.P.external_class("concurrent.futures.CancelledError"), {"args": (), "__cause__": None}))
                return m.exc

            def add_cb(I_, o, a, k):
                if m.done():
                    self.invoke(a[0], m)
                else:
                    m.callbacks.append(a[0])
            meths = {"result": result, "exception": exception, "done": lambda I_, o, a, k: m.done(), "add_done_callback": add_cb,
                     "cancelled": lambda I_, o, a, k: m.state == "CANCELLED"}
        elif isinstance(m, AFuture):
            def result(I_, o, a, k):
                if not m.done():
                    if self.env_thread:
                        return None
                    raise PyRaise(I.mkexc("InvalidStateError", "Result is not set.") if "InvalidStateError" in BUILTIN_CLASSES
                                  else I.mkexc("RuntimeError", "Result is not set."))
                t = m.outcome()
                if t[0] == "throw":
                    raise PyRaise(t[1])
                return t[1]

            def exception(I_, o, a, k):
                if m.state == "CANCELLED":
                    raise PyRaise(I.mkexc("CancelledError"))
                return m.exc
            meths = {"result": result, "exception": exception, "done": lambda I_, o, a, k: m.done(),
                     "cancel": lambda I_, o, a, k: m.cancel(), "cancelled": lambda I_, o, a, k: m.cancelled(),
                     "add_done_callback": lambda I_, o, a, k: m.add_done_callback(a[0]),
                     "set_result": lambda I_, o, a, k: m.set_result(a[0]), "set_exception": lambda I_, o, a, k: m.set_exception(a[0])}
        elif isinstance(m, AEvent):
            meths = {"is_set": lambda I_, o, a, k: m.value, "set": lambda I_, o, a, k: m.set(),
                     "clear": lambda I_, o, a, k: setattr(m, "value", False),
                     "wait": lambda I_, o, a, k: self.awaitable(EventWait(m))}
        elif isinstance(m, TEvent):
            def wait(I_, o, a, k):
                if not self.env_thread:
                    self.run_until(lambda: m.value, f"{m.label}.wait()")
                return m.value
            meths = {"is_set": lambda I_, o, a, k: m.value, "set": lambda I_, o, a, k: setattr(m, "value", True),
                     "clear": lambda I_, o, a, k: setattr(m, "value", False), "wait": wait}
        else:
            raise EngineError(f"no facade for {m!r}")
        f = Opaque(getattr(m, "label", type(m).__name__), {"methods": meths, "truth": True, "isinstance_default": False})
        f.attrs["$model"] = m
        return f

    def awaitable(self, m):
        f = Opaque(type(m).__name__, {"truth": True, "isinstance_default": False, "methods": {}})
        f.attrs["$model"] = m
        return f

    def model_of(self, v):
        if isinstance(v, Opaque) and "$model" in v.attrs:
            return v.attrs["$model"]
        return v

    # ---------------------------------------------------------------- loop API
    def call_soon(self, cb, *args, label="callback"):
        self.ready.append((cb, args, label))

    def create_task(self, coro, label=None):
        if not (isinstance(coro, GenObj) and coro.is_coro):
            raise EngineError(f"create_task of {coro!r}")
        return ATask(self, coro, label or coro.name)

    def invoke(self, cb, *args):
        """call a callback given as host callable (model internals) or object-language callable"""
        if callable(cb) and not getattr(cb, "_pyvc_native", False) and not isinstance(cb, (Closure, BoundMethod)):
            return cb(*args)
        return self.I.call_value(cb, *[a.facade if hasattr(a, "facade") else a for a in args])

    def ensure_future(self, x):
        m = self.model_of(x)
        if isinstance(m, AFuture):
            return m
        if isinstance(m, EventWait):
            # asyncio.ensure_future(event.wait()): a task around the wait coroutine
            return ATask(self, _NativeCoro(self, _event_wait(m.ev)), "Event.wait")
        if isinstance(x, GenObj) and x.is_coro:
            return self.create_task(x)
        raise EngineError(f"ensure_future of {x!r}")

    def run_coroutine_threadsafe(self, coro, label="threadsafe"):
        cf = CFuture(self, label)

        def start():
            t = self.create_task(coro, label)
            t.add_done_callback(lambda fut: cf.finish(fut))
            cf.task = t
        self.call_soon(start, label="start:" + label)
        return cf

    # ---------------------------------------------------------------- the scheduler (main thread blocked in `what`)
    def run_until(self, cond, what):
        if self.in_step:
            raise EngineError(f"blocking wait ({what}) inside the loop thread")
        w = self.w
        while True:
            if cond() and not self.ready:
                return
            menu = self.cut(what)
            if not self.ready:
                menu = [m for m in menu if m[0] != "step"]
                if not menu:
                    if self.on_deadlock is not None:
                        self.on_deadlock(what)
                    raise PathEnd("blocked: nothing can run and the environment does nothing")
            k = w.choose([m[0] for m in menu], "env")
            for lab, act in menu:
                if lab == k:
                    act()
                    break

    on_deadlock = None
    on_outcome_lost = None

    def step_one(self):
        cb, args, label = self.ready.popleft()
        self.nsteps += 1
        self.in_step = True
        try:
            self.invoke(cb, *args)
        except PyRaise as pr:
            if getattr(cb, "__self__", None) is not None and isinstance(cb.__self__, ATask):
                raise            # (task steps handle their own exceptions; anything escaping is an engine problem)
            # asyncio.Handle._run: an exception raised by a plain callback is handed to the loop's exception handler (logged), not propagated
            self.callback_errors.append((label, pr.exc))
        finally:
            self.in_step = False

    def cut(self, what):
        """cut point: closure on the canonical configuration, then the environment's menu"""
        w = self.w
        from pyvc.world import seen_set
        seen = seen_set(w.task_name)
        if not w.ch.replaying:
            key = hashlib.sha1(self.key(what).encode()).digest()
            if os.environ.get("PYVC_KEYLOG"):
                with open(os.environ["PYVC_KEYLOG"], "a") as f:
                    f.write(self.key(what) + "\n")
            if key in seen:
                w.ghost["closed"] = w.ghost.get("closed", 0) + 1
                raise PathEnd("closed")
            seen.add(key)
        if self.on_cut is not None:
            self.on_cut(what)
        menu = [("step", self.step_one)]
        self.env_thread = True
        try:
            extra = list(self.env_menu())
        finally:
            self.env_thread = False

        def wrap(act):
            def run():
                self.env_thread = True
                try:
                    act()
                finally:
                    self.env_thread = False
            return run
        return menu + [(lab, wrap(act)) for lab, act in extra]

    def key(self, what):
        cn = Canon(self.w)
        cn.share = True
        cn.obj_exclude = set(getattr(self, "obj_exclude", ()))
        cn.attr_filters = dict(getattr(self, "attr_filters", {}))
        parts = [("blocked-in", what)]
        parts.append(("ready", tuple((lab, cn.c(cb), tuple(cn.c(a) for a in args)) for cb, args, lab in self.ready)))
        parts.append(("tasks", tuple(cn.c(t) for t in self.tasks if not t.done())))
        parts.append(("main", tuple((getattr(fr, "lineno", None), cn.frame(fr)) for fr in self.I.frame_stack)))
        parts.append(("extra", cn.c(self.extra_key(cn))))
        return repr(parts)


class _NativeCoro:
    """a coroutine of the model itself (host generator yielding model awaitables)"""
    is_coro = True

    def __init__(self, loop, gen, name="native"):
        self.loop, self.gen, self.name, self.started, self.done = loop, gen, name, False, False

    def resume(self, tok):
        try:
            if not self.started:
                self.started = True
                a = next(self.gen)
            elif tok[0] == "throw":
                a = self.gen.throw(PyRaise(tok[1]))
            else:
                a = self.gen.send(tok[1])
        except StopIteration as si:
            self.done = True
            return ("return", si.value)
        return ("await", (a, None))

    def canon(self, cn):
        return ("native-coro", self.name, self.started, self.done)


def _event_wait(ev):
    r = yield EventWait(ev)
    return r


def install(I):
    """bind the asyncio / threading names used by bluesky.run_engine to the model"""
    w = I.w
    loop = Loop(I)
    w.ghost["$loop"] = loop
    st = w.stubs

    def sleep(I_, a, k):
        d = a[0] if a else k.get("delay", 0)
        if isinstance(d, (int, float)) and d <= 0:
            return loop.awaitable(Sleep0())
        f = AFuture(loop, f"timer", env=True)
        loop.timers.append(f)
        return f.facade
    loop.timers = []
    st["asyncio.sleep"] = sleep
    st["asyncio.Event"] = lambda I_, a, k: AEvent(loop, "aevent").facade
    st["threading.Event"] = lambda I_, a, k: TEvent(loop, "tevent").facade
    st["asyncio.run_coroutine_threadsafe"] = lambda I_, a, k: loop.run_coroutine_threadsafe(a[0]).facade
    st["asyncio.create_task"] = lambda I_, a, k: loop.create_task(a[0]).facade
    st["asyncio.ensure_future"] = lambda I_, a, k: loop.ensure_future(a[0]).facade
    st["asyncio.current_task"] = lambda I_, a, k: loop.current.facade if loop.current is not None else None
    st["asyncio.get_running_loop"] = lambda I_, a, k: loop.facade

    def wait(I_, a, k):
        futs = [loop.ensure_future(x) for x in I_.run(I_.iterate(a[0]))]
        return_when = k.get("return_when", "ALL_COMPLETED")
        return_when = str(getattr(return_when, "dotted", return_when)).split(".")[-1]
        timeout = k.get("timeout")
        wf = AFuture(loop, "asyncio.wait")
        state = {"fired": False}

        def finish(timed_out=False):
            if wf.done():
                return
            done = [f for f in futs if f.done()]
            pending = [f for f in futs if not f.done()]
            wf.set_result((set_of(done), set_of(pending)))

        def set_of(fs):
            return [f.facade for f in fs]        # the carriers only test emptiness / iterate

        def on_done(f):
            if wf.done():
                return
            if all(x.done() for x in futs) or (return_when == "FIRST_EXCEPTION" and (f.cancelled() or f.exc is not None)) or return_when == "FIRST_COMPLETED":
                finish()
        if not futs:
            raise PyRaise(I_.mkexc("ValueError", "Set of Tasks/Futures is empty."))
        if all(f.done() for f in futs):
            finish()
        else:
            for f in futs:
                f.add_done_callback(on_done)
            if timeout is not None:
                t = AFuture(loop, "wait-timeout", env=True)
                loop.timers.append(t)
                t.add_done_callback(lambda f_: finish(True))
        return wf.facade
    st["asyncio.wait"] = wait
    for nm in ("FIRST_EXCEPTION", "ALL_COMPLETED", "FIRST_COMPLETED"):
        st[f"asyncio.{nm}"] = nm
    return loop
