"""C07 - the RunEngine lifecycle never takes an illegal transition or gets stuck.

Carriers (real code, executed symbolically on every run): RunEngine.__init__/__call__/_resume_task/resume/_run/_rewind, request_pause +
_request_pause_coro, request_suspend + _request_suspend + _start_suspender + _resume, abort/stop/halt + their coroutines +
__interrupter_helper, the message handlers of the scenario's alphabet, LoggingPropertyMachine.__set__ with the transition table
read from RunEngineStateMachine.Meta on every run.

Clauses, from the statement:
  L1  once a blocking call (RE(...), resume, abort, stop, halt made while paused) has returned or raised, the state is 'idle' or 'paused'
  L2  _run itself never attempts a transition the table refuses (requests *may* be refused: their TransitionError goes to the requester)
  L3  a blocking call is never left waiting with nothing that could wake it (the engine does not get stuck in a transient state)
Every state change goes through the real property machine, so 'only along the declared table' is enforced by construction of the
model (an undeclared move raises TransitionError exactly as the vendored machine does); L2 says the engine's own code never
relies on such a move.

Proof shape: closure over canonical configurations (see contracts/aio.py): an *arbitrary* plan over the scenario's alphabet
(any length, any order, returning / raising / handling thrown exceptions arbitrarily), arbitrary custom-command outcomes, and
an environment that may make any request of the scenario's menu before every step of the event loop, plus every post-pause
decision.  Unbounded in plan length and in the number of requests; bounded by the stated scenario parameters."""
import os

from .t2 import *

PROP = "C07"
TRUSTED = TRUSTED_T2 + [
    "A-ENV: at most one request of another thread is in flight (queued but not yet run by the loop) at a time; no new pause / suspension is "
    "requested while two or more plans are already stacked (user plan + one rewind / suspender helper plan)",
    "scenario alphabets are finite: custom (a registered command that returns or raises), custom_async (awaits a device future), checkpoint, "
    "clear_checkpoint, pause messages; other message handlers are covered by the properties that own them",
]
NOT_DECIDED = ("real preemptive threads (a caller racing the loop thread inside __call__ / __interrupter_helper beyond the sampled 'was_paused'), "
               "SIGINT handling, user callbacks re-entering the RunEngine, and 'panicked' (only reachable through a callback that raises inside emit)")

THOROUGH = os.environ.get("VERIF_TIER") == "thorough"

ENV_KINDS = ["pause", "pause_defer", "suspend", "abort", "stop", "halt"]
SCENARIOS = []
# every single request kind and every pair of kinds, at every step of the loop, against an arbitrary plan of custom commands and checkpoints
for i, a in enumerate(ENV_KINDS):
    SCENARIOS.append(("custom,checkpoint", a, {} if THOROUGH else {}))
    for b in ENV_KINDS[i + 1:]:
        # the statement's scope is "sequences of up to two requests": the quick tier bounds the costly pairs (those with a pause, whose
        # resume cycles multiply the configurations) by that; the thorough tier leaves the number of requests unbounded
        heavy = bool({a, b} & {"pause", "pause_defer"})
        SCENARIOS.append(("custom,checkpoint", f"{a},{b}", {} if (THOROUGH or not heavy) else {"max_requests": 2}))
# requests landing while a command is suspended on a device, and in non-resumable sections
SCENARIOS += [
    ("custom_async,checkpoint", "pause", {}),
    ("custom_async", "suspend", {}),
    ("custom_async", "abort", {}),
    ("custom,clear_checkpoint,checkpoint", "pause", {}),
    ("custom,clear_checkpoint", "suspend", {}),
    ("custom,pause,checkpoint", "abort", {}),
    # a device whose stop() is asynchronous: the engine's own clean-up (at pause, at suspension, in the epilogue) suspends, and requests land inside it
    ("set_async,custom,checkpoint", "abort", {}),
    ("set_async,custom", "stop", {}),
    ("set_async,custom", "halt", {}),
    ("set_async,custom,checkpoint", "pause", {"max_requests": 2}),
    ("set_async,custom,checkpoint", "suspend", {"max_requests": 1}),
    # implicit checkpoints and devices in the plan
    ("stage,unstage,set,custom,checkpoint", "pause", {"max_requests": 1}),
]
if THOROUGH:
    SCENARIOS += [
        ("custom_async,checkpoint", "pause,abort", {}),
        ("custom_async,checkpoint", "suspend,stop", {}),
        ("custom,clear_checkpoint,checkpoint", "pause,suspend", {"max_requests": 3}),
        ("custom,pause_defer,checkpoint", "halt", {}),
    ]

L1 = f"{REQ}#lifecycle[after a blocking call returns or raises the engine is idle or paused]"
t2_tasks(PROP, "lifecycle", SCENARIOS, [c07_checks], expect=[L1])


# must-fail twin: 'paused' is a legitimate resting state, so demanding idle after every call must be refuted
def _twin_check(sc, tr):
    def check(kind, *a):
        if kind == "returned":
            sc.w.check("twin:after every blocking call the engine is idle", sc.eng.state == "idle")
    tr.checks.append(check)


t2_tasks(PROP, "twin", [("custom,checkpoint", "pause", {})], [_twin_check], twin="twin:after every blocking call the engine is idle")
