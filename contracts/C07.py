"""C07 (work in progress)"""
import os
from .lib import *
from .run_lib import *
from .run_scn import *
from .run_mon import *

PROP = "C07"
TRUSTED = TRUSTED_T2


@task("lifecycle", PROP, functions=[f"{RE}._run"], expect=[], timeout_s=3600, path_cap=400000)
def lifecycle(I):
    w = I.w
    msgs = os.environ.get("T2_MSGS", "custom,checkpoint").split(",")
    env = [e for e in os.environ.get("T2_ENV", "pause").split(",") if e]
    sc = Scenario(I, msgs, env=env)
    tr = Tracker(sc)
    c07_checks(sc, tr)
    c08_checks(sc, tr)
    c02_checks(sc, tr)
    sc.run()
