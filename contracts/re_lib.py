"""Shared harness pieces for contracts on bluesky.run_engine.RunEngine methods (T1: one handler at a time, from an
arbitrary RunEngine state given field by field)."""
from .lib import *
from .bundler_lib import *

MR = "bluesky.run_engine"
RE = f"{MR}:RunEngine"


class Span:
    """recording fake of an opentelemetry span"""

    def __init__(self, name, ledger):
        self.name, self.ledger = name, ledger
        self.attributes = {}
        self.ended = 0


def install_tracer(I, ledger):
    """bluesky.run_engine.tracer.start_span -> recording spans; _set_span_msg_attributes is effect-free (A-LOG)"""
    spans = []

    def start_span(I_, o, a, k):
        sp = Opaque(I_.w.fresh("span"), {"token": "span", "truth": True, "isinstance_default": False,
                                          "methods": {"set_attribute": lambda I2, o2, a2, k2: o2.attrs.setdefault("$attrs", {}).__setitem__(a2[0], a2[1]),
                                                      "end": lambda I2, o2, a2, k2: o2.attrs.__setitem__("$ended", o2.attrs.get("$ended", 0) + 1)}})
        sp.attrs["$attrs"] = {}
        sp.attrs["$ended"] = 0
        spans.append(sp)
        ledger.append(("start", sp))
        return sp
    tracer = Opaque("tracer", {"methods": {"start_span": start_span}, "isinstance_default": False})
    I.w.stubs[(MR, "tracer")] = tracer
    I.w.stubs[(MR, "_set_span_msg_attributes")] = native(lambda I_, a, k: None)
    I.w.stubs[(MR, "logger")] = Opaque("logger", {"noop": True, "default_attr": "method"})
    return spans


def init_value(I, field, default=None):
    """the initial value RunEngine.__init__ gives to `self.<field>` when it is a literal / empty-container expression
    (so that the harness follows a change of representation instead of hard-coding it)"""
    import ast
    m, chain, node = I.P.find_function(f"{RE}.__init__")
    for st in ast.walk(node):
        tgt = None
        if isinstance(st, ast.Assign) and len(st.targets) == 1:
            tgt, val = st.targets[0], st.value
        elif isinstance(st, ast.AnnAssign) and st.value is not None:
            tgt, val = st.target, st.value
        if tgt is not None and isinstance(tgt, ast.Attribute) and isinstance(tgt.value, ast.Name) and tgt.value.id == "self" and tgt.attr == field:
            src = ast.unparse(val)
            if src in ("[]", "list()"):
                return []
            if src in ("{}", "dict()"):
                return {}
            if src == "set()":
                return set()
            try:
                return ast.literal_eval(val)
            except Exception:
                return default
    return default


def make_re(I, env, **fields):
    """a RunEngine object given field by field (the pre-state of a handler contract)"""
    ci = I.P.class_info(MR, "RunEngine")
    fields.setdefault("_run_tracing_spans", init_value(I, "_run_tracing_spans", []))
    log = Opaque("log", {"noop": True, "default_attr": "method"})
    base = {
        "_run_bundlers": {}, "md": {}, "_metadata_per_call": {}, "record_interruptions": False, "emit": env.emit(),
        "emit_sync": env.emit_sync(), "log": log, "_require_stream_declaration": False, "_run_start_uids": [],
        "_run_tracing_spans": [], "_plan": Opaque("plan", {"token": "plan", "attrs": {"__name__": "my_plan"}, "type": Opaque("GeneratorType", {"attrs": {"__name__": "generator"}})}),
        "_exit_status": "success", "_reason": "", "_msg_cache": None, "_rewindable_flag": True,
        "_staged": set(), "_movable_objs_touched": set(), "_objs_seen": set(), "_temp_callback_ids": set(),
        "_groups": {}, "_status_objs": {}, "_pardon_failures": None,
    }
    base.update(fields)
    return Obj(ci, base)
