"""T2 harness: the real RunEngine (constructor, __call__, _resume_task, _run, resume / abort / stop / halt, request_pause,
request_suspend and the message handlers) executed against the asyncio / threading model of contracts/aio.py, with an
*abstract plan* (arbitrary generator: any message of the scenario's alphabet, return, raise; on throw: handle / re-raise /
raise another), *abstract custom commands* (RE.register_command: return a value, raise, or suspend on a device future
completed by the environment) and *abstract run bundlers* (the contract of RunBundler established by the T1 properties).

Nothing of RunEngine is re-written: the object is built by the real __init__, the registry is the real registry, and every
state change goes through the real LoggingPropertyMachine.__set__; what is modelled is listed in TRUSTED_T2."""
import ast

from .lib import *
from . import aio
from .re_lib import MR, RE, install_tracer

MU = "bluesky.utils"
VEX = "bluesky._vendor.super_state_machine.extras"
VER = "bluesky._vendor.super_state_machine.errors"

TRUSTED_T2 = [
    "A-LOOP: asyncio / threading behave as the executable model in contracts/aio.py (FIFO ready queue, CPython 3.12 Task / Future / Event / "
    "cancellation semantics, run_coroutine_threadsafe, asyncio.wait); time is arbitrary (timers fire when the environment says)",
    "A-MAIN: the main thread regains control from a blocking wait when the condition holds and the loop is quiescent; it does not race the loop thread",
    "A-THREADS: other threads act only through request_pause / request_suspend / abort / stop / halt and by completing device futures, "
    "between two steps of the loop (call_soon_threadsafe)",
    "vendored super_state_machine: a machine accepts set_(v) iff v is in Meta.transitions[current] (table read from the real class body on "
    "every run) and raises TransitionError otherwise; ProxyString behaves as its str value with is_<state> / can_<checker> attributes",
    "RunBundler obeys the contract established by the bundler properties (C01, C05, C15, C16, C40, C41): open_run / close_run toggle run_is_open and emit "
    "start / stop with the given exit_status and reason; the other methods do not touch the RunEngine",
    "plans are generators obeying the generator protocol; custom commands are arbitrary coroutine functions that may await device futures",
    "A-LOG: logging, print, tracing spans (recording fake) are effect-free; weakref.WeakKeyDictionary is a dict keyed by identity",
]


def token(w, kind):
    """an opaque value of the object language (a response, a uid ...): truthy, no class of interest"""
    return Opaque(w.fresh(kind), {"token": kind, "truth": True, "isinstance_default": False, "hasattr_default": False})


class StateStr(str):
    """ProxyString: the state value with the machine's checker attributes"""


def transitions_table(I):
    m, chain, node = I.P.find_function(f"{MR}:RunEngineStateMachine")
    table, checkers = None, []
    for st in ast.walk(node):
        if isinstance(st, ast.ClassDef) and st.name == "Meta":
            for a in st.body:
                if isinstance(a, ast.Assign) and isinstance(a.targets[0], ast.Name):
                    if a.targets[0].id == "transitions":
                        table = ast.literal_eval(a.value)
                    if a.targets[0].id == "named_checkers":
                        checkers = ast.literal_eval(a.value)
                    if a.targets[0].id == "initial_state":
                        init = ast.literal_eval(a.value)
    if table is None:
        raise EngineError("RunEngineStateMachine.Meta.transitions not found")
    return table, dict(checkers), init


def install_state_machine(I, ghost):
    w = I.w
    table, checkers, init = transitions_table(I)
    ghost["table"] = table
    terr = I.P.class_info(VER, "TransitionError")

    def machine(I_, a, k):
        st = {"v": init}

        def set_(I2, o, a2, k2):
            v = str(a2[0])
            if v not in table:
                raise PyRaise(I2.mkexc("ValueError", f"unknown state {v}"))
            if v not in table[st["v"]]:
                who = [fr.closure.qualname.split(":")[-1] for fr in I2.frame_stack
                       if fr.closure is not None and not fr.closure.qualname.endswith("PropertyMachine.__set__")]
                ghost.setdefault("refused", []).append((st["v"], v, who[-1] if who else None))
                raise PyRaise(Obj(terr, {"args": (f"Cannot transit from '{st['v']}' to '{v}'.",), "__cause__": None}))
            ghost.setdefault("transitions", []).append((st["v"], v))
            old, st["v"] = st["v"], v
            for cb in ghost.get("on_transition", ()):
                cb(old, v)
        m = Opaque("machine", {"methods": {"set_": set_}, "isinstance_default": False, "truth": True,
                               "dyn_attrs": {"actual_state": lambda I2, o: Opaque("state-enum", {"dyn_attrs": {"value": lambda I3, o3: st["v"]}})}})
        m.attrs["$st"] = st
        ghost["machine"] = m           # one RunEngine per world
        return m
    w.stubs[(MR, "RunEngineStateMachine")] = native(machine)

    def proxy(I_, a, k):
        s = StateStr(a[0].attrs["$st"]["v"] if isinstance(a[0], Opaque) and "$st" in a[0].attrs else a[0])
        return s

    def actual(machine_):
        return machine_.attrs["$st"]["v"]

    def proxy_string(I_, a, k):
        return StateStr(actual(a[1]))
    w.stubs[(VEX, "ProxyString")] = native(proxy_string)

    def statestr_attr(I_, s, name):
        if name.startswith("is_") and name[3:] in table:
            return str(s) == name[3:]
        if name in checkers:
            return checkers[name] in table[str(s)]
        if name.startswith("can_be_") and name[7:] in table:
            return name[7:] in table[str(s)]
        raise PyRaise(I_.mkexc("AttributeError", name))
    w.stubs[("getattr", "StateStr")] = statestr_attr
    w.stubs["weakref.WeakKeyDictionary"] = lambda I_, a, k: {}
    return table


class Bundler:
    """abstract RunBundler (contract only)"""

    def __init__(self, eng, md, record_interruptions):
        self.eng = eng
        self.open = False
        self.bundling = False
        self.monitors_suspended = False
        self.stop = None
        self.n_interruptions = 0
        self.uncollected = False        # a flyer was kicked off in this run and not collected since
        self.monitoring = False         # the run holds a monitor subscription on a device
        self.closed_by_plan = False
        self.record = record_interruptions
        eng.bundlers.append(self)
        self.idx = len(eng.bundlers)
        me = self
        ev = eng.event

        def m_open(I_, o, a, k):
            me.open = True
            me.uid = Opaque(I_.w.fresh("run_uid"), {"token": "run_uid", "truth": True, "isinstance_default": False, "hasattr_default": False})
            ev("open_run", me, a[0])
            return aio.Ready(me.uid)

        def m_close(I_, o, a, k):
            if not me.open:
                raise PyRaise(Obj(I_.P.class_info(MU, "IllegalMessageSequence"), {"args": ("no run open",), "__cause__": None}))
            msg = a[0]
            me.stop = {"exit_status": msg.kwargs.get("exit_status", "success") or "success", "reason": msg.kwargs.get("reason") or ""}
            me.open = False
            me.monitoring = False                      # close_run removes the run's monitor subscriptions
            me.closed_by_plan = "exit_status" not in msg.kwargs
            ev("close_run", me, msg)
            return aio.Ready(me.uid)

        def simple(name, ret=None, awaitable=True):
            def f(I_, o, a, k):
                ev(name, me, *a)
                return aio.Ready(ret) if awaitable else ret
            return f

        def susp(I_, o, a, k):
            me.monitors_suspended = True
            ev("suspend_monitors", me)
            return aio.Ready(None)

        def rest(I_, o, a, k):
            me.monitors_suspended = False
            ev("restore_monitors", me)
            return aio.Ready(None)

        def rec(I_, o, a, k):
            me.n_interruptions += 1
            ev("record_interruption", me, a[0])
        # flyers and monitors (contract of RunBundler.kickoff / collect / backstop_collect / monitor / unmonitor / clear_monitors / close_run:
        # kickoff remembers the flyer as uncollected; collect and backstop_collect (attempt to) collect; close_run and clear_monitors
        # remove every monitor subscription of the run)
        def kickoff(I_, o, a, k):
            me.uncollected = True
            ev("kickoff", me)
            return aio.Ready(None)

        def collect(I_, o, a, k):
            me.uncollected = False
            ev("collect", me)
            return aio.Ready(None)

        def backstop(I_, o, a, k):
            if me.uncollected:
                me.uncollected = False
                ev("backstop_collect", me)
            return aio.Ready(None)

        def monitor(I_, o, a, k):
            me.monitoring = True
            ev("monitor", me)
            return aio.Ready(None)

        def unmonitor(I_, o, a, k):
            if not me.monitoring:
                raise PyRaise(Obj(I_.P.class_info(MU, "IllegalMessageSequence"), {"args": ("not monitored",), "__cause__": None}))
            me.monitoring = False
            ev("unmonitor", me)
            return aio.Ready(None)

        def clear_monitors(I_, o, a, k):
            me.monitoring = False
            ev("clear_monitors", me)
        meths = {"open_run": m_open, "close_run": m_close, "suspend_monitors": susp, "restore_monitors": rest, "record_interruption": rec,
                 "kickoff": kickoff, "collect": collect, "monitor": monitor, "unmonitor": unmonitor,
                 "clear_monitors": clear_monitors, "backstop_collect": backstop,
                 "rewind": simple("rewind", awaitable=False), "reset_checkpoint_state": simple("reset_checkpoint_state", awaitable=False),
                 "clear_checkpoint": simple("clear_checkpoint"), "reset_checkpoint_state_coro": simple("reset_checkpoint_state")}
        self.facade = Opaque(f"bundler{self.idx}", {"methods": meths, "truth": True, "isinstance_default": False,
                                                    "dyn_attrs": {"run_is_open": lambda I_, o: me.open, "bundling": lambda I_, o: me.bundling}})
        self.facade.attrs["$model"] = self

    def canon(self, cn):
        return (cn.name(self, "bundler"), self.open, self.bundling, self.monitors_suspended, cn.c(self.stop), self.uncollected, self.monitoring)


class ReplayPlan(AbsGen):
    """what _rewind() builds from the message cache, abstracted: an arbitrary number of cacheable messages (at least one iff the
    cache was non-empty), then exhaustion.  It is a generator expression over a list: it cannot handle a thrown exception."""

    def __init__(self, eng, cached):
        self.eng, self.w, self.name = eng, eng.w, "replay"
        self.canon_name = "replay"
        self.frame = None
        self.started = self.done = False
        self.last_msg = None
        self.must_yield = len(cached) > 0
        self.cached = cached

    def resume(self, tok):
        I, w, eng = self.eng.I, self.w, self.eng
        if tok[0] == "close":
            self.done = True
            return ("return", None)
        if self.done:
            if tok[0] == "throw":
                raise PyRaise(tok[1])
            raise PyRaise(I.mkexc("StopIteration"))
        if tok[0] == "throw":
            self.done = True
            eng.event("replay-raise", self, tok[1])
            raise PyRaise(tok[1])
        if not self.started and tok[1] is not None:
            self.done = True
            raise PyRaise(I.mkexc("TypeError", "can't send non-None value to a just-started generator"))
        self.started = True
        labels = [a[0] for a in eng.replay_alphabet(self)]
        if getattr(eng, "exact_empty_replay", False) and not self.cached:
            labels = []          # opt-in refinement: the replay of an EMPTY cache yields nothing (the list handed to _rewind is the real one)
        opts = (labels if labels else []) + ([] if self.must_yield and labels else ["exhausted"])
        c = w.choose(opts, "replay")
        self.must_yield = False
        if c == "exhausted":
            self.done = True
            eng.event("replay-done", self)
            return ("return", None)
        m = dict(eng.replay_alphabet(self))[c]()
        self.last_msg = m
        eng.event("replay-yield", self, m)
        return ("yield", m)

    def canon(self, cn):
        exact = getattr(self.eng, "exact_empty_replay", False)
        return ("replay", self.started, self.done, self.must_yield) + ((len(self.cached) > 0,) if exact else ())


def cache_uses_ok(I):
    """structural side condition of the cache abstraction: RunEngine touches `_msg_cache` only by assigning deque() / None,
    testing `is (not) None`, `.append(msg)`, and - inside _rewind - len() and list()"""
    import ast as _ast
    m, chain, node = I.P.find_function(RE)
    bad = []
    parents = {}
    for n in _ast.walk(node):
        for ch in _ast.iter_child_nodes(n):
            parents[ch] = n

    def func_of(n):
        while n in parents:
            n = parents[n]
            if isinstance(n, (_ast.FunctionDef, _ast.AsyncFunctionDef)):
                return n.name
        return None
    for n in _ast.walk(node):
        if isinstance(n, _ast.Attribute) and n.attr == "_msg_cache":
            p = parents.get(n)
            ok = False
            if isinstance(n.ctx, _ast.Store):
                v = p.value if isinstance(p, (_ast.Assign, _ast.AnnAssign)) else None
                ok = v is not None and _ast.unparse(v) in ("deque()", "None")
            elif isinstance(p, _ast.Compare) and all(isinstance(o, (_ast.Is, _ast.IsNot)) for o in p.ops):
                ok = True
            elif isinstance(p, _ast.Attribute) and p.attr == "append":
                ok = True
            elif isinstance(p, _ast.Call) and isinstance(p.func, _ast.Name) and p.func.id in ("len", "list") and func_of(n) == "_rewind":
                ok = True
            if not ok:
                bad.append((func_of(n), n.lineno))
    return bad


class Engine:
    """the RunEngine under the model, plus ghost ledgers"""

    def __init__(self, I, **kw):
        self.I, self.w = I, I.w
        w = I.w
        self.ghost = {}
        self.events = []            # ghost ledger (not part of the canonical key)
        self.bundlers = []
        self.monitors = []          # callables (kind, *args) observing events
        self.loop = aio.install(I)
        self.spans = install_tracer(I, [])
        self.table = install_state_machine(I, self.ghost)
        noop_log = Opaque("log", {"noop": True, "default_attr": "method", "attrs": {"disabled": False}})
        for nm in ("msg_logger", "state_logger", "logger"):
            w.stubs[(MR, nm)] = noop_log
        w.stubs[(MR, "ComposableLogAdapter")] = native(lambda I_, a, k: noop_log)
        noop_span = Opaque("current-span", {"noop": True, "default_attr": "method"})
        w.stubs[(MR, "trace")] = Opaque("trace", {"methods": {"get_current_span": lambda *a: noop_span}, "isinstance_default": False})
        w.stubs[(MR, "check_supports")] = native(lambda I_, a, k: a[0])
        w.stubs[(MR, "_ensure_event_loop_running")] = native(lambda I_, a, k: Opaque("thread", {"token": "thread", "attrs": {"ident": 1}}))
        w.stubs[(MR, "set_bluesky_event_loop")] = native(lambda I_, a, k: None)
        w.stubs[("bluesky._version", "__version__")] = "0.0"
        w.stubs[(MR, "current_task")] = native(lambda I_, a, k: self.loop.current.facade if self.loop.current is not None else None)
        w.stubs[(MR, "RunBundler")] = native(lambda I_, a, k: Bundler(self, a[0], a[1]).facade)
        w.stubs["contextlib.ExitStack"] = lambda I_, a, k: Opaque("ExitStack", {"ctx": "transparent", "isinstance_default": False,
                                                                                 "methods": {"enter_context": lambda I2, o, a2, k2: I2.call_value(I2.getattr(a2[0], "__enter__"))}})
        w.stubs["sys.stdout.flush"] = lambda I_, a, k: None
        w.stubs["datetime.datetime.now"] = lambda I_, a, k: Opaque("now", {"methods": {"strftime": lambda I2, o, a2, k2: "2026-01-01 00:00:00"}})
        I.builtins["print"] = native(lambda I_, a, k: None)
        w.stubs["extattr"] = lambda I_, ref, name: ("0.0" if name == "__version__" else (3, 12, 1) if (ref.dotted, name) == ("sys", "version_info")
                                                    else NotImplemented)
        # ---- the message cache is abstracted in canonical keys to (None | empty | non-empty); its content is used by
        # RunEngine only in _rewind (checked structurally by `cache_uses_ok`), where the replayed plan is replaced by an
        # abstract plan that yields an arbitrary number (>= 1 iff the cache is non-empty) of cacheable messages
        self.replay_alphabet = lambda p: []
        real_ensure = I.get_function(f"{MU}:ensure_generator")

        def ensure_generator(I_, a, k):
            top = I_.frame_stack[-1] if I_.frame_stack else None
            if top is not None and top.closure is not None and top.closure.qualname.endswith("RunEngine._rewind") and isinstance(a[0], list):
                self.event("rewind", list(a[0]))
                return ReplayPlan(self, list(a[0]))
            return I_.call_value(real_ensure, *a, **k)
        w.stubs[(MR, "ensure_generator")] = native(ensure_generator)
        self.loop.attr_filters = {"_msg_cache": lambda c: None if c is None else ("cache", len(c) > 0)}
        during = construct(I, f"{MU}:DuringTask")
        self.re = construct(I, RE, kw.pop("md", {}), loop=self.loop.facade, context_managers=[], during_task=during, **kw)
        self.loop.extra_key = self.extra_key
        self.loop.obj_exclude = {"_command_registry", "dispatcher", "subscribe_lossless", "unsubscribe_lossless", "_subscribe_lossless",
                                 "_unsubscribe_lossless", "md", "log", "_during_task", "_th", "_state_lock", "_loop", "pause_msg",
                                 "md_validator", "md_normalizer", "scan_id_source", "NO_PLAN_RETURN", "_run_start_uids"}

    def event(self, kind, *args):
        self.events.append((kind,) + args)
        for m in self.monitors:
            m(kind, *args)

    @property
    def state(self):
        m = self.ghost.get("machine")
        if m is None:
            return str(self.I.getattr(self.re, "_state"))
        return m.attrs["$st"]["v"]

    def extra_key(self, cn):
        return (("state", self.state), cn.c(self.re), cn.c(self.ghost.get("key")))

    # ------------------------------------------------------------------ main-thread calls
    def call(self, name, *args, **kwargs):
        """a blocking public call on the main thread -> ('ok', value) | ('raise', exc)"""
        self.event("call", name)
        r = catch(self.I, self.I.getattr(self.re, name), *args, **kwargs)
        self.event("returned", name, r)
        return r


# ---------------------------------------------------------------------------------------------- abstract plan
class Plan(AbsGen):
    """an arbitrary plan over the scenario's alphabet.  `alphabet(plan)` -> list of (label, factory) where factory() is a
    MsgVal; choices: yield one of them, return, raise.  On throw(e): re-raise e, handle it (continue as after a send),
    or raise another exception."""

    def __init__(self, eng, name, alphabet, can_raise=True, handles=True, max_len=None):
        self.eng, self.w, self.name = eng, eng.w, name
        self.alphabet, self.can_raise, self.handles = alphabet, can_raise, handles
        self.frame = None
        self.started = self.done = False
        self.last_msg = None
        self.k = 0
        self.max_len = max_len
        self.canon_name = name

    def resume(self, tok):
        I, w, eng = self.eng.I, self.w, self.eng
        if tok[0] == "close":
            eng.event("plan-close", self)
            self.done = True
            return ("return", None)
        if self.done:
            if tok[0] == "throw":
                raise PyRaise(tok[1])
            raise PyRaise(I.mkexc("StopIteration"))
        if not self.started:
            if tok[0] == "throw":
                self.done = True
                eng.event("plan-throw-unstarted", self, tok[1])
                raise PyRaise(tok[1])
            if tok[1] is not None:
                self.done = True
                eng.event("plan-bad-first-send", self, tok[1])
                raise PyRaise(I.mkexc("TypeError", "can't send non-None value to a just-started generator"))
            self.started = True
            eng.event("plan-start", self)
        elif tok[0] == "send":
            eng.event("plan-send", self, tok[1])
        else:
            eng.event("plan-throw", self, tok[1])
            opts = ["reraise"] + (["handle"] if self.handles else [])
            c = w.choose(opts, f"{self.name}: on throw")
            if c == "reraise":
                self.done = True
                eng.event("plan-raise", self, tok[1])
                raise PyRaise(tok[1])
        labels = [a[0] for a in self.alphabet(self)]
        if self.max_len is not None and self.k >= self.max_len:
            labels = []
        opts = labels + ["return"] + (["raise"] if self.can_raise else [])
        c = w.choose(opts, f"{self.name}#{self.k}")
        self.k += 1
        if c == "return":
            self.done = True
            self.returned = Opaque(w.fresh("plan_return"), {"token": "plan_return", "truth": True})
            eng.event("plan-return", self, self.returned)
            return ("return", self.returned)
        if c == "raise":
            self.done = True
            e = Obj(BUILTIN_CLASSES["RuntimeError"], {"args": ("plan error",), "__cause__": None}, label=w.fresh("plan_error"))
            eng.event("plan-raise", self, e)
            raise PyRaise(e)
        msg = dict(self.alphabet(self))[c]()
        self.last_msg = msg
        eng.event("plan-yield", self, msg)
        return ("yield", msg)
