"""C11 - suspension holds the plan until release, then runs the post-plan and rewinds.

Carriers: RunEngine.request_suspend (+ nested _request_suspend), _start_suspender (+ its helper plan), _wait_for, _resume
(_resume_from_suspender), _rewind, _stop_movable_objects, _run - executed symbolically under the asyncio model with an arbitrary
plan (custom commands, checkpoints, sets of a movable device), suspensions requested at every step of the loop, the suspender's
condition released by the environment at an arbitrary later moment, pre / post plans and a justification given.

Clauses, from the statement:
  P0  once a suspension has taken effect the next message executed is the suspender's own (_start_suspender), not the plan's
  P1  while suspended only the suspender's pre-plan (and the engine's own bookkeeping messages) run: no message of the plan, none replayed,
      until the condition is released
  P2  at suspension every device that was moved has been told to stop
  P3  after the release the post-plan runs to its end before the plan is rewound and continues
  P4  control does not return to the caller while the plan is suspended
  P5  the interruption is recorded in every open run with the suspender's justification
  P1C the pre-plan has run to its end when the engine starts to wait; a post-plan message runs only after the condition of its own suspension
      was released
  P1O overlapping suspensions (task group 'overlapping': every request brings its OWN condition, released by the environment independently and in
      any order; a second request may arrive while the first helper plan waits, runs its pre-plan or its post-plan): every suspension whose
      _start_suspender was executed stays in effect until its own condition is released - no message of the plan runs, none is replayed, before
      all of them are; P1 is checked per suspension (the innermost waiting helper is the one that resumes)
(that the rewind replays exactly the right messages is C04; the exit status of a suspension in a non-resumable section is C02 / C10)

Suspender side (contracts/c11_hist.py, tasks suspender.history.*): what the awaitable handed to request_suspend is for a real SuspenderBase and when it
completes, over histories of signal values - representation invariant (tripped and installed => an unreleased event is held whose wait was handed to
the engine and that no release in flight will set) proved by induction: constructor / install, every API step from an arbitrary invariant state,
every loop callback and timer at an arbitrary later moment."""
import os

from .t2 import *
from .run_mon3 import c11_checks, C11

PROP = "C11"
TRUSTED = TRUSTED_T2 + [
    "A-ENV: at most one request of another thread is in flight at a time; no new suspension is requested while two or more plans are stacked "
    "(so overlapping suspensions are explored only in the scenarios that raise that bound)",
    "the suspender's pre / post plans are arbitrary plans of at most one harmless message that do not raise; the condition is an asyncio.Event "
    "set by the environment at an arbitrary moment; A-STATUS: status objects of 'set' are not followed (no 'wait' in the alphabets)",
    "P0 - P4 are stated for calls in which only suspensions are requested (no pause / abort / stop / halt alongside) and that stay resumable",
]
NOT_DECIDED = ("the trip / release predicates of the Suspender classes (C30) and plan-start gating / removal (C31); Pausable devices; wall-clock time of the "
               "release (time is abstract: the settle timer fires at an arbitrary moment after it was armed, with the delay checked to be the settle time); "
               "a trip while the engine is paused, pausing or 'suspending' (RE.state.is_running is False: the suspender makes its event but requests nothing, "
               "and only RE.__call__ - not RE.resume - consults get_futures): no suspension is in effect then, which the statement does not cover; "
               "thread-safety of calling loop methods from the control-system thread; more than the bounded number of overlapping requests per scenario")
THOROUGH = os.environ.get("VERIF_TIER") == "thorough"

SCENARIOS = [
    ("custom,checkpoint", "suspend", {"suspend_plans": True}),
    ("custom,checkpoint,set", "suspend", {"suspend_plans": True, "max_requests": 2}),
    ("custom_async,checkpoint", "suspend", {"suspend_plans": True, "max_requests": 2}),
    ("open_run,custom,checkpoint", "suspend", {"suspend_plans": True, "max_requests": 2, "re_attrs": {"record_interruptions": True}}),
    ("custom,checkpoint", "suspend", {}),
    ("custom,checkpoint,rewindable_off,rewindable_on", "suspend", {"suspend_plans": True, "max_requests": 2}),
    # overlapping suspensions: a second request while the first helper plan is still stacked
    ("custom,checkpoint", "suspend", {"suspend_plans": True, "max_requests": 2, "max_depth": 3, "exact_empty_replay": True}),
]
if THOROUGH:
    SCENARIOS += [
        ("custom,checkpoint,set", "suspend", {"suspend_plans": True}),
        ("custom,checkpoint", "suspend", {"suspend_plans": True, "max_requests": 3, "max_depth": 4, "max_inflight": 2, "exact_empty_replay": True}),
        ("open_run,close_run,custom,checkpoint,set", "suspend", {"suspend_plans": True, "max_requests": 2, "re_attrs": {"record_interruptions": True}}),
    ]

P1 = f"{REQ}._start_suspender#ensures[the plan stays held until the suspender's condition is released]"
t2_tasks(PROP, "suspension", SCENARIOS, [c11_checks], expect=[P1])

# overlapping suspensions with INDEPENDENT conditions (two suspenders tripped at the same time, or one suspender re-tripping inside its settle
# time: every request brings its own event): the environment releases each condition on its own, in any order
P1O = C11.P1O
OVERLAPPING = [
    # (a suspension that has started occupies two stack entries - the exhausted-later single_gen and its helper plan - so a second request
    #  while the first helper is WAITING needs max_depth 4; max_depth 3 only admits a second request before the first helper is pushed)
    ("custom,checkpoint", "suspend", {"suspend_plans": True, "max_requests": 2, "max_depth": 4, "independent_conditions": True}),
    ("custom_async,checkpoint", "suspend", {"max_requests": 2, "max_depth": 4, "independent_conditions": True}),
]
if THOROUGH:
    # (three requests with pre / post plans and depth 6 - three suspensions nested - does not reach closure within the task budget: > 40 min)
    OVERLAPPING += [("custom,checkpoint", "suspend", {"max_requests": 3, "max_depth": 4, "independent_conditions": True})]
t2_tasks(PROP, "overlapping", OVERLAPPING, [c11_checks], expect=[P1, P1O])


def _twin(sc, tr):
    from .run_mon3 import C11
    m = C11(sc, tr)

    def check(kind, *a):
        m(kind, *a)
        if kind == "msg" and m.phase == "started" and a[0].command == "null":
            sc.w.check("twin:nothing at all is executed while suspended", False)
    tr.checks.append(check)


t2_tasks(PROP, "twin", [("custom,checkpoint", "suspend", {"suspend_plans": True, "max_requests": 1})], [_twin], twin="twin:nothing at all is executed while suspended")


# ------------------------------------------------------------------------------------------------ suspender side (T1): histories of the real SuspenderBase
from . import c11_hist  # noqa: E402,F401  (registers the tasks suspender.history.*)
TRUSTED = TRUSTED + c11_hist.H_TRUSTED
