"""C13 - each yield receives the response to its own message.

Carriers: RunEngine._run (parallel plan / response stacks), __call__ / resume return values, _create_result, RunEngineResult,
_open_run / _close_run (uid responses), _rewind, _start_suspender - executed symbolically under the asyncio model with an
arbitrary plan, suspender helper plans and rewinds interleaved by the environment.

Clauses, from the statement:
  R1  the value sent into the plan at a yield is the engine's response to the message yielded there: the command's result for a
      registered command (also one that completes later through a device future), the run's uid for open_run / close_run,
      None for checkpoint / clear_checkpoint / null / pause / sleep
  R2  RE(...) (and resume / abort / stop / halt ending the call) returns the uids of the runs opened, in order
  R3  when configured to return results: run_start_uids likewise, plus the plan's return value and exit status"""
import os

from .t2 import *
from .run_mon2 import c13_checks

PROP = "C13"
TRUSTED = TRUSTED_T2 + [
    "A-ENV: at most one request of another thread is in flight at a time; no new pause / suspension is requested while two or more plans are stacked",
    "responses of read / set / trigger / wait are represented by registered commands returning opaque tokens (the handlers' own return values are "
    "covered by the properties that own those handlers)",
]
NOT_DECIDED = "preprocessor-wrapped plans are covered by the transparency contracts of C20 - C23 (a transparent wrapper forwards responses unchanged)"
THOROUGH = os.environ.get("VERIF_TIER") == "thorough"

SCENARIOS = [
    ("custom,checkpoint,null", "", {}),
    ("custom,checkpoint", "pause", {}),
    ("custom,checkpoint", "suspend", {}),
    ("custom_async,checkpoint", "pause", {}),
    ("custom_async,checkpoint", "suspend", {}),
    ("open_run,close_run,custom", "", {}),
    # the status returned by a device's set() is the response to the 'set' message (real _set handler)
    ("set_fallible,custom,checkpoint", "", {}),
    ("set_fallible,checkpoint", "pause", {"max_requests": 2}),
    ("set_fallible,checkpoint", "suspend", {"max_requests": 1}),
    ("open_run,close_run,custom,checkpoint", "pause", {"max_requests": 2}),
    ("open_run,close_run,custom", "abort", {"engine_kw": {"call_returns_result": True}}),
    ("open_run,close_run,custom,checkpoint", "pause", {"engine_kw": {"call_returns_result": True}, "max_requests": 1}),
]
if THOROUGH:
    SCENARIOS += [
        ("custom,custom_async,checkpoint", "pause,suspend", {"max_requests": 2}),
        ("open_run,close_run,custom,checkpoint", "pause,stop", {"max_requests": 2}),
    ]

R1 = f"{REQ}._run#ensures[the value sent into the plan at a yield is the engine's response to the message yielded there]"
t2_tasks(PROP, "responses", SCENARIOS, [c13_checks], expect=[R1])


def _twin(sc, tr):
    def check(kind, *a):
        if kind == "plan-send" and a[0] is sc.plan:
            sc.w.check("twin:every response is None", a[1] is None)
    tr.checks.append(check)


t2_tasks(PROP, "twin", [("custom", "", {})], [_twin], twin="twin:every response is None")


# ------------------------------------------------------------------------------------------------ T1: preprocessors forward responses and return values
# "also when preprocessors ... are interleaved": the engine's preprocessors (SupplementalData, baseline, relative_set ...) are built on
# plan_mutator; with a processor that changes nothing it must be transparent - same messages, every response forwarded to the wrapped
# plan, the plan's return value returned (this is what RunEngineResult.plan_result shows).  C20's bisimulation, re-used here.
from . import C20 as _c20   # noqa: E402

task("plan_mutator[noop]", PROP, functions=[f"{_c20.MP}:plan_mutator"],
     expect=[f"{_c20.MP}:plan_mutator[noop]#outcome[same yield / return / raise at every step]"])(_c20.plan_mutator_noop)
task("msg_mutator[identity]", PROP, functions=[f"{_c20.MP}:msg_mutator"])(_c20.msg_mutator_identity)
