"""C11, suspender side: the real SuspenderBase over *histories* of signal values.

The engine holds the plan until the awaitable it was given completes (T2 tasks of C11, per suspension).  What the awaitable of a
Suspender object is, and when it completes, is decided by bluesky/suspenders.py: `__call__` (a signal value arrives on the control
system's thread), `__make_event`, `__set_event` (schedules the release on the loop: `local`, then a timer armed with the settle time
`sleep`), `remove`, `get_futures`, `install`.  The statement's "no further plan message runs until the suspender's condition is
released" for a suspender object therefore needs, at every moment of every history (trip / recover / re-trip while the timer of the
previous recovery is still pending / removal / re-installation ...):

    tripped and installed  =>  the suspender holds an event E that is not set, that no release in flight will set, and whose wait
                               was handed to the engine (request_suspend(E.wait, ...) if the engine was running when E was made;
                               get_futures() hands it over at the next plan start otherwise)

Proof by induction over the history; every case executes the real code:
  base   the real constructor establishes the invariant (not installed, no event, not tripped); install() keeps it
  step   from an ARBITRARY state satisfying the invariant (installed or not; event held or not; tripped or not; engine running or
         not; settle time symbolic) each of: a signal value with arbitrary outcomes of _should_suspend / _should_resume, remove(),
         get_futures() re-establishes it, and changes the held event only to None or to an event made in that step
  timer  every callback a step hands to the loop is run at an arbitrary LATER moment (time is abstract): the state is first replaced
         by an arbitrary invariant state that can have arisen since (held event as left by the step, forgotten, or replaced by a newer
         one; tripped or not; removed / re-installed), then the callback runs; so does every timer it arms.  Checked: it never sets the
         event held at that moment, keeps the invariant, sets an event only from a timer armed with exactly the settle time, and in
         the end the event that was held at recovery / removal has been set exactly once and no other.
Invariant states (documented fields RE, _ev, _tripped):
  not installed: (_ev None, not tripped)
  installed:     (None, not tripped) | (E, tripped) | (None, tripped) - the last one only as left by the licensed RuntimeError of
                 __call__ when the loop did not create the event in time; E unreleased + handed to the engine.
(these are exactly the states reachable in the pinned code, so that a counter-model's state can be reached by a native history)"""
from .lib import *
from .C30 import M, iter_ret, _thread_event

PROP = "C11"
SQ = f"{M}:SuspenderBase"
H_BASE = f"{SQ}.__init__#ensures[a new suspender is not installed, holds no event and is not tripped; install keeps that and subscribes with run=True]"
H_INV1 = f"{SQ}#invariant[installed and tripped => the suspender holds an event (a tripped state without one is left only by the licensed failure to create it)]"
H_INV2 = f"{SQ}#invariant[the held event is unreleased and its wait was handed to the engine]"
H_INV3 = f"{SQ}#invariant[not installed => not tripped and no event held]"
H_INV4 = f"{SQ}#invariant[an event is held only while the suspender is tripped]"
H_FRAME = f"{SQ}#invariant[a step keeps the held event, forgets it, or replaces it by one made in that step]"
H_REQ = (f"{SQ}.__call__#ensures[a trip that makes an event requests, iff the engine is running, exactly one suspension with that event's wait and the "
         "suspender's pre / post plans and justification; nothing else ever requests a suspension]")
H_LIVE = f"{SQ}.__set_event#ensures[a release in flight never sets the event the suspender holds while it is tripped (again): the engine stays held]"
H_SETTLE = f"{SQ}.__set_event#ensures[an event is set only by a timer armed with the suspender's settle time, never synchronously]"
H_ONCE = f"{SQ}.__set_event#ensures[after recovery or removal exactly the event that was held is set, once; without them none is]"
H_RAISE = f"{SQ}.__call__#raises[RuntimeError only when the event could not be created in time]"
H_ALL = [H_BASE, H_INV1, H_INV2, H_INV3, H_INV4, H_FRAME, H_REQ, H_LIVE, H_SETTLE, H_ONCE]
H_FUNCS = [f"{SQ}.{n}" for n in ("__init__", "__call__", "__make_event", "__set_event", "remove", "get_futures", "install", "tripped")]
H_TRUSTED = [
    "suspender histories: the signal (subscribe / clear_sub), the event loop (call_soon_threadsafe / call_later with cancellable handles), asyncio.Event "
    "(wait / set recorded) and the engine (state.is_running, request_suspend) are recording fakes; a callback handed to call_soon_threadsafe runs either "
    "before the calling thread continues or at an arbitrary later moment (choice), a timer at an arbitrary moment after it was armed",
    "suspender histories: _should_suspend / _should_resume are arbitrary booleans per value (what they are for each class is C30); state of a suspender "
    "= the fields RE, _ev, _tripped (+ configuration); the induction over histories from the machine-checked base / step / timer cases is the usual one",
    "suspender histories: the engine is 'running' as RE.state.is_running says at the moment of the trip; a trip while the engine is idle hands its event over "
    "through get_futures at the next RE(plan) (C31 G1 / G2)",
]
RP = {"replay": "suspenders.history"}
CAP = 8


class _Handle:
    def __init__(self, f):
        self.f, self.cancelled, self.ran = f, False, False


class H:
    """recording environment + the real suspender in a chosen invariant state"""

    def __init__(self, I):
        self.I, self.w = I, I.w
        w = I.w
        self.queue, self.timers, self.sets, self.made, self.sigcalls, self.requests = [], [], [], [], [], []
        self.in_timer = None           # delay of the timer callback being run
        self.bad_sets = []             # (event, how) of sets outside a timer armed with the settle time
        self.cb_errors = []            # exceptions raised by callbacks on the loop
        self.handed = set()            # ids of events whose wait was handed to the engine
        self.concurrent = True         # API step in progress: the loop thread may run a callback before the caller continues
        me = self

        def handle(h):
            return Opaque(w.fresh("handle"), {"methods": {"cancel": lambda I_, o, a, k: setattr(h, "cancelled", True)}, "isinstance_default": False})

        def call_soon_threadsafe(I_, loop, args, kwargs):
            h = _Handle(args[0])
            h.args = tuple(args[1:])
            me.queue.append(h)
            if me.concurrent and isinstance(h.f, Closure):
                if w.choose(["before the caller continues", "later"], f"loop thread runs {h.f.qualname.split('.')[-1]}") == "before the caller continues":
                    me.run_handle(h)
            return handle(h)

        def call_later(I_, loop, args, kwargs):
            h = _Handle(args[1])
            h.args = tuple(args[2:])
            h.delay = args[0]
            me.timers.append(h)
            return handle(h)
        self.loop = Opaque("loop", {"methods": {"call_soon_threadsafe": call_soon_threadsafe, "call_soon": call_soon_threadsafe, "call_later": call_later},
                                    "isinstance_default": False})
        self.running = w.choose([True, False], "engine is running")
        state = Opaque("state", {"attrs": {"is_running": self.running}})
        self.RE = Opaque("RE", {"attrs": {"_loop": self.loop, "loop": self.loop, "state": state}, "truth": True,
                                "methods": {"request_suspend": lambda I_, o, a, k: me.requests.append(("direct", tuple(a), dict(k)))}})
        self.sig = Opaque("signal", {"attrs": {"value": None, "name": "sig"}, "isinstance_default": False,
                                     "methods": {"clear_sub": lambda I_, o, a, k: me.sigcalls.append(("clear_sub", a[0])),
                                                 "subscribe": lambda I_, o, a, k: me.sigcalls.append(("subscribe", a[0], dict(k)))}})
        w.stubs["threading.Event"] = lambda I_, a, k: _thread_event(I_)
        w.stubs["asyncio.Event"] = lambda I_, a, k: me.new_event(made=True)
        stamp = Opaque("timestamp", {"token": "time", "truth": True, "isinstance_default": False, "methods": {"strftime": lambda I_, o_, a, k: "now"}})
        stamp.spec["binop"] = lambda I_, op, a, b: stamp
        w.stubs["datetime.datetime.now"] = lambda I_, a, k: stamp          # (only used to print when the release will happen)
        w.stubs["datetime.timedelta"] = lambda I_, a, k: Opaque("timedelta", {"token": "time", "isinstance_default": False})
        I.builtins["print"] = native(lambda I_, a, k: None)
        I.call_hooks[f"{SQ}._should_suspend"] = lambda I_, f, a, k: iter_ret(me.S)
        I.call_hooks[f"{SQ}._should_resume"] = lambda I_, f, a, k: iter_ret(me.R)
        I.call_hooks[f"{SQ}._get_justification"] = lambda I_, f, a, k: iter_ret("why")
        self.S = self.R = False
        self.sleep = w.real("sleep")
        w.add(self.sleep >= 0)
        self.pre, self.post = (Opaque(n, {"token": "plan", "truth": True, "isinstance_default": False}) for n in ("pre_plan", "post_plan"))
        self.o = construct(I, SQ, self.sig, sleep=self.sleep, pre_plan=self.pre, post_plan=self.post, tripped_message="beam dump")

    # ------------------------------------------------------------------ events
    def new_event(self, made=False, label="asyncio_event"):
        me = self

        def set_(I_, o, a, k):
            me.sets.append(o)
            if me.in_timer is None:
                me.bad_sets.append((o, "not from a timer"))
            else:
                me.w.check(H_SETTLE, Eq(me.in_timer, me.sleep), dict(RP, how="timer armed with another delay"))
        e = Opaque(self.w.fresh(label), {"methods": {"wait": lambda I_, o, a, k: None, "set": set_, "is_set": lambda I_, o, a, k: any(x is o for x in me.sets)},
                                         "truth": True, "isinstance_default": False})
        if made:
            self.made.append(e)
        return e

    # ------------------------------------------------------------------ states
    def state(self):
        o = self.o
        return (o.RE is not None, o._ev, o._tripped)

    def put(self, installed, ev, tripped):
        self.o.attrs.update({"RE": self.RE if installed else None, "_ev": ev, "_tripped": tripped})

    def choose_state(self, label, left=None, may_be_removed=True):
        """an arbitrary invariant state; `left`: the event the previous step left (it may still be held)"""
        w = self.w
        shapes = ["installed, nominal", "installed, tripped on an event", "installed, tripped, event creation failed"]
        if left is not None:
            shapes += ["installed, tripped, still the event the step left"]
        if may_be_removed:
            shapes.append("not installed")
        s = w.choose(shapes, label)
        if s == "not installed":
            self.put(False, None, False)
        elif s == "installed, nominal":
            self.put(True, None, False)
        elif s == "installed, tripped, event creation failed":
            self.put(True, None, True)
        elif "still the event" in s:
            self.put(True, left, s.startswith("installed, tripped"))
        else:
            e = self.new_event(label="held_event")
            self.handed.add(id(e))              # invariant: the held event was handed to the engine
            self.put(True, e, s == "installed, tripped on an event")
        return s

    # ------------------------------------------------------------------ running callbacks
    def run_handle(self, h):
        if h.cancelled or h.ran:
            return
        h.ran = True
        if isinstance(h.f, Closure) or not self.is_request(h.f):
            r = catch(self.I, h.f, *h.args)          # (asyncio logs an exception raised by a callback and carries on)
            if r[0] == "raise":
                self.cb_errors.append(r[1])

    def is_request(self, f):
        from pyvc.stdstubs import PartialVal
        return isinstance(f, PartialVal) and getattr(f.f, "name", None) == "request_suspend" and getattr(f.f, "obj", None) is self.RE

    def scan_requests(self):
        """requests queued on the loop: partial(RE.request_suspend, ev.wait, pre_plan=..., post_plan=..., justification=...)"""
        out = []
        for h in self.queue:
            if self.is_request(h.f) and not h.cancelled:
                out.append(h.f)
        return out

    def pending(self):
        return [h for h in self.queue if not h.ran and not h.cancelled and not self.is_request(h.f)]

    # ------------------------------------------------------------------ the invariant
    def check_inv(self, before, licensed_raise=False, extra=None):
        """`before` = (installed, ev, tripped) before the step / callback"""
        w = self.w
        info = dict(RP, **(extra or {}))
        inst, ev, tr = self.state()
        inst0, ev0, tr0 = before
        tripped = tr if isinstance(tr, bool) else None
        if tripped is None:
            raise EngineError(f"_tripped is not a concrete boolean: {tr!r}")
        if not inst:
            w.check(H_INV3, ev is None and not tripped, info)
            return
        no_event_state = tripped and ev is None
        same_as_before = inst0 and ev0 is None and tr0 is True
        w.check(H_INV1, (not no_event_state) or licensed_raise or same_as_before, info)
        w.check(H_FRAME, ev is None or ev is ev0 or any(ev is m for m in self.made), info)
        if ev is not None:
            w.check(H_INV2, (not any(ev is s for s in self.sets)) and id(ev) in self.handed, dict(info, released=any(ev is s for s in self.sets)))
            w.check(H_INV4, tripped, info)


def _settle(h, I, left, removed_possible=True):
    """run everything a step handed to the loop, each callback and each timer at an arbitrary later moment"""
    w = I.w
    rounds = 0
    while True:
        todo = h.pending()
        timer = None
        if not todo:
            live = [t for t in h.timers if not t.ran and not t.cancelled]
            if not live:
                return
            timer = live[0]
        rounds += 1
        if rounds > CAP:
            raise EngineError("release machinery keeps scheduling callbacks")
        what = "a loop callback of the release runs" if timer is None else "the release timer fires"
        h.choose_state(f"state when {what}", left=left, may_be_removed=removed_possible)
        before = h.state()
        held = before[1]
        n_sets = len(h.sets)
        if timer is None:
            h.run_handle(todo[0])
        else:
            timer.ran = True
            h.in_timer = timer.delay
            try:
                r = catch(I, timer.f, *timer.args)
                if r[0] == "raise":
                    h.cb_errors.append(r[1])
            finally:
                h.in_timer = None
        new_sets = h.sets[n_sets:]
        w.check(H_LIVE, not (before[0] and before[2] is True and held is not None and any(s is held for s in new_sets)), dict(RP, at=what))
        if h.scan_requests():
            w.check(H_REQ, False, dict(RP, at=what, note="the release machinery requested a suspension"))
        h.check_inv(before, extra={"at": what})


def _finish(h, expected, info):
    w = h.w
    for ev, how in h.bad_sets:
        # allowed only if there is no settle time at all
        w.check(H_SETTLE, Eq(h.sleep, 0), dict(info, how=how))
    ok = len(h.sets) == len(expected) and all(a is b for a, b in zip(h.sets, expected))
    w.check(H_ONCE, ok and not h.cb_errors, dict(info, n_set=len(h.sets), n_expected=len(expected), callback_errors=[repr(e)[:80] for e in h.cb_errors]))


@task("suspender.history.base", PROP, functions=[f"{SQ}.__init__", f"{SQ}.install"], expect=[H_BASE])
def history_base(I):
    h = H(I)
    w, o = I.w, h.o
    new_ok = o.RE is None and o._ev is None and o._tripped is False
    r = catch(I, I.getattr(o, "install"), h.RE)
    sub = [c for c in h.sigcalls if c[0] == "subscribe"]
    w.check(H_BASE, new_ok and r[0] == "ok" and o.RE is h.RE and o._ev is None and o._tripped is False and len(sub) == 1 and sub[0][1] is o
            and sub[0][2].get("run", True) is True and not h.queue and not h.timers, RP)


@task("suspender.history.step", PROP, functions=H_FUNCS, expect=[H_INV1, H_INV2, H_INV3, H_INV4, H_FRAME, H_REQ, H_LIVE, H_SETTLE, H_ONCE],
      covers=["trip makes an event", "trip keeps the held event", "recovery releases the held event", "recovery with nothing held", "neither condition",
              "not installed", "event creation failed", "remove releases the held event", "get_futures", "a release fires while tripped on a newer event"],
      assumptions=H_TRUSTED)
def history_step(I):
    h = H(I)
    w, o = I.w, h.o
    h.choose_state("state before the step")
    before = h.state()
    inst0, ev0, tr0 = before
    step = w.choose(["signal value", "remove", "get_futures"], "step")
    expected = []
    licensed = False
    if step == "signal value":
        h.S, h.R = w.bool("should_suspend"), w.bool("should_resume")
        r = catch(I, I.getattr(o, "__call__"), w.real("value"))
        if r[0] == "raise":
            w.cover("event creation failed")
            licensed = bool(exc_is(I, r[1], "RuntimeError")) and inst0 and ev0 is None and o._ev is None and not h.made
            w.check(H_RAISE, And(licensed, h.S), RP)
        if not inst0:
            w.cover("not installed")
        elif w.branch(h.S, "S"):
            w.cover("trip keeps the held event" if ev0 is not None else "trip makes an event")
        elif w.branch(h.R, "R"):
            w.cover("recovery releases the held event" if ev0 is not None else "recovery with nothing held")
            if ev0 is not None:
                expected = [ev0]
        else:
            w.cover("neither condition")
    elif step == "remove":
        r = catch(I, I.getattr(o, "remove"))
        w.check(H_INV3, r[0] == "ok", dict(RP, note="remove raised"))
        if inst0 and ev0 is not None:
            w.cover("remove releases the held event")
            expected = [ev0]
    else:
        r = catch(I, I.getattr(o, "get_futures"))
        w.cover("get_futures")
        if r[0] == "ok" and o._ev is not None and any(o._ev is m for m in h.made):
            futs = list(r[1][0])
            if any(getattr(f, "obj", None) is o._ev and getattr(f, "name", None) == "wait" for f in futs):
                h.handed.add(id(o._ev))                      # handed to the caller (the engine's plan-start prologue)
        elif r[0] == "raise":
            licensed = inst0 and ev0 is None and tr0 is True and o._ev is None and not h.made
            w.check(H_RAISE, licensed, dict(RP, note="get_futures raised"))
    h.concurrent = False
    # ---- suspensions requested by the step
    reqs = h.scan_requests()
    made_now = o._ev if (o._ev is not None and any(o._ev is m for m in h.made)) else None
    want = 1 if (step == "signal value" and made_now is not None and h.running) else 0
    ok = len(reqs) == want and not h.requests
    if ok and reqs:
        p = reqs[0]
        a0 = p.args[0] if p.args else None
        ok = (len(p.args) == 1 and getattr(a0, "obj", None) is made_now and getattr(a0, "name", None) == "wait"
              and p.kwargs.get("pre_plan") is h.pre and p.kwargs.get("post_plan") is h.post and p.kwargs.get("justification") == "why")
        if ok:
            h.handed.add(id(made_now))
    w.check(H_REQ, ok, dict(RP, step=step, n_requests=len(reqs), wanted=want))
    if made_now is not None and not h.running:
        h.handed.add(id(made_now))        # made while the engine is not running: handed over by get_futures at the next plan start (C31)
    h.check_inv(before, licensed_raise=licensed, extra={"step": step})
    # ---- what the step handed to the loop, run at arbitrary later moments
    left = o._ev
    n_before = len(h.sets)
    _settle(h, I, left)
    if h.sets[n_before:] and any(x is not None for x in (h.state()[1],)) and h.state()[2] is True:
        w.cover("a release fires while tripped on a newer event")
    _finish(h, expected, dict(RP, step=step))


# ---- must-fail twin: in the real code a release *is* in flight while the suspender is tripped again (re-trip inside the settle time);
# what must hold is that it concerns another event than the one held
@task("suspender.history.twin", PROP, twin="twin:no release ever fires while the suspender is tripped")
def history_twin(I):
    h = H(I)
    w, o = I.w, h.o
    e = h.new_event(label="held_event")
    h.handed.add(id(e))
    h.put(True, e, True)
    h.S, h.R = False, True
    h.concurrent = False
    catch(I, I.getattr(o, "__call__"), w.real("value"))
    for q in h.pending():
        h.run_handle(q)
    s = h.choose_state("state when the release timer fires", left=o._ev)
    for t in h.timers:
        I.call_value(t.f, *t.args)
    w.check("twin:no release ever fires while the suspender is tripped", not (h.sets and o._tripped is True))
