"""Arithmetic lemmas of C26 (div/mod by *symbolic* divisors), stated ONCE as z3 terms and used in two ways:

  * `inst(name, *terms)` -> the lemma instantiated at integer terms, guarded by the non-negativity / positivity of the atoms
    (an implication that is added to a path condition as a proved fact; it is never left to the solver's quantifier heuristics);
  * `lean_source()` -> the same statements printed as Lean 4 theorems over `Nat` together with their hand-written proofs
    (core Lean only: `omega`, `grind`, `Nat.*` lemmas - no Mathlib), checked by the Lean kernel on every run of ./check C26.

The SMT solvers are not trusted with these facts (z3 answers `unknown` or needs > 10 s on several of them, and differently for
different seeds); they only have to do linear reasoning over the instantiated facts.

Transfer from Nat to Int (trusted, stated in contracts/C26.py): an instance is only usable when every atom of the argument
terms is >= 0 and every atom below a divisor is >= 1; the terms may be built with + * div mod only (no subtraction), so that
SMT-LIB Int `div`/`mod` and Lean's Nat `/` and `%` denote the same numbers.  `inst` enforces the syntactic part and emits the
guards."""
import itertools

import z3

If, And, Not = z3.If, z3.And, z3.Not


# name -> (variable names, builder(vars...) -> (hypotheses, conclusion), Lean proof (hypotheses are h0, h1, ...))
LEMMAS = {}


def lemma(names, proof):
    def deco(f):
        LEMMAS[f.__name__] = (names.split(), f, proof)
        return f
    return deco


@lemma("t R L", "Nat.mod_mul_left_div_self t R L")
def plain(t, R, L):
    """axis held R steps per value, L values, tiled: element t of tile(repeat(v, R)) is v[(t div R) mod L]"""
    return [], (t % (L * R)) / R == (t / R) % L


@lemma("x m q c", "by\n  rw [h0, Nat.mul_add_mod, Nat.mod_eq_of_lt h1]")
def decomp(x, m, q, c):
    return [x == m * q + c, c < m], x % m == c


@lemma("x L", """by
  have h1 := Nat.div_add_mod x L
  have h3 := Nat.mod_lt x h0
  rcases Nat.mod_two_eq_zero_or_one (x / L) with hp | hp
  · rw [if_pos hp]
    have e : x / L = 2 * (x / L / 2) := by omega
    have r1 : L * (2 * (x / L / 2)) = (L + L) * (x / L / 2) := by grind
    rw [← e] at r1
    apply decomp x (L + L) (x / L / 2) (x % L)
    · omega
    · omega
  · rw [if_neg (by omega)]
    have e : x / L = 2 * (x / L / 2) + 1 := by omega
    have r1 : L * (2 * (x / L / 2) + 1) = (L + L) * (x / L / 2) + L := by grind
    rw [← e] at r1
    apply decomp x (L + L) (x / L / 2) (L + x % L)
    · omega
    · omega""")
def mod2L(x, L):
    """position inside a forth-and-back pass of 2L entries"""
    return [L > 0], x % (L + L) == If((x / L) % 2 == 0, x % L, L + x % L)


@lemma("t R L", "by\n  rw [Nat.mod_mul_left_div_self, mod2L _ _ h0, Nat.div_div_eq_div_mul, Nat.mul_comm R L]")
def snake(t, R, L):
    """element t of tile(repeat(v ++ reverse(v), R)): forth on even passes, back on odd passes"""
    return [L > 0], (t % ((L + L) * R)) / R == If((t / (L * R)) % 2 == 0, (t / R) % L, L + (t / R) % L)


@lemma("t a b", "by\n  rw [Nat.div_div_eq_div_mul, Nat.mul_comm]")
def divdiv(t, a, b):
    return [], (t / b) / a == t / (a * b)


@lemma("t a b", "by\n  apply Nat.div_lt_of_lt_mul; rw [Nat.mul_comm]; exact h0")
def div_lt(t, a, b):
    return [t < a * b], t / b < a


@lemma("x a", "⟨Nat.mod_eq_of_lt h0, Nat.div_eq_of_lt h0⟩")
def small(x, a):
    return [x < a], And(x % a == x, x / a == 0)


@lemma("a r L", """by
  have hL : 0 < L := by omega
  constructor
  · rw [Nat.mul_comm, Nat.mul_add_div hL, Nat.div_eq_of_lt h0]; rfl
  · rw [Nat.mul_comm, Nat.mul_add_mod, Nat.mod_eq_of_lt h0]""")
def muladd(a, r, L):
    return [r < L], And((a * L + r) / L == a, (a * L + r) % L == r)


@lemma("a r P L", """by
  have h2 : (a + 1) * L ≤ P * L := Nat.mul_le_mul_right L h0
  have h3 : (a + 1) * L = a * L + L := by rw [Nat.add_mul, Nat.one_mul]
  omega""")
def bound(a, r, P, L):
    return [a < P, r < L], a * L + r < P * L


@lemma("t R", """by
  rw [Nat.succ_div, if_neg]; · rfl
  · intro hd; exact h0 (Nat.mod_eq_zero_of_dvd hd)""")
def k1(t, R):
    return [(t + 1) % R != 0], (t + 1) / R == t / R


@lemma("t R", "by\n  rw [Nat.succ_div, if_pos (Nat.dvd_of_mod_eq_zero h0)]")
def k2(t, R):
    return [(t + 1) % R == 0], (t + 1) / R == t / R + 1


@lemma("x L", """by
  have a := Nat.div_add_mod x L
  have b := Nat.div_add_mod (x + 1) L
  rw [k1 x L h0] at b
  omega""")
def k3(x, L):
    return [(x + 1) % L != 0], (x + 1) % L == x % L + 1


@lemma("x L", """by
  have a := Nat.div_add_mod x L
  have b := Nat.div_add_mod (x + 1) L
  rw [k2 x L h0, h0, Nat.mul_succ] at b
  omega""")
def k4(x, L):
    return [(x + 1) % L == 0], x % L + 1 == L


@lemma("u R L", """by
  rw [Nat.mul_comm, Nat.mod_mul]
  constructor
  · intro h
    have h1 : u % R = 0 := by omega
    have h2 : R * (u / R % L) = 0 := by omega
    rcases Nat.mul_eq_zero.mp h2 with h3 | h3
    · omega
    · exact ⟨h1, h3⟩
  · intro ⟨h1, h2⟩
    rw [h1, h2]; simp""")
def k5(u, R, L):
    """a multiple of L*R is a multiple of R whose quotient is a multiple of L (carry chain of the mixed-radix counter)"""
    return [R > 0], (u % (L * R) == 0) == And(u % R == 0, (u / R) % L == 0)


@lemma("x y L", """by
  have a := Nat.div_add_mod x L
  have b := Nat.div_add_mod y L
  rw [h0, h1] at a
  omega""")
def j1(x, y, L):
    return [x / L == y / L, x % L == y % L], x == y


@lemma("a b", "Nat.mul_pos h0 h1")
def mulpos(a, b):
    return [a > 0, b > 0], a * b > 0


@lemma("a b c", "Nat.mul_assoc a b c")
def assoc(a, b, c):
    return [], (a * b) * c == a * (b * c)


# ------------------------------------------------------------------------------------------------ z3 -> Lean
_K = z3
_BIN = {z3.Z3_OP_IDIV: "/", z3.Z3_OP_MOD: "%", z3.Z3_OP_LT: "<", z3.Z3_OP_LE: "≤", z3.Z3_OP_GT: ">", z3.Z3_OP_GE: "≥",
        z3.Z3_OP_IMPLIES: "→"}
_NARY = {z3.Z3_OP_ADD: "+", z3.Z3_OP_MUL: "*", z3.Z3_OP_AND: "∧", z3.Z3_OP_OR: "∨"}


def lean_of(e):
    """fully parenthesised Lean 4 text of a z3 term of the fragment used by the lemmas (anything else is an error)"""
    if z3.is_int_value(e):
        if e.as_long() < 0:
            raise ValueError("negative numeral in a Nat lemma")
        return str(e.as_long())
    if z3.is_true(e):
        return "True"
    if z3.is_false(e):
        return "False"
    k = e.decl().kind()
    ch = e.children()
    if k == z3.Z3_OP_UNINTERPRETED and not ch and e.sort() == z3.IntSort():
        return e.decl().name()
    s = [lean_of(c) for c in ch]
    if k in _NARY and len(s) >= 2:
        return "(" + f" {_NARY[k]} ".join(s) + ")"
    if k in _BIN and len(s) == 2:
        return f"({s[0]} {_BIN[k]} {s[1]})"
    if k == z3.Z3_OP_ITE and len(s) == 3:
        return f"(if {s[0]} then {s[1]} else {s[2]})"
    if k == z3.Z3_OP_EQ and len(s) == 2:
        return f"({s[0]} {'↔' if ch[0].sort() == z3.BoolSort() else '='} {s[1]})"
    if k == z3.Z3_OP_DISTINCT and len(s) == 2:
        return f"({s[0]} ≠ {s[1]})"
    if k == z3.Z3_OP_NOT and len(s) == 1:
        return f"(¬ {s[0]})"
    raise ValueError(f"term outside the lemma fragment: {e}")


def lean_source():
    out = ["-- generated by contracts/c26_lemmas.py from the z3 statements; proofs hand-written; core Lean 4 only",
           "set_option linter.unusedVariables false", "namespace C26", ""]
    for name, (names, f, proof) in LEMMAS.items():
        vs = [z3.Int(n) for n in names]
        hyps, concl = f(*vs)
        hs = "".join(f" (h{i} : {lean_of(h)})" for i, h in enumerate(hyps))
        out.append(f"theorem {name} ({' '.join(names)} : Nat){hs} :\n    {lean_of(concl)} := {proof}")
        out.append("")
    out.append("end C26")
    for name in LEMMAS:
        out.append(f"#print axioms C26.{name}")
    return "\n".join(out) + "\n"


# ------------------------------------------------------------------------------------------------ instantiation
def _scan(e, under_div, atoms, pos_atoms):
    if z3.is_int_value(e):
        if e.as_long() < 0 or (under_div and e.as_long() == 0):
            raise ValueError(f"numeral {e} not allowed here")
        return
    k = e.decl().kind()
    ch = e.children()
    if k == z3.Z3_OP_UNINTERPRETED and not ch and e.sort() == z3.IntSort():
        atoms[e.decl().name()] = e
        if under_div:
            pos_atoms[e.decl().name()] = e
        return
    if k in (z3.Z3_OP_ADD, z3.Z3_OP_MUL):
        for c in ch:
            _scan(c, under_div, atoms, pos_atoms)
        return
    if k in (z3.Z3_OP_IDIV, z3.Z3_OP_MOD) and not under_div:
        _scan(ch[0], False, atoms, pos_atoms)
        _scan(ch[1], True, atoms, pos_atoms)      # a divisor: sums / products of atoms >= 1 and positive numerals only
        return
    raise ValueError(f"lemma argument outside the Nat-transferable fragment (+ * div mod over atoms): {e}")


def inst(name, *args):
    """the lemma `name` at the integer terms `args`: (atoms >= 0, divisor atoms >= 1, hypotheses) -> conclusion"""
    names, f, _ = LEMMAS[name]
    if len(args) != len(names):
        raise ValueError(f"lemma {name} takes {len(names)} arguments")
    args = [z3.IntVal(a) if isinstance(a, int) else a for a in args]
    atoms, pos_atoms = {}, {}
    for a in args:
        _scan(a, False, atoms, pos_atoms)
    hyps, concl = f(*args)
    # divisors introduced by the lemma statement itself are (sums / products of) its arguments: their atoms must be >= 1 too
    vs = [z3.Int("$" + n) for n in names]
    h0, c0 = f(*vs)
    divvars = {}
    for e in h0 + [c0]:
        _divisor_vars(e, divvars)
    for v, a in zip(vs, args):
        if v.decl().name() in divvars:
            _scan(a, True, atoms, pos_atoms)
    guards = [a >= 0 for n, a in sorted(atoms.items()) if n not in pos_atoms] + [a >= 1 for n, a in sorted(pos_atoms.items())]
    return z3.Implies(And(*(guards + hyps)) if guards + hyps else z3.BoolVal(True), concl)


def _divisor_vars(e, out, under=False):
    if z3.is_int_value(e):
        return
    k = e.decl().kind()
    ch = e.children()
    if k == z3.Z3_OP_UNINTERPRETED and not ch:
        if under:
            out[e.decl().name()] = True
        return
    if k in (z3.Z3_OP_IDIV, z3.Z3_OP_MOD):
        _divisor_vars(ch[0], out, under)
        _divisor_vars(ch[1], out, True)
        return
    for c in ch:
        _divisor_vars(c, out, under)


# ------------------------------------------------------------------------------------------------ sanity of the z3 statements
def brute_force(bound=5):
    """evaluates every lemma (in its z3 form, with SMT-LIB div/mod) on all assignments 0..bound of its variables that satisfy
    the transfer guards; returns the list of failures (must be empty).  A guard against transcription slips, not a proof."""
    bad = []
    for name, (names, f, _) in LEMMAS.items():
        vs = [z3.Int(n) for n in names]
        hyps, concl = f(*vs)
        divvars = {}
        for e in hyps + [concl]:
            _divisor_vars(e, divvars)
        body = z3.Implies(And(*hyps), concl) if hyps else concl
        rng = range(0, bound + 1 if len(names) <= 3 else 4)
        for vals in itertools.product(rng, repeat=len(names)):
            if any(v == 0 and n in divvars for n, v in zip(names, vals)):
                continue
            r = z3.simplify(z3.substitute(body, *[(v, z3.IntVal(x)) for v, x in zip(vs, vals)]))
            if not z3.is_true(r):
                bad.append((name, vals, str(r)))
                break
    return bad


if __name__ == "__main__":
    print(lean_source())
    print(brute_force())
