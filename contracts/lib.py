"""Helpers shared by the sidecar contract files."""
from pyvc.runner import task, Task, REGISTRY
from pyvc.vals import Sym, Obj, Opaque, MsgVal, Closure, BoundMethod
from pyvc.interp import PyRaise, Interp, GenObj, AbsGen
from pyvc.world import PathEnd
from pyvc.source import EngineError, BUILTIN_CLASSES
from pyvc.builtins_ import native
from pyvc import ops
from pyvc.ops import and_ as And, or_ as Or, not_ as Not, implies as Implies, ite, eq as Eq

__all__ = ["task", "Sym", "Obj", "Opaque", "MsgVal", "PyRaise", "PathEnd", "EngineError", "ops", "And", "Or", "Not",
           "Implies", "ite", "Eq", "catch", "native", "construct", "call_method", "exc_is", "method", "opaque",
           "BoundMethod", "Closure", "GenObj", "AbsGen", "BUILTIN_CLASSES", "REGISTRY", "Interp", "callable_pair", "bare"]


def catch(I, f, *args, **kwargs):
    """call an object-language callable; -> ('ok', value) | ('raise', exception object)"""
    try:
        return ("ok", I.call_value(f, *args, **kwargs))
    except PyRaise as pr:
        return ("raise", pr.exc)


def construct(I, qualcls, *args, **kwargs):
    """instantiate a repository class by running its real constructor chain"""
    modname, cname = qualcls.split(":")
    ci = I.P.class_info(modname, cname)
    return I.call_value(ci, *args, **kwargs)


def bare(I, qualcls, **attrs):
    """an instance whose fields are given directly (symbolic pre-state of a method contract)"""
    modname, cname = qualcls.split(":")
    ci = I.P.class_info(modname, cname)
    return Obj(ci, attrs)


def method(I, obj, name):
    return I.getattr(obj, name)


def call_method(I, obj, name, *args, **kwargs):
    return I.call_value(I.getattr(obj, name), *args, **kwargs)


def exc_is(I, exc, clsname):
    if isinstance(clsname, str) and ":" in clsname:
        m, c = clsname.split(":")
        ci = I.P.class_info(m, c)
        return isinstance(exc, Obj) and exc.cls.issubclass(ci)
    return I.exc_isinstance(exc, clsname)


def opaque(I, name, **spec):
    return Opaque(name, spec)


def recorder(log, name, ret=None):
    """opaque method stub that appends (name, args, kwargs) to `log`"""
    def m(I, obj, args, kwargs):
        log.append((name, obj, tuple(args), dict(kwargs)))
        return ret(I, obj, args, kwargs) if callable(ret) else ret
    return m


def callable_pair(b, name):
    """a generator *function* for bisimulations: every call returns a fresh abstract generator (the k-th call on either
    side returns the k-th generator of the pair list, so the two sides correspond by call order)"""
    pairs = []

    def mk(idx, side):
        calls = [0]

        def f(I_, a, k):
            n = calls[0]
            calls[0] += 1
            while len(pairs) <= n:
                p = b.absgen_pair(f"{name}@{len(pairs)}" if pairs else name)
                p[0].canon_name = p[1].canon_name = name
                pairs.append(p)
            side.log.append((name + "()", n, "call", tuple(a)))
            return pairs[n][idx]
        f._canon_label = name
        return native(f)
    return mk(0, b.impl), mk(1, b.ref)
