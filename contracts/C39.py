"""C39 - a LiveDispatcher's re-emitted stream is a valid run.

Carriers: bluesky/callbacks/stream.py: LiveDispatcher.start / event / process_event / stop / emit.
Abstract view: a document is *re-emitted* at the moment it is handed to the LiveDispatcher's own dispatcher
(`self.dispatcher.process(name, doc)`: from then on subscribers have seen it, whatever happens afterwards);
count(s) = number of events re-emitted in stream s since the last start.
Step contracts (from the statement):
  process_event(doc, stream_name=s): emits the stream's descriptor first if it is new, then exactly one event whose
      seq_num == count(s) + 1 and whose descriptor is that descriptor's uid; count'(s) = count(s)+1; other streams untouched
  stop: the re-emitted RunStop has num_events[s] == count(s) for every stream with events - whatever the raw RunStop
      says (a transforming subclass emits other events than the raw run has); afterwards count == 0 everywhere
  start: re-emits a RunStart with a fresh uid
The environment of a step is arbitrary ("arbitrary runs fed through pass-through and transforming subclasses"):
  * a subscriber of the dispatcher may raise while it handles a document (Dispatcher() does not ignore exceptions, so
    the exception leaves emit() after earlier subscribers have received the document);
  * a subscriber may feed a further event back into the same LiveDispatcher while it handles a document;
  * the schema validator may reject a document (a transforming subclass produced an ill-formed one): then it is NOT
    re-emitted.
In every case the view must stay exact: the next event of the stream carries count+1 where count is the number of
events really handed to the subscribers, every event references a descriptor that was handed over before it, and the
RunStop reports exactly these counts.
Lemma (induction over the document sequence, immediate from the step contracts): events of each stream are numbered
1..N and num_events reports N per stream.
The pre-state of each step is an arbitrary state satisfying the representation invariant, built from symbolic counts
for two generic streams 'a' (the one the event goes to) and 'b' (any other stream).
"""
from .lib import *

PROP = "C39"
MS = "bluesky.callbacks.stream"
Q = f"{MS}:LiveDispatcher"
TRUSTED = ["event_model schema validation (schema_validators[name].validate) is effect-free on the dispatcher state and on the "
           "document: it either returns or raises (both outcomes are explored)",
           "Dispatcher.process(name, doc) hands the document to the subscribers and has no other effect on the LiveDispatcher than "
           "what a subscriber does: return, raise (explored for one document per step) or call process_event again (explored "
           "once, depth 1)",
           "collections.ChainMap(a, b, ...) converted by dict() is the union with earlier maps taking precedence",
           "A-UUID: new_uid() values are fresh and pairwise distinct; A-TIME",
           "stream names and descriptor uids are used only as dictionary keys (concrete representatives 'a', 'b' stand for any distinct names)"]
NOT_DECIDED = ("schema validity of the re-emitted documents (external validators; only 'accepts' / 'rejects' is modelled); "
               "subclasses that override process_event / emit; more than one fault or more than one level of re-entrancy per step")

RP = "stream.live_dispatcher"


def _ret(v):
    return v
    yield


def docname(x):
    return x.dotted.split(".")[-1] if hasattr(x, "dotted") else x


def install(I, emitted, fault=None):
    """assumed contracts of the environment. `emitted` receives every (name, doc) handed to the dispatcher.
    fault: None or {'kind': 'subscriber'|'reenter'|'validator', 'on': 'descriptor'|'event', 'armed': bool, 'reenter': callable}:
    while armed, the first document of kind `on` is rejected by the validator / makes a subscriber raise after it was
    delivered / makes a subscriber call back into the LiveDispatcher; the fault then disarms itself."""
    w = I.w
    from pyvc.stdstubs import _new_uid
    I.call_hooks["bluesky.utils:new_uid"] = lambda I_, f, a, k: _ret(_new_uid(I_, a, k))
    for m in ("start", "descriptor", "event", "stop"):
        I.call_hooks[f"bluesky.callbacks.core:CallbackBase.{m}"] = lambda I_, f, a, k: _ret(None)

    def chainmap(I_, a, k):
        out = {}
        for m in reversed(a):
            out.update(m)
        return out
    w.stubs["collections.ChainMap"] = chainmap

    def hit(kind, n):
        if fault and fault.get("armed") and fault["kind"] == kind and fault["on"] == n:
            fault["armed"] = False
            fault["hit"] = True
            return True
        return False

    def validator(I_, o, name):
        n = docname(name)

        def validate(I2, o2, a, k):
            if hit("validator", n):
                raise PyRaise(I2.mkexc("Exception", "ValidationError"))
            return None
        return Opaque(f"validator[{n}]", {"methods": {"validate": validate}, "isinstance_default": False})
    w.stubs[(MS, "schema_validators")] = Opaque("schema_validators", {"getitem": validator})

    def process(I_, o, a, k):
        n = docname(a[0])
        emitted.append((a[0], a[1]))          # handed to the subscribers: the document is re-emitted
        if hit("subscriber", n):
            raise PyRaise(I_.mkexc("RuntimeError", "a subscriber failed"))
        if hit("reenter", n):
            fault["reenter"]()
        return None
    disp = opaque(I, "dispatcher", methods={"process": process})
    return disp


DID_A = frozenset((("x",), "a", ("raw1",)))


def make_ld(I, disp, ka, kb, desc_known):
    """an arbitrary state of a LiveDispatcher after ka events in stream 'a' and kb events in stream 'b'"""
    w = I.w
    counts = {}
    descs = {}
    if desc_known == "other":
        # stream 'a' already has events, but under a different descriptor (e.g. other data keys): the incoming event
        # needs a new descriptor while the numbering of the stream continues
        descs["a"] = {frozenset((("x", "w"), "a", ("raw1",))): {"uid": "desc-a-old", "data_keys": {"x": {}, "w": {}}}}
        counts["a"] = ka
    elif desc_known == "other-id":
        # same data keys and raw descriptor, but the events so far were identified by other id_args
        descs["a"] = {frozenset((("x",), "a", ("cfg1",))): {"uid": "desc-a-old", "data_keys": {"x": {}}}}
        counts["a"] = ka
    elif desc_known:
        descs["a"] = {DID_A: {"uid": "desc-a", "data_keys": {"x": {}}}}
        counts["a"] = ka
    else:
        # no event has been emitted in stream 'a' yet
        pass
    descs_b = w.choose([True, False], "stream b has events")
    if descs_b:
        descs["b"] = {frozenset((("y",), "b", ("raw2",))): {"uid": "desc-b", "data_keys": {"y": {}}}}
        counts["b"] = kb
        w.add(kb >= 1)
    else:
        w.add(Eq(kb, 0))
    if desc_known:
        w.add(ka >= 1)
    else:
        w.add(Eq(ka, 0))
    total = ka + kb
    o = Obj(I.P.class_info(MS, "LiveDispatcher"), {
        "dispatcher": disp, "seq_count": total, "_seq_counts": counts,
        "raw_descriptors": {"raw1": {"uid": "raw1", "data_keys": {"x": {"dtype": "number", "shape": [], "source": "dev"}}, "name": "primary"},
                            "raw2": {"uid": "raw2", "data_keys": {"y": {"dtype": "number", "shape": [], "source": "dev"}}, "name": "primary"}},
        "_stream_start_uid": "start-uid", "_descriptors": descs})
    return o, descs_b


def pre_descs(known, has_b):
    """uids of the descriptors re-emitted before the step (pre-state of make_ld)"""
    out = []
    if known is True:
        out.append("desc-a")
    elif known:
        out.append("desc-a-old")
    if has_b:
        out.append("desc-b")
    return out


def run_view(emitted, ka, kb, descs_before):
    """the statement's clauses over a sequence of re-emitted documents that continues a run in which ka / kb events
    were emitted in streams a / b: -> (numbering clauses, reference clauses, events per stream, stops)"""
    counts = {"a": ka, "b": kb}
    n_ev = {"a": 0, "b": 0}
    known = list(descs_before)
    numbered, refs, stops = [], [], []
    for n, d in emitted:
        n = docname(n)
        if n == "descriptor":
            refs.append(Eq(d.get("run_start"), "start-uid"))
            known.append(d.get("uid"))
        elif n == "event":
            s = "a" if "x" in d["data"] else "b"
            counts[s] = counts[s] + 1
            n_ev[s] += 1
            numbered.append(Eq(d.get("seq_num"), counts[s]))
            refs.append(Or(*[Eq(d.get("descriptor"), u) for u in known]))
        elif n == "stop":
            stops.append(d)
    return numbered, refs, n_ev, stops


def stop_clause(stops, emitted_after, want):
    """exactly one RunStop, last, with num_events[s] == want[s] for every stream name s (a stream that is not listed
    on either side has 0 events, as in the RunEngine's own RunStop)"""
    if len(stops) != 1 or emitted_after != 0:
        return False
    return And(num_events_clause(stops[0].get("num_events"), want), Eq(stops[0].get("run_start"), "start-uid"))


def num_events_clause(ne, want):
    if not isinstance(ne, dict):
        return False
    names = sorted(set(ne.keys()) | set(want.keys()), key=str)
    return And(*[Eq(ne.get(s, 0), want.get(s, 0)) for s in names])


def raw_stop(w, tag=""):
    """the raw run's RunStop: any exit status; its num_events are those of the RAW run (arbitrary, any stream names)"""
    es = w.str("exit_status" + tag)
    w.add(Or(Eq(es, "success"), Eq(es, "abort"), Eq(es, "fail")))
    return {"uid": "stop1" + tag, "run_start": "raw-start", "exit_status": es, "reason": "", "time": w.real("t_stop" + tag),
            "num_events": {"a": w.int("raw_na" + tag), "b": w.int("raw_nb" + tag), "primary": w.int("raw_np" + tag)}}


def doc_a(w, uid, tag=""):
    return {"uid": uid, "descriptor": "raw1", "data": {"x": w.real("x" + tag)}, "timestamps": {"x": w.real("tx" + tag)},
            "seq_num": w.int("raw_seq" + tag), "time": w.real("t" + tag)}


def doc_b(w, uid):
    return {"uid": uid, "descriptor": "raw2", "data": {"y": w.real("y")}, "timestamps": {"y": w.real("ty")}, "seq_num": 1, "time": w.real("t2")}


OB_EV = f"{Q}.process_event#ensures[exactly one event, seq_num == count(stream)+1]"
OB_DESC = f"{Q}.process_event#ensures[descriptor emitted first iff new; event references it]"
OB_POST = f"{Q}.process_event#ensures[count'(stream) = count+1, other streams unchanged]"
OB_POST_STOP = f"{Q}.process_event#ensures[count' is what a following stop reports as num_events]"


@task("process_event", PROP, functions=[f"{Q}.process_event", f"{Q}.emit", f"{Q}.stop"],
      expect=[OB_EV, OB_DESC, OB_POST, OB_POST_STOP],
      covers=["new descriptor", "known descriptor", "other stream has events", "new descriptor by id_args"])
def process_event(I):
    w = I.w
    emitted = []
    disp = install(I, emitted)
    ka, kb = w.int("count_a"), w.int("count_b")
    known = w.choose([False, True, "other", "other-id"], "descriptor already emitted for this stream")
    o, has_b = make_ld(I, disp, ka, kb, known)
    if has_b:
        w.cover("other stream has events")
    w.cover("known descriptor" if known is True else "new descriptor")
    doc = doc_a(w, "ev1")
    kw = {}
    if known == "other-id":
        w.cover("new descriptor by id_args")
        kw = {"id_args": ("cfg2",), "config": {"det": {"data": {}, "timestamps": {}, "data_keys": {}}}}
    call_method(I, o, "process_event", doc, stream_name="a", **kw)
    rp = {"replay": RP, "scenario": "steps", "known": known}
    names = [docname(n) for n, d in emitted]
    events = [d for n, d in emitted if docname(n) == "event"]
    descs = [d for n, d in emitted if docname(n) == "descriptor"]
    w.check(OB_EV, And(len(events) == 1, Eq(events[0].get("seq_num"), ka + 1) if events else False), rp)
    if known is True:
        ok = names == ["event"] and events[0]["descriptor"] == "desc-a"
    else:
        ok = names == ["descriptor", "event"] and Eq(events[0]["descriptor"], descs[0]["uid"]) is True and descs[0]["run_start"] == "start-uid"
    w.check(OB_DESC, ok, rp)
    # post-state through a second step: the next event in 'a' must be numbered count+2, the next one in 'b' count_b+1
    emitted.clear()
    call_method(I, o, "process_event", dict(doc, uid="ev2"), stream_name="a", **kw)
    ev2 = [d for n, d in emitted if docname(n) == "event"]
    emitted.clear()
    call_method(I, o, "process_event", doc_b(w, "ev3"), stream_name="b")
    ev3 = [d for n, d in emitted if docname(n) == "event"]
    w.check(OB_POST, And(len(ev2) == 1 and len(ev3) == 1, Eq(ev2[0].get("seq_num"), ka + 2) if ev2 else False,
                         Eq(ev3[0].get("seq_num"), kb + 1) if ev3 else False), rp)
    # ... and through the RunStop that closes the run
    emitted.clear()
    call_method(I, o, "stop", raw_stop(w))
    stops = [d for n, d in emitted if docname(n) == "stop"]
    w.check(OB_POST_STOP, stop_clause(stops, len(emitted) - 1, {"a": ka + 2, "b": kb + 1}), rp)


FAULTS = [("subscriber", "event"), ("subscriber", "descriptor"), ("reenter", "event"), ("reenter", "descriptor"),
          ("validator", "event"), ("validator", "descriptor")]
OB_F_NUM = f"{Q}.process_event#ensures[faulty environment: the events handed to the subscribers are numbered count+1, count+2, ... in order]"
OB_F_REF = f"{Q}.process_event#ensures[faulty environment: every event references a descriptor handed to the subscribers before it]"
OB_F_STOP = f"{Q}.stop#ensures[faulty environment: num_events[s] == number of events handed to the subscribers in s]"


@task("process_event.fault", PROP, functions=[f"{Q}.process_event", f"{Q}.emit", f"{Q}.stop"],
      expect=[OB_F_NUM, OB_F_REF, OB_F_STOP],
      covers=[f"fault hit: {k} on {n}" for k, n in FAULTS] + ["event handed over although the step raised", "nothing handed over"])
def process_event_fault(I):
    """one step in an environment that misbehaves on one document, then fault-free steps and the RunStop"""
    w = I.w
    emitted = []
    kind, on = w.choose(FAULTS, "fault")
    fault = {"kind": kind, "on": on, "armed": False}
    disp = install(I, emitted, fault)
    ka, kb = w.int("count_a"), w.int("count_b")
    # the fault is to hit in this step: a descriptor is only emitted when it is new
    known = w.choose([False, "other"] if on == "descriptor" else [False, True], "descriptor already emitted for this stream")
    o, has_b = make_ld(I, disp, ka, kb, known)
    doc = doc_a(w, "ev1")
    fault["reenter"] = lambda: call_method(I, o, "process_event", doc_a(w, "ev-re", "_re"), stream_name="a")
    fault["armed"] = True
    r1 = catch(I, I.getattr(o, "process_event"), doc, stream_name="a")
    fault["armed"] = False
    if fault.get("hit"):
        w.cover(f"fault hit: {kind} on {on}")
    n1 = sum(1 for n, d in emitted if docname(n) == "event")
    if r1[0] == "raise" and n1:
        w.cover("event handed over although the step raised")
    if not emitted:
        w.cover("nothing handed over")
    r2 = catch(I, I.getattr(o, "process_event"), dict(doc, uid="ev2"), stream_name="a")
    r3 = catch(I, I.getattr(o, "process_event"), doc_b(w, "ev3"), stream_name="b")
    n_before_stop = len(emitted)
    r4 = catch(I, I.getattr(o, "stop"), raw_stop(w))
    rp = {"replay": RP, "scenario": "fault", "kind": kind, "on": on, "known": known}
    numbered, refs, n_ev, stops = run_view(emitted, ka, kb, pre_descs(known, has_b))
    fine = r2[0] == "ok" and r3[0] == "ok" and r4[0] == "ok" and bool(fault.get("hit"))
    w.check(OB_F_NUM, And(fine, n_ev["a"] >= 1, n_ev["b"] == 1, *numbered), rp)
    w.check(OB_F_REF, And(fine, *refs), rp)
    w.check(OB_F_STOP, And(fine, stop_clause(stops, len(emitted) - n_before_stop - 1, {"a": ka + n_ev["a"], "b": kb + n_ev["b"]})), rp)


OB_STOP = f"{Q}.stop#ensures[num_events[s] == count(s) for every stream]"
OB_RESET = f"{Q}.stop#ensures[state reset for the next run]"


@task("stop", PROP, functions=[f"{Q}.stop", f"{Q}.emit", f"{Q}.start", f"{Q}.descriptor", f"{Q}.process_event"], expect=[OB_STOP, OB_RESET],
      covers=["no event was re-emitted in this run", "two descriptors in one stream"])
def stop(I):
    w = I.w
    emitted = []
    disp = install(I, emitted)
    ka, kb = w.int("count_a"), w.int("count_b")
    known = w.choose([True, False], "stream a has events")
    o, has_b = make_ld(I, disp, ka, kb, known)
    # an arbitrary number of distinct descriptors may have been emitted for a stream: add a second one for 'a'
    if known and w.choose([False, True], "stream a has two descriptors"):
        o._descriptors["a"][frozenset((("x", "z"), "a", ("raw1",)))] = {"uid": "desc-a2", "data_keys": {}}
        w.add(ka >= 2)
        w.cover("two descriptors in one stream")
    if not known and not has_b:
        w.cover("no event was re-emitted in this run")      # a transforming subclass that dropped / has not yet completed every event
    # the raw RunStop reports the RAW run's events (symbolic, independent of what was re-emitted)
    call_method(I, o, "stop", raw_stop(w))
    rp = {"replay": RP, "scenario": "stop", "known": known, "has_b": has_b}
    stops = [d for n, d in emitted if docname(n) == "stop"]
    want = {}
    if known:
        want["a"] = ka
    if has_b:
        want["b"] = kb
    w.check(OB_STOP, stop_clause(stops, len(emitted) - 1, want), rp)
    # the next run through the same dispatcher starts from zero: its first event is numbered 1 under a descriptor of its own,
    # and (when nothing more is emitted) its RunStop reports exactly that one event
    emitted.clear()
    call_method(I, o, "start", {"uid": "raw-start-2", "time": w.real("t_start2"), "scan_id": 2})
    call_method(I, o, "descriptor", {"uid": "raw1", "data_keys": {"x": {}}, "name": "primary"})
    doc = {"uid": "ev1", "descriptor": "raw1", "data": {"x": w.real("x")}, "timestamps": {"x": 0}, "seq_num": 7, "time": 0}
    call_method(I, o, "process_event", doc, stream_name="a")
    call_method(I, o, "stop", raw_stop(w, "_2"))
    names = [docname(n) for n, d in emitted]
    ok = names == ["start", "descriptor", "event", "stop"]
    if ok:
        st, de, ev, sp = [d for n, d in emitted]
        ne = sp.get("num_events")
        ok = And(Eq(ev.get("seq_num"), 1), Eq(ev.get("descriptor"), de.get("uid")), Eq(de.get("run_start"), st.get("uid")),
                 Eq(sp.get("run_start"), st.get("uid")), num_events_clause(ne, {"a": 1}))
    w.check(OB_RESET, ok, rp)


OB_START = f"{Q}.start#ensures[re-emits one RunStart with a fresh uid; first event numbered 1]"
OB_PASS = f"{Q}.event#ensures[pass-through: every raw event is re-emitted once in stream 'primary', numbered 1, 2; stop reports 2]"


@task("start", PROP, functions=[f"{Q}.start", f"{Q}.__init__", f"{Q}.event", f"{Q}.descriptor", f"{Q}.stop"], expect=[OB_START, OB_PASS])
def start(I):
    w = I.w
    emitted = []
    disp = install(I, emitted)
    w.stubs[("bluesky.callbacks.stream", "Dispatcher")] = native(lambda I_, a, k: disp)
    o = construct(I, Q)
    call_method(I, o, "start", {"uid": "raw-start", "time": w.real("t"), "scan_id": 1})
    starts = [d for n, d in emitted if docname(n) == "start"]
    ok = len(emitted) == 1 and len(starts) == 1
    cond = ok
    if ok:
        cond = And(starts[0]["original_run_uid"] == "raw-start", o._stream_start_uid is starts[0]["uid"])
    suid = o._stream_start_uid
    emitted.clear()
    call_method(I, o, "descriptor", {"uid": "raw1", "data_keys": {"x": {}}})
    # the pass-through dispatcher: the base class' own event()
    call_method(I, o, "event", {"uid": "ev1", "descriptor": "raw1", "data": {"x": w.real("x")}, "timestamps": {"x": 0}, "seq_num": 5, "time": 0})
    evs = [d for n, d in emitted if docname(n) == "event"]
    rp = {"replay": RP, "scenario": "passthrough"}
    w.check(OB_START, And(cond, len(evs) == 1, Eq(evs[0].get("seq_num"), 1) if evs else False), rp)
    call_method(I, o, "event", {"uid": "ev2", "descriptor": "raw1", "data": {"x": w.real("x2")}, "timestamps": {"x": 0}, "seq_num": 6, "time": 0})
    n0 = len(emitted)
    call_method(I, o, "stop", {"uid": "stop1", "run_start": "raw-start", "exit_status": "success", "time": 0, "num_events": {"primary": 2, "baseline": 2}})
    names = [docname(n) for n, d in emitted]
    evs = [d for n, d in emitted if docname(n) == "event"]
    ok = names == ["descriptor", "event", "event", "stop"]
    if ok:
        st = emitted[-1][1]
        ne = st.get("num_events")
        ok = And(Eq(evs[0].get("seq_num"), 1), Eq(evs[1].get("seq_num"), 2), Eq(evs[0].get("descriptor"), emitted[0][1].get("uid")),
                 Eq(evs[1].get("descriptor"), emitted[0][1].get("uid")), Eq(emitted[0][1].get("run_start"), suid),
                 num_events_clause(ne, {"primary": 2}), Eq(st.get("run_start"), suid))
    w.check(OB_PASS, ok, rp)


@task("process_event.twin", PROP, twin="twin:seq_num equals count")
def twin(I):
    w = I.w
    emitted = []
    disp = install(I, emitted)
    ka, kb = w.int("count_a"), w.int("count_b")
    o, has_b = make_ld(I, disp, ka, kb, True)
    doc = {"uid": "ev1", "descriptor": "raw1", "data": {"x": 1}, "timestamps": {"x": 1}, "seq_num": 1, "time": 1}
    call_method(I, o, "process_event", doc, stream_name="a")
    events = [d for n, d in emitted if docname(n) == "event"]
    w.check("twin:seq_num equals count", Eq(events[0]["seq_num"], ka))


@task("process_event.fault.twin", PROP, twin="twin:an event that a failing subscriber received does not count")
def twin_fault(I):
    """must-fail: the reading 'an event whose delivery raised was not emitted' (its number may be re-used)"""
    w = I.w
    emitted = []
    fault = {"kind": "subscriber", "on": "event", "armed": True}
    disp = install(I, emitted, fault)
    ka, kb = w.int("count_a"), w.int("count_b")
    o, has_b = make_ld(I, disp, ka, kb, True)
    catch(I, I.getattr(o, "process_event"), doc_a(w, "ev1"), stream_name="a")
    fault["armed"] = False
    call_method(I, o, "process_event", doc_a(w, "ev2", "_2"), stream_name="a")
    events = [d for n, d in emitted if docname(n) == "event"]
    w.check("twin:an event that a failing subscriber received does not count",
            And(len(events) == 2, Eq(events[1]["seq_num"], ka + 1) if len(events) == 2 else False))
