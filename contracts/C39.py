"""C39 - a LiveDispatcher's re-emitted stream is a valid run.

Carriers: bluesky/callbacks/stream.py: LiveDispatcher.start / process_event / stop / emit.
Abstract view: count(s) = number of events re-emitted in stream s since the last start.
Step contracts (from the statement):
  process_event(doc, stream_name=s): emits the stream's descriptor first if it is new, then exactly one event whose
      seq_num == count(s) + 1 and whose descriptor is that descriptor's uid; count'(s) = count(s)+1; other streams untouched
  stop: the re-emitted RunStop has num_events[s] == count(s) for every stream with events; afterwards count == 0 everywhere
  start: re-emits a RunStart with a fresh uid
Lemma (induction over the document sequence, immediate from the step contracts): events of each stream are numbered
1..N and num_events reports N per stream.
The pre-state of each step is an arbitrary state satisfying the representation invariant, built from symbolic counts
for two generic streams 'a' (the one the event goes to) and 'b' (any other stream).
"""
from .lib import *

PROP = "C39"
MS = "bluesky.callbacks.stream"
Q = f"{MS}:LiveDispatcher"
TRUSTED = ["event_model schema validation (schema_validators[name].validate) is effect-free on the dispatcher state",
           "collections.ChainMap(a, b, ...) converted by dict() is the union with earlier maps taking precedence",
           "A-UUID: new_uid() values are fresh and pairwise distinct; A-TIME",
           "stream names and descriptor uids are used only as dictionary keys (concrete representatives 'a', 'b' stand for any distinct names)"]
NOT_DECIDED = "schema validity of the re-emitted documents (external validators); subclasses that override event()/process_event"


def install(I, emitted):
    w = I.w
    from pyvc.stdstubs import _new_uid
    I.call_hooks["bluesky.utils:new_uid"] = lambda I_, f, a, k: _ret(_new_uid(I_, a, k))

    def chainmap(I_, a, k):
        out = {}
        for m in reversed(a):
            out.update(m)
        return out
    w.stubs["collections.ChainMap"] = chainmap
    w.stubs["event_model.schema_validators.validate"] = lambda I_, a, k: None
    disp = opaque(I, "dispatcher", methods={"process": lambda I_, o, a, k: emitted.append((a[0], a[1]))})
    return disp


def _ret(v):
    return v
    yield


def docname(x):
    return x.dotted.split(".")[-1] if hasattr(x, "dotted") else x


def make_ld(I, disp, ka, kb, desc_known):
    """an arbitrary state of a LiveDispatcher after ka events in stream 'a' and kb events in stream 'b'"""
    w = I.w
    counts = {}
    descs = {}
    did = frozenset((("x",), "a", ("raw1",)))
    if desc_known == "other":
        # stream 'a' already has events, but under a different descriptor (e.g. other data keys): the incoming event
        # needs a new descriptor while the numbering of the stream continues
        descs["a"] = {frozenset((("x", "w"), "a", ("raw1",))): {"uid": "desc-a-old", "data_keys": {"x": {}, "w": {}}}}
        counts["a"] = ka
    elif desc_known:
        descs["a"] = {did: {"uid": "desc-a", "data_keys": {"x": {}}}}
        counts["a"] = ka
    else:
        # no event has been emitted in stream 'a' with this descriptor yet
        pass
    descs_b = w.choose([True, False], "stream b has events")
    if descs_b:
        descs["b"] = {frozenset((("y",), "b", ("raw2",))): {"uid": "desc-b", "data_keys": {"y": {}}}}
        counts["b"] = kb
        w.add(kb >= 1)
    else:
        w.add(Eq(kb, 0))
    if desc_known:
        w.add(ka >= 1)
    else:
        w.add(Eq(ka, 0))
    total = ka + kb
    o = Obj(I.P.class_info(MS, "LiveDispatcher"), {
        "dispatcher": disp, "seq_count": total, "_seq_counts": counts,
        "raw_descriptors": {"raw1": {"uid": "raw1", "data_keys": {"x": {"dtype": "number", "shape": [], "source": "dev"}}, "name": "primary"},
                            "raw2": {"uid": "raw2", "data_keys": {"y": {"dtype": "number", "shape": [], "source": "dev"}}, "name": "primary"}},
        "_stream_start_uid": "start-uid", "_descriptors": descs})
    return o, descs_b


@task("process_event", PROP, functions=[f"{Q}.process_event", f"{Q}.emit"],
      expect=[f"{Q}.process_event#ensures[exactly one event, seq_num == count(stream)+1]",
              f"{Q}.process_event#ensures[descriptor emitted first iff new; event references it]",
              f"{Q}.process_event#ensures[count'(stream) = count+1, other streams unchanged]"],
      covers=["new descriptor", "known descriptor", "other stream has events"])
def process_event(I):
    w = I.w
    emitted = []
    disp = install(I, emitted)
    ka, kb = w.int("count_a"), w.int("count_b")
    known = w.choose([False, True, "other"], "descriptor already emitted for this stream")
    o, has_b = make_ld(I, disp, ka, kb, known)
    if has_b:
        w.cover("other stream has events")
    w.cover("known descriptor" if known is True else "new descriptor")
    doc = {"uid": "ev1", "descriptor": "raw1", "data": {"x": w.real("x")}, "timestamps": {"x": w.real("tx")}, "seq_num": w.int("raw_seq"), "time": w.real("t")}
    call_method(I, o, "process_event", doc, stream_name="a")
    rp = {"replay": "stream.live_dispatcher"}
    names = [docname(n) for n, d in emitted]
    events = [d for n, d in emitted if docname(n) == "event"]
    descs = [d for n, d in emitted if docname(n) == "descriptor"]
    w.check(f"{Q}.process_event#ensures[exactly one event, seq_num == count(stream)+1]",
            And(len(events) == 1, Eq(events[0]["seq_num"], ka + 1) if events else False), rp)
    if known is True:
        ok = names == ["event"] and events[0]["descriptor"] == "desc-a"
    else:
        ok = names == ["descriptor", "event"] and Eq(events[0]["descriptor"], descs[0]["uid"]) is True and descs[0]["run_start"] == "start-uid"
    w.check(f"{Q}.process_event#ensures[descriptor emitted first iff new; event references it]", ok, rp)
    # post-state through a second step: the next event in 'a' must be numbered count+2, the next one in 'b' count_b+1
    emitted.clear()
    call_method(I, o, "process_event", dict(doc, uid="ev2"), stream_name="a")
    ev2 = [d for n, d in emitted if docname(n) == "event"]
    emitted.clear()
    doc_b = {"uid": "ev3", "descriptor": "raw2", "data": {"y": w.real("y")}, "timestamps": {"y": w.real("ty")}, "seq_num": 1, "time": w.real("t2")}
    call_method(I, o, "process_event", doc_b, stream_name="b")
    ev3 = [d for n, d in emitted if docname(n) == "event"]
    w.check(f"{Q}.process_event#ensures[count'(stream) = count+1, other streams unchanged]",
            And(len(ev2) == 1 and len(ev3) == 1, Eq(ev2[0]["seq_num"], ka + 2) if ev2 else False, Eq(ev3[0]["seq_num"], kb + 1) if ev3 else False), rp)


@task("stop", PROP, functions=[f"{Q}.stop", f"{Q}.emit"],
      expect=[f"{Q}.stop#ensures[num_events[s] == count(s) for every stream]", f"{Q}.stop#ensures[state reset for the next run]"])
def stop(I):
    w = I.w
    emitted = []
    disp = install(I, emitted)
    ka, kb = w.int("count_a"), w.int("count_b")
    known = w.choose([True, False], "stream a has events")
    o, has_b = make_ld(I, disp, ka, kb, known)
    # an arbitrary number of distinct descriptors may have been emitted for a stream: add a second one for 'a'
    if known and w.choose([False, True], "stream a has two descriptors"):
        o._descriptors["a"][frozenset((("x", "z"), "a", ("raw1",)))] = {"uid": "desc-a2", "data_keys": {}}
        w.add(ka >= 2)
    I.call_hooks["bluesky.callbacks.core:CallbackBase.stop"] = lambda I_, f, a, k: _ret(None)
    call_method(I, o, "stop", {"uid": "stop1", "run_start": "raw-start", "exit_status": "success", "time": w.real("t")})
    rp = {"replay": "stream.live_dispatcher"}
    stops = [d for n, d in emitted if docname(n) == "stop"]
    want = {}
    if known:
        want["a"] = ka
    if has_b:
        want["b"] = kb
    ok = len(stops) == 1 and len(emitted) == 1
    cond = ok
    if ok:
        ne = stops[0]["num_events"]
        cond = And(set(ne.keys()) == set(want.keys()), *[Eq(ne[s], want[s]) for s in want if s in ne],
                   stops[0]["run_start"] == "start-uid")
    w.check(f"{Q}.stop#ensures[num_events[s] == count(s) for every stream]", cond, rp)
    # after stop the view is zero again: a fresh run's first event is numbered 1
    emitted.clear()
    o.attrs["_stream_start_uid"] = "start2"
    o.attrs["raw_descriptors"] = {"raw1": {"uid": "raw1", "data_keys": {"x": {}}}}
    doc = {"uid": "ev1", "descriptor": "raw1", "data": {"x": w.real("x")}, "timestamps": {"x": 0}, "seq_num": 7, "time": 0}
    call_method(I, o, "process_event", doc, stream_name="a")
    evs = [d for n, d in emitted if docname(n) == "event"]
    w.check(f"{Q}.stop#ensures[state reset for the next run]",
            And(len(evs) == 1, Eq(evs[0]["seq_num"], 1) if evs else False, [docname(n) for n, d in emitted] == ["descriptor", "event"]), rp)


@task("start", PROP, functions=[f"{Q}.start", f"{Q}.__init__"],
      expect=[f"{Q}.start#ensures[re-emits one RunStart with a fresh uid; first event numbered 1]"])
def start(I):
    w = I.w
    emitted = []
    disp = install(I, emitted)
    w.stubs[("bluesky.callbacks.stream", "Dispatcher")] = native(lambda I_, a, k: disp)
    I.call_hooks["bluesky.callbacks.core:CallbackBase.start"] = lambda I_, f, a, k: _ret(None)
    o = construct(I, Q)
    call_method(I, o, "start", {"uid": "raw-start", "time": w.real("t"), "scan_id": 1})
    starts = [d for n, d in emitted if docname(n) == "start"]
    ok = len(emitted) == 1 and len(starts) == 1
    cond = ok
    if ok:
        cond = And(starts[0]["original_run_uid"] == "raw-start", o._stream_start_uid is starts[0]["uid"])
    emitted.clear()
    call_method(I, o, "descriptor", {"uid": "raw1", "data_keys": {"x": {}}})
    call_method(I, o, "process_event", {"uid": "ev1", "descriptor": "raw1", "data": {"x": w.real("x")}, "timestamps": {"x": 0}, "seq_num": 5, "time": 0})
    evs = [d for n, d in emitted if docname(n) == "event"]
    w.check(f"{Q}.start#ensures[re-emits one RunStart with a fresh uid; first event numbered 1]",
            And(cond, len(evs) == 1, Eq(evs[0]["seq_num"], 1) if evs else False), {"replay": "stream.live_dispatcher"})


@task("process_event.twin", PROP, twin="twin:seq_num equals count")
def twin(I):
    w = I.w
    emitted = []
    disp = install(I, emitted)
    ka, kb = w.int("count_a"), w.int("count_b")
    o, has_b = make_ld(I, disp, ka, kb, True)
    doc = {"uid": "ev1", "descriptor": "raw1", "data": {"x": 1}, "timestamps": {"x": 1}, "seq_num": 1, "time": 1}
    call_method(I, o, "process_event", doc, stream_name="a")
    events = [d for n, d in emitted if docname(n) == "event"]
    w.check("twin:seq_num equals count", Eq(events[0]["seq_num"], ka))
