"""C25 - step scans visit exactly the documented trajectory.

Carriers: bluesky/plan_stubs.py: move_per_step, one_nd_step, one_1d_step (+ nested move); bluesky/plans.py: scan_nd
(+ inner_scan_nd), scan, inner_product_scan, list_scan, grid_scan, list_grid_scan, log_scan (+ inner_log_scan), x2x_scan,
relative_inner_product_scan, rel_scan, _scan_1d; bluesky/plan_patterns.py: inner_product, outer_product, inner_list_product,
outer_list_product, chunk_outer_product_args, classify_outer_product_args_pattern.

How the statement is decomposed (every link is an obligation on the real function bodies):
 1. per-step stubs: move_per_step / one_nd_step / one_1d_step are bisimilar to the references of contracts/refs/c25.py
    ("checkpoint; set exactly the motors that are not yet where the point wants them, cache updated; wait; ONE reading of
    detectors + motors") for every driver script and every behaviour of the abstract take_reading; for ANY number of
    motors (loop-head cut points over a generic mapping) and, with real dicts and the explicit cache post-condition, for
    0-3 motors.  Invariant carried by the cache: cache[m] is the position the scan last commanded for m (None: never), so
    after every step each motor of the point has been commanded to the point's position.
 2. loops: scan_nd (log_scan, _scan_1d) call per_step exactly once per point of list(cycler) (per position), in order, with
    the detectors and ONE cache that starts empty (missing = None) - for any number of points; per_step dispatch by
    signature; recorded num_points == len(cycler); staged devices = detectors + motors.
 3. trajectories: inner_product / inner_list_product / outer_product / outer_list_product / chunk_outer_product_args return
    the documented composition of numpy.linspace columns / position lists (descriptions over assumed numpy / cycler /
    snake_cyclers contracts); scan, list_scan, grid_scan, list_grid_scan, inner_product_scan, x2x_scan are exactly ONE
    scan_nd (scan) call on that trajectory with metadata (num_points, shape, extents, snaking, motors) equal to it.
 4. recorded metadata (what reaches the start document): scan_nd records every entry of its md argument as given (it wins
    over scan_nd's own num_points / motors / plan_name ...), scan hands its md argument on; on top of that each plan's
    num_points / num_intervals (COUNTS), shape / extents / snaking (extents of a position list = its lowest and highest
    position, for ANY list: descending, non-monotone, repeated, single position) and plan_args / plan_pattern_args (ARGS:
    the call spelled out - detectors, per axis motor and numbers / positions in order, num, per_step) describe the call.
    Position lists are (a) abstract lists of arbitrary length whose elements can be read (PosList) and (b) real Python
    lists of 1-3 symbolic positions, so that first/last-for-min/max, sorting, reversing, de-duplicating slips are refuted.
"""
import os

from .lib import *
from pyvc.bisim import Bisim, reference_module, LoopHead
from pyvc.interp import _IterStop

PROP = "C25"
MS = "bluesky.plan_stubs"
MP = "bluesky.plans"
MPP = "bluesky.plan_patterns"
TRUSTED = [
    "A-REAL: positions, starts and stops are mathematical reals (== on positions is equality of reals); A-PLAN; abstract sub-plans "
    "(take_reading / trigger_and_read, per_step, declare_stream, scan_nd as a callee) obey the generator protocol",
    "numpy (assumed contracts): linspace(start, stop, num=num, endpoint=True) / logspace(start, stop, num) return num positions "
    "(ValueError for num < 0); linspace point k is start + k*(stop-start)/(num-1) (used only by the 2:1 lemma); their values are not decided",
    "cycler (assumed contracts): cycler(motor, column) is a trajectory of len(column) points over one motor; a + b moves the motors of "
    "both together (ValueError for unequal lengths or a shared motor), + is associative, keys = the set of motors; iterating a cycler "
    "yields exactly len(cycler) points, each a dict motor -> position in left-to-right key order; DOMAIN: non-empty trajectories only "
    "(num >= 1, non-empty position lists) - composing empty cyclers raises StopIteration inside the cycler library (probed natively), "
    "so scans of zero points over more than one motor are outside what is decided",
    "bluesky.utils.snake_cyclers is replaced by its contract (property C26: row-major outer product of the given axes, axis i reversed on "
    "alternate passes iff flag i, the flag of the slowest axis without effect, length = product of the lengths, ValueError if the number "
    "of flags differs); toolz/cytools.partition(n, xs) = consecutive n-tuples, incomplete tail dropped; functools.reduce, operator.add",
    "stage_decorator / run_decorator (C23, C17) and reset_positions_decorator / relative_set_decorator (C24) are transparent here: their "
    "arguments (devices, metadata) are recorded and checked, their own messages are those properties' subject",
    "enum.Enum: members of OuterProductArgsPattern are singletons equal only to themselves; inspect.signature modelled as ordered "
    "(name, kind, has-default) parameters; os.environ.get('BLUESKY_PREDECLARE') is set or unset; uuid tokens correspond by request order",
    "devices are plain (parent None, not part of a pseudo-positioner): merge_cycler / merge_axis run on them for real",
    "loop invariants (bisimulation cut points at the loop heads, pyvc/interp.py ex_For + contracts/C25.py GenericSeq): the remaining "
    "points of a trajectory / motors of a point are arbitrary and pairwise distinct from the ones seen (dictionary keys)",
    "enumerated shapes (contents symbolic): 1-3 motors / axes for the pattern builders and plans, 0-3 motors for the concrete per-step "
    "tasks (move_per_step and the loops of scan_nd / log_scan / _scan_1d are proved for any number of motors / points), two detectors",
    "position lists (assumed contract of Python lists of reals, contracts/C25.py PosList): a list of arbitrary length L >= 1; x[k] / x[-k] "
    "is an element (IndexError outside), the same place read twice gives the same element; every element lies in [min(x), max(x)] and both "
    "are attained; list(x) has the same positions; sorted(x) is ascending (first = min, last = max), reversed(x) / x[::-1] has place j = place "
    "L-1-j of x; as trajectories sorted / reversed lists are NOT x (no monotonicity is assumed); any other operation on such a list is an "
    "engine error, not a proof.  The tasks '... lists of 1-3 symbolic positions' (labelled bounded) run list_scan / list_grid_scan on real "
    "Python lists of 1-3 symbolic reals per axis (1-2 axes): every list operation is then the engine's own",
    "repr(x) is a function of the object x (asked twice about the same device / list it answers the same string); the name of the module "
    "bluesky.plan_patterns (recorded as plan_pattern_module) is not modelled",
]
NOT_DECIDED = ("numeric values inside numpy.linspace / logspace and the element order of cycler products (C26 decides snake_cyclers); "
               "pseudo-positioner merging in merge_cycler; what one reading consists of (trigger_and_read: C15) and what the RunEngine does with "
               "the messages; user metadata that overrides num_points / shape / extents / plan_pattern_args (it is recorded as given: scan_nd "
               "'md argument' clause); the hints entries of the metadata and plan_pattern_module; grid scans with more than 3 axes "
               "(the ambiguous 24-argument classification of classify_outer_product_args_pattern is not reached); per_step is NOT handed on by "
               "inner_product_scan (it passes per_step=None - outside the statement, reported as an observation)")
REF_FILE = "contracts/refs/c25.py"
REF = open(os.path.join(os.path.dirname(os.path.dirname(os.path.abspath(__file__))), REF_FILE)).read()
TRACE = "#trace[same calls on the wrapped generators]"
OUTCOME = "#outcome[same yield / return / raise at every step]"


# ------------------------------------------------------------------------------------------------ harness objects
def device(name, **attrs):
    a = {"name": name, "parent": None}
    a.update(attrs)
    # a plain positioner / detector: no parent, not (part of) a pseudo-positioner
    return Opaque(name, {"token": "dev", "attrs": a, "isinstance_default": False, "truth": True, "absent": tuple(x for x in ("hints", "RealPosition") if x not in a),
                         "hasattr": {"RealPosition": False, "hints": "hints" in a}})


class GenericSeq:
    """a finite sequence of ARBITRARY length shared by the two sides of a bisimulation: element k (or the end of the
    sequence) is decided when the first side asks for it, the other side sees the same; every element is a fresh
    generic instance made by `make(k)`"""

    def __init__(self, name, make):
        self.name, self.make = name, make
        self.table = []
        self.head = LoopHead(name)

    def draw(self, w, k):
        if k > len(self.table):
            raise EngineError("generic sequence read out of order")
        if k == len(self.table):
            if self.table and self.table[-1][0] == "end":
                return ("end",)
            kind = w.choose(["more", "end"], f"{self.name}[{k}]")
            self.table.append(("elem", self.make(k)) if kind == "more" else ("end",))
        return self.table[k]

    def elements(self):
        return [e[1] for e in self.table if e[0] == "elem"]

    def iterator(self, proj=None):
        return GenericIter(self, proj)


class GenericIter:
    def __init__(self, seq, proj=None):
        self.seq, self.proj, self.pos, self.done = seq, proj, 0, False
        self.pyvc_loop_head = seq.head        # interp.ex_For: every loop head is a joint cut point

    def pyvc_next(self, I):
        if self.done:
            raise _IterStop()
        if self.pos >= 8:
            # inside a `for` statement the loop-head cut point closes every path after two or three iterations; anything
            # else (list(...), a comprehension, next() in a while loop) would enumerate lengths without end
            raise EngineError(f"generic sequence '{self.seq.name}' consumed outside a for statement (needs a contract)")
        r = self.seq.draw(I.w, self.pos)
        if r[0] == "end":
            self.done = True
            raise _IterStop()
        self.pos += 1
        return self.proj(r[1]) if self.proj else r[1]

    def canon(self, cn):
        # the position itself is not part of the cut key (loop invariant: "somewhere in the sequence, the rest is
        # arbitrary"); how far this side lags behind the frontier is
        return ("generic-iter", self.seq.name, len(self.seq.table) - self.pos, self.done)


def gen_function_pair(b, name, log_args=None):
    """a generator function for bisimulations (like lib.callable_pair) that also records keyword arguments: the k-th
    call on either side returns the k-th abstract generator; the arguments are part of the compared call log"""
    pairs = []

    def mk(idx, side):
        calls = [0]

        def f(I_, a, k):
            n = calls[0]
            calls[0] += 1
            while len(pairs) <= n:
                p = b.absgen_pair(f"{name}@{len(pairs)}" if pairs else name)
                p[0].canon_name = p[1].canon_name = name
                pairs.append(p)
            payload = tuple(a) + tuple(("kw:" + kk, vv) for kk, vv in sorted(k.items()))
            side.log.append((name + "()", n, "call", log_args(payload) if log_args else payload))
            return pairs[n][idx]
        f._canon_label = name
        return native(f)
    return mk(0, b.impl), mk(1, b.ref)


class Bisim25(Bisim):
    """remembers each side's last outcome (so that post-state clauses can be tied to normal termination); cut keys follow
    `yield from` into sub-generators that no variable refers to (scan_nd's loop lives in `yield from inner_scan_nd()`)"""
    deep_keys = True

    def outcome(self, side, tok):
        out = Bisim.outcome(self, side, tok)
        self.__dict__.setdefault("last", {})[side.name] = out
        return out

    def returned(self):
        last = self.__dict__.get("last", {})
        return last.get("impl", ("?",))[0] == "return" and last.get("ref", ("?",))[0] == "return"


def new_bisim(I, name, replay=None, cfg=None, **kw):
    b = Bisim25(I, name, replay=replay, cfg=cfg, max_steps=kw.pop("max_steps", 300), **kw)
    return b, reference_module(I.P, "verif_ref_c25", REF)


def positions(w, name, n):
    return [w.real(f"{name}{i}") for i in range(n)]


# ------------------------------------------------------------------------------------------------ per-step stubs
Q1 = f"{MS}:one_1d_step"


@task("one_1d_step", PROP, functions=[Q1, f"{Q1}.move"], expect=[Q1 + TRACE, Q1 + OUTCOME],
      covers=[f"{Q1}: terminated by return", f"{Q1}: closed at an established cut point"])
def one_1d_step(I):
    w = I.w
    b, ref = new_bisim(I, Q1, replay="scans.one_1d_step")
    dets = [device("det0"), device("det1")]
    motor = device("motor")
    pos = w.real("pos")
    default = w.choose([False, True], "take_reading defaulted")
    Ti, Tr = gen_function_pair(b, "take_reading")
    b.extra = lambda: {"default_take_reading": default}
    if default:
        I.call_hooks[f"{MS}:trigger_and_read"] = lambda I_, f, a, k: _ret((Ti if b.current is b.impl else Tr)(I_, a, k))
    gi = I.call_value(I.get_function(Q1), list(dets), motor, pos, None if default else Ti)
    b.current = b.ref
    gr = I.call_value(I.global_lookup(ref, "ref_one_1d_step"), list(dets), motor, pos, Tr)
    b.run(gi, gr)


def _ret(v):
    return v
    yield


class CacheView:
    """one side's view of the position cache handed to a step: the initial contents are shared (the two sides start from
    equal caches; an entry is decided when first read: None = the scan has not moved that motor yet, or a real), the
    writes are this side's own and are part of the compared log"""

    def __init__(self, shared, side, w):
        self.shared, self.side, self.w, self.writes, self.n = shared, side, w, {}, 0

    def get(self, I, o, motor):
        if id(motor) in self.writes:
            return self.writes[id(motor)]
        if id(motor) not in self.shared:
            k = len(self.shared)
            self.shared[id(motor)] = (motor, None if self.w.choose(["None", "real"], f"cache[{motor.name}]") == "None"
                                      else self.w.real(f"cache_{motor.name}"))
        return self.shared[id(motor)][1]

    def set(self, I, o, motor, v):
        self.writes[id(motor)] = v
        self.side.log.append(("pos_cache", self.n, "setitem", (motor, v)))
        self.n += 1

    def canon(self, cn):
        # loop invariant of the motor loop: the motors still to come are distinct from the ones seen (dictionary keys),
        # so nothing recorded here is read again; what was written is compared through the log
        return ("pos_cache",)

    def opaque(self):
        o = Opaque("pos_cache", {"getitem": self.get, "setitem": self.set, "isinstance_default": False, "truth": True})
        o.attrs["$model"] = self
        return o


def generic_step(w):
    """a point of a trajectory over an arbitrary number of motors: {motor_k: pos_k} with pairwise distinct motors"""
    seq = GenericSeq("step", lambda k: (device(f"motor{k}"), w.real(f"pos{k}")))

    def view():
        return Opaque("step", {"methods": {"items": lambda I_, o, a, k: seq.iterator(),
                                           "keys": lambda I_, o, a, k: seq.iterator(lambda e: e[0])},
                               "isinstance_default": False, "truth": True})
    return seq, view


QM = f"{MS}:move_per_step"
QN = f"{MS}:one_nd_step"
CACHE = "#ensures[afterwards the cache holds the point's position for every motor of the point, other entries untouched]"


def concrete_step(I, n):
    """a point over n motors (positions symbolic reals) and two equal position caches as scan_nd makes them
    (defaultdict, missing = None); every motor's entry is None / absent or an arbitrary real"""
    import collections
    w = I.w
    motors = [device(f"motor{i}") for i in range(n)]
    other = device("other_motor")
    pos = positions(w, "pos", n)
    step = dict(zip(motors, pos))
    caches = []
    init = {}
    for i, m in enumerate(motors):
        kind = w.choose(["absent", "real"], f"cache{i}")
        if kind == "real":
            init[m] = w.real(f"cache{i}")
    init[other] = w.real("cache_other")
    for _ in range(2):
        d = collections.defaultdict(None)
        d.default_factory = native(lambda I_, a, k: None)
        d.update(init)
        caches.append(d)
    return motors, pos, step, caches, init, other


def check_cache(I, b, name, motors, pos, caches, init, other, info):
    """at normal termination: cache[m] == point[m] for the point's motors and the rest of the cache is as before"""
    w = I.w
    if not b.returned():
        return
    c = caches[0]
    ok = set(c.keys()) == set(motors) | {other}
    cond = And(*[Eq(c[m], p) for m, p in zip(motors, pos)], Eq(c[other], init[other])) if ok else False
    w.check(name + CACHE, cond, info)


for _n in (0, 1, 2, 3):
    def _mk(n=_n):
        @task(f"move_per_step[{n} motors]", PROP, functions=[QM], expect=[QM + TRACE, QM + OUTCOME] + ([QM + CACHE] if n else []),
              covers=[f"{QM}: terminated by return"])
        def t(I):
            w = I.w
            b, ref = new_bisim(I, QM, replay="scans.move_per_step")
            motors, pos, step, caches, init, other = concrete_step(I, n)
            b.extra = lambda: {"n": n, "cached": [m in init for m in motors]}
            gi = I.call_value(I.get_function(QM), dict(step), caches[0])
            b.current = b.ref
            gr = I.call_value(I.global_lookup(ref, "ref_move_per_step"), dict(step), caches[1])
            b.run(gi, gr)
            check_cache(I, b, QM, motors, pos, caches, init, other, b.info("cache after the step"))

        @task(f"one_nd_step[{n} motors]", PROP, functions=[QN, QM], expect=[QN + TRACE, QN + OUTCOME],
              covers=[f"{QN}: terminated by return"])
        def t2(I):
            w = I.w
            b, ref = new_bisim(I, QN, replay="scans.one_nd_step")
            motors, pos, step, caches, init, other = concrete_step(I, n)
            dets = [device("det0"), device("det1")]
            default = w.choose([False, True], "take_reading defaulted")
            Ti, Tr = gen_function_pair(b, "take_reading")
            b.extra = lambda: {"n": n, "cached": [m in init for m in motors], "default_take_reading": default}
            if default:
                I.call_hooks[f"{MS}:trigger_and_read"] = lambda I_, f, a, k: _ret((Ti if b.current is b.impl else Tr)(I_, a, k))
            gi = I.call_value(I.get_function(QN), list(dets), dict(step), caches[0], None if default else Ti)
            b.current = b.ref
            gr = I.call_value(I.global_lookup(ref, "ref_one_nd_step"), list(dets), dict(step), caches[1], Tr)
            b.run(gi, gr)
            check_cache(I, b, QN, motors, pos, caches, init, other, b.info("cache after the step"))
    _mk()


@task("one_nd_step[any number of motors]", PROP, functions=[QN, QM], expect=[QN + TRACE, QN + OUTCOME],
      covers=[f"{QN}: terminated by return", f"{QN}: closed at an established cut point"])
def one_nd_step_generic(I):
    """the point is a mapping over arbitrarily many motors: list(step.keys()) is the token 'the motors of the point, in
    order', and a list + that token is the list followed by those motors (same encoding on both sides)"""
    w = I.w
    b, ref = new_bisim(I, QN, replay="scans.one_nd_step")
    seq, view = generic_step(w)
    keys_token = Opaque("motors of the point", {"token": "keys", "isinstance_default": False, "truth": True,
                                                "binop": lambda I_, op, x, y: (list(x) + [y]) if op == "+" and isinstance(x, list) else
                                                ([x] + list(y)) if op == "+" and isinstance(y, list) else _no_contract(op)})

    def step_view():
        o = view()
        o.spec["methods"]["keys"] = lambda I_, o_, a, k: keys_token
        return o
    blist = I.builtins["list"]
    for mod in (MS, "verif_ref_c25"):
        w.stubs[(mod, "list")] = native(lambda I_, a, k: a[0] if a and a[0] is keys_token else blist.impl(I_, a, k))
    shared = {}
    ci, cr = CacheView(shared, b.impl, w), CacheView(shared, b.ref, w)
    dets = [device("det0"), device("det1")]
    default = w.choose([False, True], "take_reading defaulted")
    Ti, Tr = gen_function_pair(b, "take_reading")
    b.extra = lambda: {"motors": [e[0].name for e in seq.elements()], "cache": {m.name: (v is not None) for m, v in shared.values()},
                       "default_take_reading": default}
    if default:
        I.call_hooks[f"{MS}:trigger_and_read"] = lambda I_, f, a, k: _ret((Ti if b.current is b.impl else Tr)(I_, a, k))
    gi = I.call_value(I.get_function(QN), list(dets), step_view(), ci.opaque(), None if default else Ti)
    b.current = b.ref
    gr = I.call_value(I.global_lookup(ref, "ref_one_nd_step"), list(dets), step_view(), cr.opaque(), Tr)
    b.run(gi, gr)


def _no_contract(op):
    raise EngineError(f"operator {op} on the motors-of-the-point token: no contract")


@task("move_per_step[any number of motors]", PROP, functions=[QM], expect=[QM + TRACE, QM + OUTCOME],
      covers=[f"{QM}: terminated by return", f"{QM}: closed at an established cut point"])
def move_per_step(I):
    w = I.w
    b, ref = new_bisim(I, QM, replay="scans.move_per_step")
    seq, view = generic_step(w)
    shared = {}
    ci, cr = CacheView(shared, b.impl, w), CacheView(shared, b.ref, w)
    b.extra = lambda: {"motors": [e[0].name for e in seq.elements()], "cache": {m.name: (v is not None) for m, v in shared.values()}}
    gi = I.call_value(I.get_function(QM), view(), ci.opaque())
    b.current = b.ref
    gr = I.call_value(I.global_lookup(ref, "ref_move_per_step"), view(), cr.opaque())
    b.run(gi, gr)


# ------------------------------------------------------------------------------------------------ scan_nd / log_scan loops
QS = f"{MP}:scan_nd"
KIND = {k: Opaque(k, {"token": "paramkind", "isinstance_default": False, "truth": True})
        for k in ("POSITIONAL_OR_KEYWORD", "VAR_POSITIONAL", "VAR_KEYWORD", "KEYWORD_ONLY")}
EMPTY = Opaque("Parameter.empty", {"token": "empty", "isinstance_default": False, "truth": True})


def signature_model(params):
    """inspect.Signature restricted to what scan_nd looks at: ordered parameters with name / kind / 'has a default';
    equality is equality of that description (assumed contract of inspect.signature)"""
    import collections
    od = collections.OrderedDict()
    for name, kind, has_default in params:
        od[name] = Opaque(f"param:{name}", {"attrs": {"name": name, "kind": KIND[kind], "empty": EMPTY,
                                                       "default": Opaque("some-default", {"token": "default", "isinstance_default": False}) if has_default else EMPTY,
                                                       "VAR_KEYWORD": KIND["VAR_KEYWORD"], "VAR_POSITIONAL": KIND["VAR_POSITIONAL"]},
                                             "isinstance_default": False, "truth": True})
    desc = tuple(params)

    def compare(I_, sym, a, b):
        da, db = (getattr(x, "attrs", {}).get("$desc") for x in (a, b))
        if sym not in ("==", "!="):
            raise EngineError("ordering of signatures")
        return (da == db) == (sym == "==")
    sig = Opaque("signature", {"attrs": {"parameters": od}, "compare": compare, "isinstance_default": False, "truth": True})
    sig.attrs["$desc"] = desc
    return sig


def inspect_signature(I, a, k):
    import ast as _ast
    f = a[0]
    if isinstance(f, Closure):
        ar = f.node.args
        nd = len(ar.defaults)
        pos = ar.posonlyargs + ar.args
        params = [(p.arg, "POSITIONAL_OR_KEYWORD", i >= len(pos) - nd) for i, p in enumerate(pos)]
        if ar.vararg:
            params.append((ar.vararg.arg, "VAR_POSITIONAL", False))
        params += [(p.arg, "KEYWORD_ONLY", d is not None) for p, d in zip(ar.kwonlyargs, ar.kw_defaults)]
        if ar.kwarg:
            params.append((ar.kwarg.arg, "VAR_KEYWORD", False))
        return signature_model(params)
    if getattr(f, "_params", None) is not None:
        return signature_model(f._params)
    raise EngineError(f"inspect.signature of {f!r}")


def zip_longest(I, a, k):
    cols = [I.run(I.iterate(x)) for x in a]
    n = max(len(c) for c in cols) if cols else 0
    return [tuple(c[i] if i < len(c) else k.get("fillvalue") for c in cols) for i in range(n)]


def by_name(xs):
    return tuple(sorted(xs, key=lambda d: d.name))


class ScanEnv:
    """assumed contracts of what surrounds the per-point loop of a scan (each is some other property's subject):
    stage_decorator / run_decorator are transparent here and their arguments are recorded; the stream pre-declaration
    is an abstract plan; the environment variable BLUESKY_PREDECLARE is set or not; inspect.signature as modelled"""

    def __init__(self, I, b, predeclare, module=MP):
        self.rec = {}
        w = I.w
        rec = self.rec

        def stage_decorator(I_, a, k):
            rec["stage"] = list(a[0])
            return native(lambda I2, a2, k2: a2[0])

        def run_decorator(I_, a, k):
            rec["md"] = k.get("md")
            return native(lambda I2, a2, k2: a2[0])
        w.stubs[("bluesky.preprocessors", "stage_decorator")] = native(stage_decorator)
        w.stubs[("bluesky.preprocessors", "run_decorator")] = native(run_decorator)
        w.stubs["os.environ.get"] = lambda I_, a, k: ("1" if predeclare else (a[1] if len(a) > 1 else None))
        w.stubs["inspect.signature"] = inspect_signature
        w.stubs["itertools.zip_longest"] = zip_longest
        blist = I.builtins["list"]
        w.stubs[(module, "list")] = native(lambda I_, a, k: a[0].attrs["$points"]() if a and isinstance(a[0], Opaque) and "$points" in a[0].attrs
                                           else blist.impl(I_, a, k))
        self.Di, self.Dr = gen_function_pair(b, "declare_stream", log_args=lambda p: (by_name([x for x in p if isinstance(x, Opaque)]),) + tuple(x for x in p if not isinstance(x, Opaque)))
        I.call_hooks[f"{MS}:declare_stream"] = lambda I_, f, a, k: _ret(self.Di(I_, a, k))


def abstract_cycler(w, n_motors, hints):
    """a cycler as scan_nd sees it: n keys (a set), a length, and its points in order (arbitrarily many)"""
    motors = [device(f"motor{i}", **({"hints": {"fields": [f"motor{i}"]}} if hints else {})) for i in range(n_motors)]
    N = w.int("len_cycler")
    w.add(N >= 0)

    def point(k):
        v = w.real(f"value{k}")
        return Opaque(f"point{k}", {"token": "point", "methods": {"values": lambda I_, o, a, kw: [v]}, "attrs": {"$value": v},
                                    "isinstance_default": False, "truth": True})
    seq = GenericSeq("points", point)
    cyc = Opaque("cycler", {"attrs": {"keys": set(motors)}, "len": lambda I_, o: N, "isinstance_default": False, "truth": True})
    cyc.attrs["$points"] = seq.iterator
    return cyc, motors, N, seq


def cache_descr(I, seen):
    """how a position cache argument enters the compared call log: which cache object it is (0 = the first one seen on
    this side), that it is a defaultdict whose missing entries read None, and its current contents"""
    import collections

    def f(payload):
        out = []
        for x in payload:
            if isinstance(x, dict):
                if not any(x is y for y in seen):
                    seen.append(x)
                idx = [i for i, y in enumerate(seen) if x is y][0]
                dd = isinstance(x, collections.defaultdict) and x.default_factory is not None and I.call_value(x.default_factory) is None
                out.append(("pos_cache", idx, "missing entries read None" if dd else "plain dict", dict(x)))
            else:
                out.append(x)
        return tuple(out)
    return f


MD_ND = QS + "#ensures[recorded num_points == len(cycler), num_intervals == num_points - 1, motors / detectors named, staged = detectors + motors]"
MD_ARG = QS + "#ensures[every entry of the md argument is recorded as given: it takes precedence over scan_nd's own entries]"
SIGS = {"nd": [("detectors", "POSITIONAL_OR_KEYWORD", False), ("step", "POSITIONAL_OR_KEYWORD", False), ("pos_cache", "POSITIONAL_OR_KEYWORD", False)],
        "nd+take_reading": [("detectors", "POSITIONAL_OR_KEYWORD", False), ("step", "POSITIONAL_OR_KEYWORD", False), ("pos_cache", "POSITIONAL_OR_KEYWORD", False),
                            ("take_reading", "POSITIONAL_OR_KEYWORD", True)],
        "1d": [("detectors", "POSITIONAL_OR_KEYWORD", False), ("motor", "POSITIONAL_OR_KEYWORD", False), ("step", "POSITIONAL_OR_KEYWORD", False)],
        "other": [("x", "POSITIONAL_OR_KEYWORD", False), ("y", "POSITIONAL_OR_KEYWORD", False)]}


def _scan_nd_task(n_motors):
    @task(f"scan_nd[{n_motors} motors]", PROP, functions=[QS, f"{QS}.inner_scan_nd", f"{QS}._verify_nd_step", f"{QS}._verify_1d_step", f"{QS}.adapter",
                                                          "bluesky.utils:merge_cycler", "bluesky.utils:merge_axis"],
          expect=[QS + TRACE, QS + OUTCOME, MD_ND, MD_ARG], covers=[f"{QS}: terminated by return", f"{QS}: closed at an established cut point"])
    def t(I):
        import collections
        w = I.w
        how = w.choose(["default", "nd", "nd+take_reading", "1d", "other"], "per_step")
        predeclare = how == "default" and w.choose([False, True], "BLUESKY_PREDECLARE")
        hints = w.choose([False, True], "motors have hints")
        user_md = w.choose([None, "user", "caller"], "md")
        b, ref = new_bisim(I, QS, replay="scans.scan_nd")
        env = ScanEnv(I, b, predeclare)
        w.stubs[("bluesky.utils", "groupby")] = native(lambda I_, a, k: _groupby(I_, a[0], a[1]))
        cyc, motors, N, seq = abstract_cycler(w, n_motors, hints)
        dets = [device("det0"), device("det1")]
        seen_i, seen_r = [], []
        Pi, Pr = gen_function_pair(b, "per_step")
        # the call log of per_step: side-specific cache descriptors
        Pi_, Pr_ = Pi, Pr

        def wrap(P, seen, side):
            descr = cache_descr(I, seen)

            def f(I_, a, k):
                g = P(I_, a, k)
                name, n, kind, payload = side.log[-1]
                side.log[-1] = (name, n, kind, descr(payload))
                return g
            f._canon_label = "per_step"
            return native(f)
        Pi, Pr = wrap(Pi_, seen_i, b.impl), wrap(Pr_, seen_r, b.ref)
        if how == "default":
            I.call_hooks[f"{MS}:one_nd_step"] = lambda I_, f, a, k: _ret(Pi(I_, a, k))
            per_step = None
        else:
            per_step = Pi
            per_step._params = SIGS[how]
        b.extra = lambda: {"per_step": how, "predeclare": predeclare, "n_motors": n_motors, "points": len(seq.elements()), "md": user_md}
        md = {"purpose": "user"} if user_md else None
        if user_md == "caller":
            # what scan / list_scan / grid_scan / list_grid_scan hand over: their own description of the scan, which is what
            # must end up in the start document (ordered motors, shape / extents / snaking, counts, plan_args)
            md = {"plan_name": "some_plan", "motors": tuple(x.name for x in reversed(motors)), "shape": (w.int("md_shape"),),
                  "extents": ([w.real("md_lo"), w.real("md_hi")],), "snaking": (False,), "num_points": w.int("md_num_points"),
                  "num_intervals": w.int("md_num_intervals"), "plan_args": {"args": [w.real("md_arg")]}, "plan_pattern_args": {"num": w.int("md_num")}}
        md_given = dict(md) if md else {}
        ri = catch(I, I.get_function(QS), list(dets), cyc, per_step=per_step, md=md)
        if ri[0] == "raise":
            raise EngineError("scan_nd is a generator function: nothing runs before the first send")
        gi = ri[1]
        b.current = b.ref
        cache = collections.defaultdict(None)
        cache.default_factory = native(lambda I_, a, k: None)
        declare = env.Dr(I, list(motors) + list(dets), {"name": "primary"}) if predeclare else None
        bad = how == "other" or (how == "1d" and n_motors != 1)
        if bad:
            # documented: a per_step with neither signature (or a 1-D one for several motors) is rejected with TypeError
            # before anything is yielded
            b.impl.gen = gi
            out = b.outcome(b.impl, ("send", None))
            w.check(QS + "#raises[TypeError for a per_step of the wrong signature, before any message]",
                    out[0] == "raise" and exc_is(I, out[1], "TypeError"), b.info("wrong signature"))
            return
        if how == "1d":
            gr = I.call_value(I.global_lookup(ref, "ref_scan_1d_points"), list(dets), motors[0], seq.iterator(lambda p: p.spec["attrs"]["$value"]), Pr, declare)
        else:
            gr = I.call_value(I.global_lookup(ref, "ref_scan_points"), list(dets), seq.iterator(), Pr, cache, declare)
        b.run(gi, gr)
        rec = env.rec
        if "md" in rec:
            m = rec["md"]
            ok = (isinstance(m, dict) and set(m.get("motors", ())) == {x.name for x in motors} and m.get("detectors") == [d.name for d in dets]
                  and (m.get("plan_name") == "scan_nd" or user_md == "caller") and rec.get("stage", [])[:2] == dets and set(rec.get("stage", [])[2:]) == set(motors)
                  and len(rec.get("stage", [])) == 2 + n_motors and (user_md != "user" or m.get("purpose") == "user"))
            if user_md != "caller":
                w.check(MD_ND, And(Eq(m.get("num_points"), N), Eq(m.get("num_intervals"), N - 1)) if ok else False, b.info("metadata"))
            else:
                w.check(MD_ND, ok, b.info("metadata"))
            # the md argument wins: every entry of it is recorded as given (the calling plans rely on this for their ordered
            # motors, shape, extents, snaking, counts and plan_args)
            w.check(MD_ARG, And(*[same_value(I, m.get(key), val) for key, val in md_given.items()]) if isinstance(m, dict) and all(key in m for key in md_given) else False,
                    b.info("metadata: entries of the md argument"))
    return t


for _n in (1, 2):
    _scan_nd_task(_n)


def _groupby(I, key, seq):
    out = {}
    for x in I.run(I.iterate(seq)):
        out.setdefault(I.call_value(key, x), []).append(x)
    return out


# ------------------------------------------------------------------------------------------------ numpy / cycler algebra
# Assumed contracts (TRUSTED): what numpy and cycler return is represented by a *description* of the trajectory:
#   ("col", motor, ("linspace", start, stop, num, endpoint))   cycler(motor, numpy.linspace(start, stop, num=num, endpoint=endpoint))
#   ("col", motor, ("list", L))                               cycler(motor, L)
#   ("zip", (d1, ..., dn))                                    d1 + ... + dn: the motors move together (inner product); equal lengths
#   ("snake", (d1, ..., dn), (s1, ..., sn))                   bluesky.utils.snake_cyclers([d1..dn], [s1..sn])  (property C26:
#                                                             row-major outer product, axis i reversed on alternate passes iff s_i)
from pyvc.bisim import same as same_value


class Cyc:
    def __init__(self, descr, keys, length):
        self.descr, self.keys, self.length = descr, list(keys), length

    def canon(self, cn):
        return ("cycler", cn.c(self.descr))


def nonempty(I, *models):
    """domain of the assumed cycler contracts: composing EMPTY cyclers is outside it (the cycler library raises
    StopIteration there - probed natively); a harness that lets an empty trajectory reach a composition is an engine error"""
    for m in models:
        if I.w.feasible(ops.compare("<", m.length, 1)):
            raise EngineError("composition of a possibly empty cycler: outside the assumed cycler contract (precondition: num >= 1, non-empty lists)")


def cyc_value(I, model):
    def binop(I_, op, a, b):
        ma, mb = a.attrs["$model"], b.attrs["$model"]
        nonempty(I_, ma, mb)
        if op == "+":
            if any(x is y for x in ma.keys for y in mb.keys):
                I_.raise_("ValueError", "Cannot compose overlapping cycles")
            if I_.truth(ops.not_(ops.eq(ma.length, mb.length)), "cycler lengths differ"):
                I_.raise_("ValueError", "Can only add equal length cycles")
            parts = (ma.descr[1] if ma.descr[0] == "zip" else (ma.descr,)) + (mb.descr[1] if mb.descr[0] == "zip" else (mb.descr,))
            return cyc_value(I_, Cyc(("zip", parts), ma.keys + mb.keys, ma.length))
        raise EngineError(f"cycler {op}: no assumed contract (outer products go through snake_cyclers)")
    o = Opaque("cycler", {"attrs": {"keys": set(model.keys)}, "len": lambda I_, o_: model.length, "binop": binop,
                          "isinstance_default": False, "truth": True})
    o.attrs["$model"] = model
    return o


def array_value(descr, length):
    o = Opaque("array", {"len": lambda I_, o_: length, "isinstance_default": False, "truth": True, "token": "array"})
    o.attrs["$col"] = descr
    o.attrs["$len"] = length
    return o


class PosList:
    """a list of positions of ARBITRARY length L >= 1 as given to list_scan / list_grid_scan (assumed contract of Python
    lists of reals): an element is decided when it is first read (x[k], x[-k]; IndexError outside the list); reading the
    same place twice gives the same element; every element lies in [min(x), max(x)], and both are attained (at places
    argmin / argmax).  Derived views: sorted(x) (ascending: first = min, last = max), reversed(x) / x[::-1]
    (place j is place L-1-j of x) - as trajectories they are NOT x (x is not assumed to be monotone)."""

    def __init__(self, w, i):
        self.w, self.i = w, i
        self.L = w.int(f"len_list{i}")
        self.lo, self.hi = w.real(f"min_list{i}"), w.real(f"max_list{i}")
        self.kmin, self.kmax = w.int(f"argmin_list{i}"), w.int(f"argmax_list{i}")
        w.add(And(self.L >= 1, self.lo <= self.hi, self.kmin >= 0, self.kmin < self.L, self.kmax >= 0, self.kmax < self.L,
                  Implies(Eq(self.kmin, self.kmax), Eq(self.lo, self.hi))))
        self.elems = []                                  # (place, value)
        self.views = {}
        self.base = self.view("list")

    def element(self, j, label):
        w = self.w
        for jj, e in self.elems:
            if jj is j or repr(jj) == repr(j):
                return e
        e = w.real(f"list{self.i}_{label}")
        w.add(And(self.lo <= e, e <= self.hi, Implies(Eq(j, self.kmin), Eq(e, self.lo)), Implies(Eq(j, self.kmax), Eq(e, self.hi)),
                  *[Implies(Eq(j, jj), Eq(e, ee)) for jj, ee in self.elems]))
        self.elems.append((j, e))
        return e

    def getitem(self, kind):
        def get(I, o, k):
            if isinstance(k, slice):
                if k.start is None and k.stop is None and k.step in (None, 1):
                    return o
                if k.start is None and k.stop is None and k.step == -1:
                    return self.view({"list": "reversed", "reversed": "list"}.get(kind) or _no_list_contract(f"{kind}[::-1]"))
                _no_list_contract(f"slice {k!r}")
            if isinstance(k, bool) or not (isinstance(k, int) or (isinstance(k, Sym) and k.kind == "int")):
                _no_list_contract(f"index {k!r}")
            neg = I.truth(ops.compare("<", k, 0), "negative index")
            j = ops.binop("+", self.L, k) if neg else k
            if I.truth(Or(ops.compare("<", j, 0), ops.compare(">=", j, self.L)), "index outside the list"):
                I.raise_("IndexError", "list index out of range")
            label = (f"at_m{-k}" if neg else f"at_{k}") if isinstance(k, int) else f"at_sym{len(self.elems)}"
            if kind == "list":
                return self.element(j, label)
            if kind == "reversed":
                if not isinstance(k, int):
                    _no_list_contract("symbolic index into a reversed list")
                return self.element(ops.binop("-", ops.binop("-", self.L, 1), j), f"at_{-k - 1}" if neg else f"at_m{k + 1}")
            # sorted: ascending
            if I.truth(Eq(j, 0), "first of sorted"):
                return self.lo
            if I.truth(Eq(j, ops.binop("-", self.L, 1)), "last of sorted"):
                return self.hi
            _no_list_contract("inner element of a sorted list")
        return get

    def view(self, kind):
        if kind not in self.views:
            o = array_value(None, self.L)
            o.name = f"positions{self.i}" if kind == "list" else f"{kind}(positions{self.i})"
            o.spec["getitem"] = self.getitem(kind)
            o.attrs.update({"$col": (kind, self.views["list"] if kind != "list" else o), "$min": self.lo, "$max": self.hi, "$poslist": (self, kind)})
            self.views[kind] = o
        return self.views[kind]


def _no_list_contract(what):
    raise EngineError(f"abstract position list: {what}: no assumed contract")


def position_list(w, i):
    p = PosList(w, i)
    return p.base, p.L


class PatternEnv:
    def __init__(self, I, modules=(MPP, MP)):
        w = I.w
        self.linspace_calls = []

        def linspace(I_, a, k):
            start, stop = a[0], a[1]
            num = a[2] if len(a) > 2 else k.get("num", 50)
            endpoint = k.get("endpoint", True)
            if set(k) - {"num", "endpoint"} or len(a) > 3:
                raise EngineError("numpy.linspace: argument form outside the assumed contract")
            if I_.truth(ops.compare("<", num, 0), "linspace num < 0"):
                I_.raise_("ValueError", "Number of samples must be non-negative")
            return array_value(("linspace", start, stop, num, endpoint), num)

        def logspace(I_, a, k):
            if a or set(k) != {"start", "stop", "num"}:
                raise EngineError("numpy.logspace: argument form outside the assumed contract")
            if I_.truth(ops.compare("<", k["num"], 0), "logspace num < 0"):
                I_.raise_("ValueError", "Number of samples must be non-negative")
            return array_value(("logspace", k["start"], k["stop"], k["num"]), k["num"])

        def cycler(I_, a, k):
            if k or len(a) != 2:
                raise EngineError("cycler(): argument form outside the assumed contract")
            motor, col = a
            if isinstance(col, Opaque) and "$col" in col.attrs:
                return cyc_value(I_, Cyc(("col", motor, col.attrs["$col"]), [motor], col.attrs["$len"]))
            if isinstance(col, (list, tuple)) and all(isinstance(x, (Sym, int, float)) and not isinstance(x, bool) for x in col):
                # a concrete list of (symbolic) positions: the column IS its values, in order
                return cyc_value(I_, Cyc(("col", motor, ("values", tuple(col))), [motor], len(col)))
            raise EngineError(f"cycler(motor, {col!r}): not a modelled column")

        def reduce_(I_, a, k):
            f, xs = a[0], I_.run(I_.iterate(a[1]))
            if not xs:
                I_.raise_("TypeError", "reduce() of empty iterable with no initial value")
            acc = xs[0]
            for x in xs[1:]:
                acc = I_.call_value(f, acc, x)
            return acc

        def partition(I_, a, k):
            n, xs = a[0], I_.run(I_.iterate(a[1]))
            return [tuple(xs[i:i + n]) for i in range(0, len(xs) - n + 1, n)]          # toolz: an incomplete tail is dropped

        def snake_cyclers(I_, f, a, k):
            cyclers, snaking = list(a[0]), list(a[1])
            if len(cyclers) != len(snaking):
                I_.raise_("ValueError", "number of cyclers does not match number of booleans")
            ms = [c.attrs["$model"] for c in cyclers]
            if len(ms) > 1:
                nonempty(I_, *ms)
            keys = [x for m in ms for x in m.keys]
            if len({id(x) for x in keys}) != len(keys):
                I_.raise_("ValueError", "Cannot compose overlapping cycles")
            length = 1
            for m in ms:
                length = ops.binop("*", length, m.length)
            return cyc_value(I_, Cyc(("snake", tuple(m.descr for m in ms), tuple(snaking)), keys, length))
            yield
        w.stubs["numpy.linspace"] = linspace
        w.stubs["numpy.logspace"] = logspace
        w.stubs["cycler.cycler"] = cycler
        w.stubs["functools.reduce"] = reduce_
        w.stubs["operator.add"] = lambda I_, a, k: I_.run(I_.binop("+", a[0], a[1]))
        w.stubs["operator.mul"] = lambda I_, a, k: I_.run(I_.binop("*", a[0], a[1]))
        for m in ("cytools", "toolz"):
            w.stubs[f"{m}.partition"] = partition
        I.call_hooks["bluesky.utils:snake_cyclers"] = snake_cyclers
        blist = I.builtins["list"]
        bmin, bmax = I.builtins["min"], I.builtins["max"]

        def lst(I_, a, k):
            if a and isinstance(a[0], Opaque) and "$col" in a[0].attrs:
                return a[0]                      # list(L) of a position list: the same positions
            return blist.impl(I_, a, k)

        def mk(which, builtin):
            def f(I_, a, k):
                if len(a) == 1 and isinstance(a[0], Opaque) and "$" + which in a[0].attrs:
                    if I_.truth(ops.eq(a[0].attrs["$len"], 0), "empty position list"):
                        I_.raise_("ValueError", f"{which}() arg is an empty sequence")
                    return a[0].attrs["$" + which]
                r = builtin.impl(I_, a, k)
                return (yield from r) if builtin.gen else r
            return f
        bsorted, breversed = I.builtins["sorted"], I.builtins["reversed"]

        def mkview(kind, builtin):
            def f(I_, a, k):
                if len(a) == 1 and not k and isinstance(a[0], Opaque) and "$poslist" in a[0].attrs:
                    pl, have = a[0].attrs["$poslist"]
                    if kind == "sorted":
                        return pl.view("sorted")                                  # sorting forgets the order it came in
                    return pl.view({"list": "reversed", "reversed": "list"}.get(have) or _no_list_contract(f"reversed({have})"))
                r = builtin.impl(I_, a, k)
                return (yield from r) if builtin.gen else r
            return f
        for m in modules:
            w.stubs[(m, "list")] = native(lst)
            w.stubs[(m, "min")] = native(mk("min", bmin))
            w.stubs[(m, "max")] = native(mk("max", bmax))
            w.stubs[(m, "sorted")] = native(mkview("sorted", bsorted))
            w.stubs[(m, "reversed")] = native(mkview("reversed", breversed))


def movable(name, **attrs):
    d = device(name, **attrs)
    d.spec["isinstance"] = {"Movable": True, "Readable": True, "HasHints": "hints" in attrs}
    return d


def axes(w, n, with_num=False):
    """n motors with symbolic start / stop (reals) [and per-axis num (ints >= 0)]"""
    out = []
    for i in range(n):
        ax = {"motor": movable(f"motor{i}"), "start": w.real(f"start{i}"), "stop": w.real(f"stop{i}")}
        if with_num:
            ax["num"] = w.int(f"num{i}")
            w.add(ax["num"] >= 1)
        out.append(ax)
    return out


def descr_of(v):
    return v.attrs["$model"].descr if isinstance(v, Opaque) and "$model" in v.attrs else None


QIP = f"{MPP}:inner_product"
IP_ENS = QIP + "#ensures[motor i moves through numpy.linspace(start_i, stop_i, num, endpoint=True), all motors together, in the given order]"


def _inner_product_task(n):
    @task(f"inner_product[{n} motors]", PROP, functions=[QIP], expect=[IP_ENS])
    def t(I):
        w = I.w
        PatternEnv(I)
        num = w.int("num")
        w.add(num >= 1)
        ax = axes(w, n)
        args = [x for a in ax for x in (a["motor"], a["start"], a["stop"])]
        r = catch(I, I.get_function(QIP), num, tuple(args))
        want = ("zip", tuple(("col", a["motor"], ("linspace", a["start"], a["stop"], num, True)) for a in ax)) if n > 1 else \
            ("col", ax[0]["motor"], ("linspace", ax[0]["start"], ax[0]["stop"], num, True))
        w.check(IP_ENS, r[0] == "ok" and descr_of(r[1]) is not None and same_value(I, descr_of(r[1]), want), {"replay": "scans.inner_product", "n": n})
    return t


for _n in (1, 2, 3):
    _inner_product_task(_n)


@task("inner_product[wrong number of arguments]", PROP, functions=[QIP], expect=[QIP + "#raises[ValueError unless args are (motor, start, stop) triples]"])
def inner_product_arity(I):
    w = I.w
    PatternEnv(I)
    ax = axes(w, 2)
    extra = w.choose([1, 2], "extra arguments")
    args = [x for a in ax for x in (a["motor"], a["start"], a["stop"])][:3 + extra]
    r = catch(I, I.get_function(QIP), 5, tuple(args))
    w.check(QIP + "#raises[ValueError unless args are (motor, start, stop) triples]", r[0] == "raise" and exc_is(I, r[1], "ValueError"))


QILP = f"{MPP}:inner_list_product"
ILP_ENS = QILP + "#ensures[motor i moves through its position list, all motors together, in the given order]"


def _inner_list_product_task(n):
    @task(f"inner_list_product[{n} motors]", PROP, functions=[QILP], expect=[ILP_ENS])
    def t(I):
        w = I.w
        PatternEnv(I)
        motors = [movable(f"motor{i}") for i in range(n)]
        lists = [position_list(w, i) for i in range(n)]
        args = [x for m, (L, _) in zip(motors, lists) for x in (m, L)]
        r = catch(I, I.get_function(QILP), tuple(args))
        cols = tuple(("col", m, ("list", L)) for m, (L, _) in zip(motors, lists))
        want = ("zip", cols) if n > 1 else cols[0]
        same_len = And(*[Eq(lists[0][1], ln) for _, ln in lists[1:]])
        info = {"replay": "scans.inner_list_product", "n": n}
        if r[0] == "ok":
            # documented: all lists must have the same length
            w.check(ILP_ENS, And(same_len, descr_of(r[1]) is not None and same_value(I, descr_of(r[1]), want)), info)
        else:
            w.check(QILP + "#raises[ValueError only for lists of different lengths]", And(exc_is(I, r[1], "ValueError"), Not(same_len)), info)
    return t


for _n in (1, 2, 3):
    _inner_list_product_task(_n)


QCH = f"{MPP}:chunk_outer_product_args"
QCL = f"{MPP}:classify_outer_product_args_pattern"
CH_ENS = QCH + "#ensures[one (motor, start, stop, num, snake) per axis in order; snake False for the first axis and for every axis of the 4-per-axis form]"


def pattern_enum(I):
    """enum.Enum (assumed contract): the members of OuterProductArgsPattern are singleton instances of the class,
    equal only to themselves"""
    ci = I.P.class_info(MPP, "OuterProductArgsPattern")
    cache = I.module_globals.setdefault("$classattrs", {})
    out = {}
    for i in (1, 2):
        key = ("classattr", ci.qualname, f"PATTERN_{i}")
        if not isinstance(cache.get(key), Obj):
            cache[key] = Obj(ci, {"name": f"PATTERN_{i}", "value": i}, label=f"PATTERN_{i}")
        out[i] = cache[key]
    return out


def grid_args(w, n, pattern):
    """arguments of grid_scan / outer_product for n axes: pattern 1 = 4 per axis; pattern 2 = snake flag from the second axis on"""
    ax = axes(w, n, with_num=True)
    args = []
    for i, a in enumerate(ax):
        args += [a["motor"], a["start"], a["stop"], a["num"]]
        a["snake"] = False
        if pattern == 2 and i > 0:
            a["snake"] = w.bool(f"snake{i}")
            args.append(a["snake"])
    return ax, args


def _chunk_task(n, pattern):
    if pattern == 2 and n == 1:
        return

    @task(f"chunk_outer_product_args[{n} axes, pattern {pattern}]", PROP, functions=[QCH, QCL, f"{QCL}._verify_motor_locations", "bluesky.utils:is_movable"],
          expect=[CH_ENS])
    def t(I):
        w = I.w
        PatternEnv(I)
        ax, args = grid_args(w, n, pattern)
        given = w.choose(["auto", "given"], "pattern argument")
        members = pattern_enum(I)
        pat = members[pattern] if given == "given" else None
        try:
            out = I.run(I.iterate(I.call_value(I.get_function(QCH), tuple(args), pat)))
            res = ("ok", out)
        except PyRaise as pr:
            res = ("raise", pr.exc)
        want = [(a["motor"], a["start"], a["stop"], a["num"], a["snake"]) for a in ax]
        w.check(CH_ENS, res[0] == "ok" and len(res[1]) == n and same_value(I, [tuple(x) for x in res[1]], want), {"replay": "scans.chunk", "n": n, "pattern": pattern})
    return t


for _n in (1, 2, 3):
    for _p in (1, 2):
        _chunk_task(_n, _p)


QOP = f"{MPP}:outer_product"
OP_ENS = QOP + "#ensures[snake_cyclers over cycler(motor_i, numpy.linspace(start_i, stop_i, num_i, endpoint=True)) in the given order, slowest first, with the given snake flags]"


def grid_descr(ax, snaking):
    return ("snake", tuple(("col", a["motor"], ("linspace", a["start"], a["stop"], a["num"], True)) for a in ax), tuple(snaking))


def same_grid(I, got, want):
    """same axes in the same order; snake flags equal from the second axis on (the flag of the slowest axis has no
    effect on the trajectory - it never repeats: bluesky.utils.snake_cyclers, property C26)"""
    if got is None or got[0] != "snake" or len(got[1]) != len(want[1]) or len(got[2]) != len(want[2]):
        return False
    return And(same_value(I, got[1], want[1]), same_value(I, tuple(got[2][1:]), tuple(want[2][1:])))


def _outer_product_task(n, pattern):
    if pattern == 2 and n == 1:
        return

    @task(f"outer_product[{n} axes, pattern {pattern}]", PROP, functions=[QOP, QCH, QCL], expect=[OP_ENS])
    def t(I):
        w = I.w
        PatternEnv(I)
        pattern_enum(I)
        ax, args = grid_args(w, n, pattern)
        r = catch(I, I.get_function(QOP), tuple(args))
        w.check(OP_ENS, r[0] == "ok" and same_grid(I, descr_of(r[1]), grid_descr(ax, [a["snake"] for a in ax])),
                {"replay": "scans.outer_product", "n": n, "pattern": pattern})
    return t


for _n in (1, 2, 3):
    for _p in (1, 2):
        _outer_product_task(_n, _p)


QOLP = f"{MPP}:outer_list_product"
OLP_ENS = QOLP + "#ensures[snake_cyclers over cycler(motor_i, list_i), slowest first; snake_axes False: none snaked, True: every axis but the slowest, a list: exactly the listed axes]"


def list_axes(w, n, lens=None):
    """n axes given by position lists: of arbitrary length (PosList) or, for lens = (k_0, ..), real Python lists of k_i
    symbolic positions (enumerated shape, arbitrary contents: repeated, descending, non-monotone ...)"""
    if lens is None:
        return [{"motor": movable(f"motor{i}"), "list": position_list(w, i)[0], "values": None} for i in range(n)]
    out = []
    for i in range(n):
        vals = [w.real(f"list{i}_at_{k}") for k in range(lens[i])]
        out.append({"motor": movable(f"motor{i}"), "list": list(vals), "values": vals})
    return out


def list_len(a):
    return a["list"].attrs["$len"] if a["values"] is None else len(a["values"])


def list_col(a):
    return ("list", a["list"]) if a["values"] is None else ("values", tuple(a["values"]))


def extents_ok(ext, a):
    """statement: the recorded extents of an axis are the lowest and the highest position it visits"""
    if not isinstance(ext, (list, tuple)) or len(ext) != 2:
        return False
    if a["values"] is None:
        return And(Eq(ext[0], a["list"].attrs["$min"]), Eq(ext[1], a["list"].attrs["$max"]))
    vs = a["values"]
    return And(*[ops.compare("<=", ext[0], v) for v in vs], Or(*[Eq(ext[0], v) for v in vs]),
               *[ops.compare(">=", ext[1], v) for v in vs], Or(*[Eq(ext[1], v) for v in vs]))


def snake_request(w, ax, kinds=("False", "True", "list")):
    """-> (snake_axes argument, requested flag per axis)"""
    kind = w.choose(list(kinds), "snake_axes")
    if kind == "False":
        return False, [False] * len(ax), kind
    if kind == "True":
        return True, [False] + [True] * (len(ax) - 1), kind
    if kind in ("None", "default"):
        return None, [False] * len(ax), kind
    member = [False] + [w.choose([False, True], f"axis {i} listed") for i in range(1, len(ax))]
    return [a["motor"] for a, m in zip(ax, member) if m], member, kind


def list_grid_descr(ax, snaking):
    return ("snake", tuple(("col", a["motor"], list_col(a)) for a in ax), tuple(snaking))


def _outer_list_product_task(n):
    @task(f"outer_list_product[{n} axes]", PROP, functions=[QOLP], expect=[OLP_ENS])
    def t(I):
        w = I.w
        PatternEnv(I)
        ax = list_axes(w, n)
        snake_axes, flags, kind = snake_request(w, ax)
        args = [x for a in ax for x in (a["motor"], a["list"])]
        r = catch(I, I.get_function(QOLP), tuple(args), snake_axes)
        w.check(OLP_ENS, r[0] == "ok" and same_grid(I, descr_of(r[1]), list_grid_descr(ax, flags)),
                {"replay": "scans.outer_list_product", "n": n, "snake_axes": kind, "flags": flags})
    return t


for _n in (1, 2, 3):
    _outer_list_product_task(_n)


# ------------------------------------------------------------------------------------------------ the plans
QSC = f"{MP}:scan"
DELEG = "#ensures[is exactly one scan_nd(detectors, <trajectory>, per_step=per_step, md=...): same detectors, the documented trajectory, metadata consistent with it]"


class PlanHarness:
    """runs a plan whose documented behaviour is 'build the trajectory, then be scan_nd on it': scan_nd is abstract (its
    own contract is the task scan_nd[...]); the plan is bisimulated against `return (yield from scan_nd(...))` and the
    arguments of the one scan_nd call are checked by `check(call args, call kwargs) -> condition`"""

    def __init__(self, I, qual, replay, info, hook_qual=QS, hook_name="scan_nd", returns=True, name=None):
        self.I, self.qual, self.name = I, qual, name or qual
        self.b, self.ref = new_bisim(I, self.name, replay=replay)
        self.b.extra = lambda: info
        self.calls = []
        self.Pi, self.Pr = self.b.absgen_pair(hook_name)
        self.returns = returns
        I.call_hooks[hook_qual] = self.hook
        self.dets = [device("det0"), device("det1")]
        self.per_step = None if I.w.choose(["default", "custom"], "per_step") == "default" else Opaque("per_step", {"token": "fn", "isinstance_default": False, "truth": True, "callable": True})
        PatternEnv(I)
        pattern_enum(I)
        # repr (assumed contract): a function of the object - asked twice about the same device / list it answers the same
        self.reprs = []
        from pyvc.builtins_ import repr_of

        def rp(x):
            if isinstance(x, (list, tuple)) and any(isinstance(e, Opaque) for e in x):
                for y, s in self.reprs:
                    if y is x:
                        return s
                self.reprs.append((x, repr_of(I, x)))
                return self.reprs[-1][1]
            return repr_of(I, x)
        self.rp = rp
        I.w.stubs[(MP, "repr")] = native(lambda I_, a, k: rp(a[0]))

    def hook(self, I_, f, a, k):
        self.calls.append((list(a), dict(k)))
        name = getattr(self, "check_name", self.name + DELEG)
        if len(self.calls) > 1:
            self.I.w.fail(name, self.b.info("second call of scan_nd"))
        else:
            res = self.check(list(a), dict(k))
            cond, more = res if isinstance(res, tuple) else (res, [])
            self.I.w.check(name, cond, {**self.b.info("arguments of the scan_nd call"), "clause": "trajectory"})
            for nm, c, clause in more:
                self.I.w.check(nm, c, {**self.b.info("metadata handed to scan_nd"), "clause": clause})
        return self.Pi
        yield

    def plan_args(self, md_args, **extra):
        """what 'plan_args' documents: the call, spelled with reprs - the detectors, the per-axis arguments in the
        order given, per_step (+ plan-specific entries)"""
        return {"detectors": [self.rp(d) for d in self.dets], **extra, "args": md_args, "per_step": self.rp(self.per_step)}

    def run(self, args, kwargs, check):
        I = self.I
        self.check = check
        gi = I.call_value(I.get_function(self.qual), *args, **kwargs)
        self.b.current = self.b.ref
        gr = I.call_value(I.global_lookup(self.ref, "ref_delegate" if self.returns else "ref_delegate_noresult"), self.Pr)
        self.b.run(gi, gr)

    def common(self, a, k, per_step="same"):
        """detectors and per_step handed on unchanged, nothing else passed"""
        ps = self.per_step if per_step == "same" else per_step
        return (len(a) == 2 and set(k) == {"per_step", "md"} and isinstance(a[0], list) and len(a[0]) == 2 and all(x is y for x, y in zip(a[0], self.dets))
                and k["per_step"] is ps and isinstance(k["md"], dict))


def effective_num_points(md, length):
    """scan_nd records num_points = len(cycler) unless the caller's md overrides it: what ends up recorded"""
    return md.get("num_points", length)


ARGS = "#ensures[recorded plan_args / plan_pattern_args spell out the call: detectors, per axis the motor and its numbers / positions in the order given, num, per_step]"
COUNTS = "#ensures[recorded num_points == number of points of the trajectory, num_intervals == num_points - 1]"
MD_PASS = "#ensures[every entry of the md argument is handed on to scan_nd as given]"
ARGS_1D = "#ensures[recorded num_intervals == num - 1; plan_args / plan_pattern_args spell out the call: detectors, motor, start, stop, num, per_step]"


def one_motor_md_ok(I, m, dets, motor, start, stop, num, default_per_step):
    from pyvc.builtins_ import repr_of
    want = {"detectors": [repr_of(I, d) for d in dets], "num": num, "start": start, "stop": stop, "motor": repr_of(I, motor)}
    pa = m.get("plan_args")
    if not isinstance(pa, dict) or set(pa) != set(want) | {"per_step"} or (default_per_step and pa["per_step"] != "None"):
        return False
    return And(Eq(m.get("num_intervals"), ops.binop("-", num, 1)), same_value(I, {k: v for k, v in pa.items() if k != "per_step"}, want),
               same_value(I, m.get("plan_pattern_args"), {"start": start, "stop": stop, "num": num}))


def counts_ok(md, length, points):
    """what the start document ends up with (scan_nd: the md argument wins over its own len(cycler) entries - task scan_nd[...],
    clause 'the md argument is recorded')"""
    return And(Eq(md.get("num_points", length), points), Eq(md.get("num_intervals", ops.binop("-", length, 1)), ops.binop("-", points, 1)))


def _scan_task(n):
    @task(f"scan[{n} motors]", PROP, functions=[QSC, QIP], expect=[QSC + TRACE, QSC + OUTCOME, QSC + DELEG, QSC + ARGS, QSC + COUNTS, QSC + MD_PASS],
          covers=[f"{QSC}: terminated by return"])
    def t(I):
        w = I.w
        how = w.choose(["positional num", "keyword num"], "num")
        h = PlanHarness(I, QSC, "scans.scan", {"n": n, "num": how})
        num = w.int("num")
        w.add(num >= 1)
        ax = axes(w, n)
        flat = [x for a in ax for x in (a["motor"], a["start"], a["stop"])]
        cols = tuple(("col", a["motor"], ("linspace", a["start"], a["stop"], num, True)) for a in ax)
        want = ("zip", cols) if n > 1 else cols[0]

        # a calling plan (x2x_scan via rel_scan) describes itself in md: those entries must reach scan_nd as given
        given = {"plan_name": "x2x_scan", "plan_args": {"num": w.int("md_num"), "motor1": "a"}, "purpose": "user"} if w.choose([None, "caller"], "md") else {}

        def check(a, k):
            if not h.common(a, k):
                return False
            d, md = descr_of(a[1]), k["md"]
            if d is None or tuple(md.get("motors", ())) != tuple(x["motor"].name for x in ax) or (not given and md.get("plan_name") != "scan"):
                return False
            md_args = [x for y in ax for x in (h.rp(y["motor"]), y["start"], y["stop"])]
            return (And(same_value(I, d, want), Eq(effective_num_points(md, a[1].attrs["$model"].length), num),
                        Eq(md.get("plan_pattern_args", {}).get("num"), num)),
                    [(QSC + ARGS, And(same_value(I, md.get("plan_args"), given.get("plan_args") or h.plan_args(md_args, num=num)),
                                      same_value(I, md.get("plan_pattern_args"), {"num": num, "args": md_args}),
                                      md.get("plan_pattern") == "inner_product"), "args"),
                     (QSC + MD_PASS, And(*[same_value(I, md.get(key), val) for key, val in given.items()]), "md"),
                     (QSC + COUNTS, counts_ok(md, a[1].attrs["$model"].length, num), "counts")])
        kw = {"per_step": h.per_step, **({"md": dict(given)} if given else {})}
        h.b.extra = lambda: {"n": n, "num": how, "md": bool(given)}
        if how == "positional num":
            h.run([list(h.dets)] + flat + [num], kw, check)
        else:
            h.run([list(h.dets)] + flat, {"num": num, **kw}, check)
    return t


for _n in (1, 2, 3):
    _scan_task(_n)


QIPS = f"{MP}:inner_product_scan"


@task("inner_product_scan", PROP, functions=[QIPS], expect=[QIPS + TRACE, QIPS + OUTCOME, QIPS + "#ensures[is scan(detectors, *args, num): the same trajectory as scan]"])
def inner_product_scan(I):
    """documented as the older spelling of scan with num in front"""
    w = I.w
    h = PlanHarness(I, QIPS, "scans.inner_product_scan", {}, hook_qual=QSC, hook_name="scan", returns=False)
    num = w.int("num")
    w.add(num >= 1)
    ax = axes(w, 2)
    flat = [x for a in ax for x in (a["motor"], a["start"], a["stop"])]

    def check(a, k):
        return (len(a) == 1 + len(flat) + 1 and all(x is y for x, y in zip(a[0], h.dets)) and all(x is y for x, y in zip(a[1:-1], flat))
                and a[-1] is num and k.get("num") is None and isinstance(k.get("md"), dict) and k["md"].get("plan_name") == "inner_product_scan")
    h.check_name = QIPS + "#ensures[is scan(detectors, *args, num): the same trajectory as scan]"
    h.run([list(h.dets), num] + flat, {"per_step": h.per_step}, check)


QLS = f"{MP}:list_scan"


CONCRETE_TAG = "[lists of 1-3 symbolic positions]"
CONCRETE = "position lists of 1-3 positions (contents symbolic: repeated / descending / non-monotone lists included), 1-2 axes"


def _list_scan_task(n, concrete=False):
    Q = QLS + CONCRETE_TAG if concrete else QLS

    @task(f"list_scan[{n} motors{', lists of 1-3 symbolic positions' if concrete else ''}]", PROP, functions=[QLS, QILP],
          expect=[Q + TRACE, Q + OUTCOME, Q + DELEG, Q + ARGS, Q + COUNTS], covers=[f"{Q}: terminated by return"],
          **({"bounded": CONCRETE} if concrete else {}))
    def t(I):
        w = I.w
        k_ = w.choose([1, 2, 3], "positions per list") if concrete else None
        info = {"n": n, **({"lens": [k_] * n} if concrete else {})}
        h = PlanHarness(I, QLS, "scans.list_scan", info, name=Q)
        ax = list_axes(w, n, [k_] * n if concrete else None)
        lens = [list_len(a) for a in ax]
        if not concrete:
            w.add(And(*[Eq(lens[0], ln) for ln in lens[1:]]))             # documented: all lists must have the same length
        flat = [x for a in ax for x in (a["motor"], a["list"])]
        cols = tuple(("col", a["motor"], list_col(a)) for a in ax)
        want = ("zip", cols) if n > 1 else cols[0]

        def check(a, k):
            if not h.common(a, k):
                return False
            d, md = descr_of(a[1]), k["md"]
            if d is None or list(md.get("motors", ())) != [x["motor"].name for x in ax] or md.get("plan_name") != "list_scan":
                return False
            md_args = [x for y in ax for x in (h.rp(y["motor"]), y["list"])]
            length = a[1].attrs["$model"].length
            # (domain: non-empty position lists, see TRUSTED - list_scan records num_intervals 0, not -1, for empty ones)
            return (And(same_value(I, d, want), Eq(effective_num_points(md, length), lens[0])),
                    [(Q + ARGS, And(same_value(I, md.get("plan_args"), h.plan_args(md_args)), same_value(I, md.get("plan_pattern_args"), {"args": md_args}),
                                      md.get("plan_pattern") == "inner_list_product"), "args"),
                     (Q + COUNTS, counts_ok(md, length, lens[0]), "counts")])
        h.run([list(h.dets)] + flat, {"per_step": h.per_step}, check)
    return t


for _n in (1, 2, 3):
    _list_scan_task(_n)
for _n in (1, 2):
    _list_scan_task(_n, concrete=True)


QGS = f"{MP}:grid_scan"


def product(xs):
    p = 1
    for x in xs:
        p = ops.binop("*", p, x)
    return p


def _grid_scan_task(n, pattern):
    if pattern == 2 and n == 1:
        return

    @task(f"grid_scan[{n} axes, pattern {pattern}]", PROP, functions=[QGS, f"{QGS}._set_snaking", QOP, QCH, QCL],
          expect=[QGS + TRACE, QGS + OUTCOME, QGS + DELEG, QGS + ARGS, QGS + COUNTS],
          covers=[f"{QGS}: terminated by return"])
    def t(I):
        w = I.w
        h = PlanHarness(I, QGS, "scans.grid_scan", {"n": n, "pattern": pattern})
        ax, args = grid_args(w, n, pattern)
        if pattern == 1:
            snake_axes, flags, kind = snake_request(w, ax, ("None", "False", "True", "list"))
        else:
            snake_axes, flags, kind = None, [a["snake"] for a in ax], "in args"
        h.b.extra = lambda: {"n": n, "pattern": pattern, "snake_axes": kind, "flags": [f if isinstance(f, bool) else str(f) for f in flags]}
        want = grid_descr(ax, flags)

        def check(a, k):
            if not h.common(a, k):
                return False
            d, md = descr_of(a[1]), k["md"]
            if (d is None or tuple(md.get("motors", ())) != tuple(x["motor"].name for x in ax) or md.get("plan_name") != "grid_scan"
                    or not isinstance(md.get("shape"), tuple) or not isinstance(md.get("extents"), tuple) or not isinstance(md.get("snaking"), tuple)):
                return False
            # recorded args: the equivalent fully spelled call - per axis motor, start, stop, num and, from the second axis on,
            # the snake flag in effect (so that plan_pattern(**plan_pattern_args) is the trajectory that was scanned)
            md_args = [x for i, y in enumerate(ax) for x in [h.rp(y["motor"]), y["start"], y["stop"], y["num"]] + ([flags[i]] if i else [])]
            points = product(x["num"] for x in ax)
            return (And(same_grid(I, d, want), same_value(I, md["shape"], tuple(x["num"] for x in ax)),
                        same_value(I, md["extents"], tuple([x["start"], x["stop"]] for x in ax)),
                        same_value(I, md["snaking"], tuple(flags)),
                        Eq(effective_num_points(md, a[1].attrs["$model"].length), points)),
                    [(QGS + ARGS, And(same_value(I, md.get("plan_args"), h.plan_args(md_args)), same_value(I, md.get("plan_pattern_args"), {"args": md_args}),
                                      md.get("plan_pattern") == "outer_product"), "args"),
                     (QGS + COUNTS, counts_ok(md, a[1].attrs["$model"].length, points), "counts")])
        kw = {"per_step": h.per_step}
        if kind != "None" and pattern == 1:
            kw["snake_axes"] = snake_axes
        h.run([list(h.dets)] + args, kw, check)
    return t


for _n in (1, 2, 3):
    for _p in (1, 2):
        _grid_scan_task(_n, _p)


QLGS = f"{MP}:list_grid_scan"


def _list_grid_scan_task(n, concrete=False):
    Q = QLGS + CONCRETE_TAG if concrete else QLGS

    @task(f"list_grid_scan[{n} axes{', lists of 1-3 symbolic positions' if concrete else ''}]", PROP, functions=[QLGS, QOLP],
          expect=[Q + TRACE, Q + OUTCOME, Q + DELEG, Q + ARGS, Q + COUNTS], covers=[f"{Q}: terminated by return"],
          **({"bounded": CONCRETE} if concrete else {}))
    def t(I):
        w = I.w
        ks = [w.choose([1, 2, 3], f"positions in list {i}") for i in range(n)] if concrete else None
        h = PlanHarness(I, QLGS, "scans.list_grid_scan", {"n": n}, name=Q)
        ax = list_axes(w, n, ks)
        snake_axes, flags, kind = snake_request(w, ax, ("default", "False", "True", "list"))
        h.b.extra = lambda: {"n": n, "snake_axes": kind, "flags": flags, **({"lens": ks} if concrete else {})}
        flat = [x for a in ax for x in (a["motor"], a["list"])]
        want = list_grid_descr(ax, flags)

        def check(a, k):
            if not h.common(a, k):
                return False
            d, md = descr_of(a[1]), k["md"]
            if (d is None or tuple(md.get("motors", ())) != tuple(x["motor"].name for x in ax) or md.get("plan_name") != "list_grid_scan"
                    or not isinstance(md.get("shape"), tuple) or not isinstance(md.get("extents"), tuple) or len(md["extents"]) != n):
                return False
            lens = [list_len(x) for x in ax]
            md_args = [x for y in ax for x in (h.rp(y["motor"]), y["list"])]
            length = a[1].attrs["$model"].length
            sa = h.rp(snake_axes if kind != "default" else False)
            return (And(same_grid(I, d, want), same_value(I, md["shape"], tuple(lens)),
                        And(*[extents_ok(e, x) for e, x in zip(md["extents"], ax)]),
                        Eq(effective_num_points(md, length), product(lens))),
                    [(Q + ARGS, And(same_value(I, md.get("plan_args"), h.plan_args(md_args)),
                                    same_value(I, md.get("plan_pattern_args"), {"args": md_args, "snake_axes": sa}), same_value(I, md.get("snake_axes"), sa),
                                    md.get("plan_pattern") == "outer_list_product"), "args"),
                     (Q + COUNTS, counts_ok(md, length, product(lens)), "counts")])
        kw = {"per_step": h.per_step}
        if kind != "default":
            kw["snake_axes"] = snake_axes
        h.run([list(h.dets)] + flat, kw, check)
    return t


for _n in (1, 2, 3):
    _list_grid_scan_task(_n)
for _n in (1, 2):
    _list_grid_scan_task(_n, concrete=True)


QX = f"{MP}:x2x_scan"
X_ENS = QX + "#ensures[is a relative scan(detectors, motor1, start, stop, motor2, start/2, stop/2, num) with both motors treated relatively and reset]"


@task("x2x_scan", PROP, functions=[QX, f"{MP}:relative_inner_product_scan", f"{MP}:rel_scan", f"{MP}:rel_scan.inner_rel_scan"],
      expect=[QX + TRACE, QX + OUTCOME, X_ENS, QX + ARGS], covers=[f"{QX}: terminated by return"])
def x2x_scan(I):
    w = I.w
    h = PlanHarness(I, QX, "scans.x2x_scan", {}, hook_qual=QSC, hook_name="scan", returns=False)
    rec = {}

    def deco(name):
        def f(I_, a, k):
            rec[name] = list(a[0])
            return native(lambda I2, a2, k2: a2[0])
        return native(f)
    # what the two wrappers do is property C24; here: which devices they are given
    w.stubs[("bluesky.preprocessors", "reset_positions_decorator")] = deco("reset")
    w.stubs[("bluesky.preprocessors", "relative_set_decorator")] = deco("relative")
    num = w.int("num")
    w.add(num >= 1)
    m1, m2 = movable("motor1"), movable("motor2")
    start, stop = w.real("start"), w.real("stop")

    def check(a, k):
        ok = (len(a) == 8 and all(x is y for x, y in zip(a[0], h.dets)) and a[1] is m1 and a[4] is m2 and k.get("num") is None
              and k.get("per_step") is h.per_step and isinstance(k.get("md"), dict) and k["md"].get("plan_name") == "x2x_scan"
              and len(rec.get("reset", ())) == 2 and len(rec.get("relative", ())) == 2
              and all(x is y for x, y in zip(rec["reset"], (m1, m2))) and all(x is y for x, y in zip(rec["relative"], (m1, m2))))
        if not ok:
            return False
        want_args = {"detectors": [h.rp(d) for d in h.dets], "motor1": "motor1", "motor2": "motor2", "start": start, "stop": stop, "num": num, "per_step": h.rp(h.per_step)}
        return (And(Eq(a[2], start), Eq(a[3], stop), Eq(a[5], ops.binop("/", start, 2)), Eq(a[6], ops.binop("/", stop, 2)), Eq(a[7], num)),
                [(QX + ARGS, same_value(I, k["md"].get("plan_args"), want_args), "args")])
    h.check_name = X_ENS
    h.run([list(h.dets), m1, m2, start, stop, num], {"per_step": h.per_step}, check)


@task("lemma: 2:1 ratio", PROP, expect=["lemma:x2x[point k of linspace(start/2, stop/2, num) is half of point k of linspace(start, stop, num)]"])
def x2x_lemma(I):
    """over the assumed contract of numpy.linspace (A-REAL): point k = start + k*(stop-start)/(num-1) for num > 1, start for num == 1"""
    w = I.w
    start, stop, k, num = w.real("start"), w.real("stop"), w.int("k"), w.int("num")
    w.add(And(num >= 1, k >= 0, k < num))
    import z3

    def point(a, b):
        step = z3.ToReal(k.t) * (b - a) / (z3.ToReal(num.t) - 1)
        return z3.If(num.t == 1, a, a + step)
    half = ops.mk(point(start.t / 2, stop.t / 2) == point(start.t, stop.t) / 2)
    w.check("lemma:x2x[point k of linspace(start/2, stop/2, num) is half of point k of linspace(start, stop, num)]", half)


QLOG = f"{MP}:log_scan"
MD_LOG = QLOG + "#ensures[positions = numpy.logspace(start, stop, num); recorded num_points == num, motors / detectors named, staged = detectors + motor]"


@task("log_scan", PROP, functions=[QLOG, f"{QLOG}.inner_log_scan"], expect=[QLOG + TRACE, QLOG + OUTCOME, MD_LOG, QLOG + ARGS_1D],
      covers=[f"{QLOG}: terminated by return", f"{QLOG}: closed at an established cut point"])
def log_scan(I):
    w = I.w
    how = w.choose(["default", "custom"], "per_step")
    predeclare = how == "default" and w.choose([False, True], "BLUESKY_PREDECLARE")
    b, ref = new_bisim(I, QLOG, replay="scans.log_scan")
    env = ScanEnv(I, b, predeclare)
    motor = device("motor")
    dets = [device("det0"), device("det1")]
    start, stop, num = w.real("start"), w.real("stop"), w.int("num")
    w.add(num >= 0)
    seq = GenericSeq("positions", lambda k: w.real(f"position{k}"))
    calls = []

    def logspace(I_, a, k):
        calls.append((list(a), dict(k)))
        return seq.iterator()
    w.stubs["numpy.logspace"] = logspace
    Pi, Pr = gen_function_pair(b, "per_step")
    if how == "default":
        I.call_hooks[f"{MS}:one_1d_step"] = lambda I_, f, a, k: _ret(Pi(I_, a, k))
    b.extra = lambda: {"per_step": how, "predeclare": predeclare, "points": len(seq.elements())}
    gi = I.call_value(I.get_function(QLOG), list(dets), motor, start, stop, num, per_step=None if how == "default" else Pi)
    b.current = b.ref
    declare = env.Dr(I, [motor] + list(dets), {"name": "primary"}) if predeclare else None
    gr = I.call_value(I.global_lookup(ref, "ref_scan_1d_points"), list(dets), motor, seq.iterator(), Pr, declare)
    b.run(gi, gr)
    rec = env.rec
    if "md" in rec:
        m = rec["md"]
        ok = (isinstance(m, dict) and m.get("motors") == ["motor"] and m.get("detectors") == ["det0", "det1"] and m.get("plan_name") == "log_scan"
              and len(rec.get("stage", ())) == 3 and all(x is y for x, y in zip(rec["stage"], dets + [motor]))
              and len(calls) == 1 and not calls[0][0] and set(calls[0][1]) == {"start", "stop", "num"})
        w.check(MD_LOG, And(Eq(m.get("num_points"), num), Eq(calls[0][1]["start"], start), Eq(calls[0][1]["stop"], stop), Eq(calls[0][1]["num"], num)) if ok else False,
                b.info("metadata"))
        w.check(QLOG + ARGS_1D, one_motor_md_ok(I, m, dets, motor, start, stop, num, how == "default") if isinstance(m, dict) else False, {**b.info("metadata"), "clause": "args"})


Q1D = f"{MP}:_scan_1d"
MD_1D = Q1D + "#ensures[positions = numpy.linspace(start, stop, num); recorded num_points == num, motors / detectors named, staged = detectors + motor]"


@task("_scan_1d", PROP, functions=[Q1D, f"{Q1D}.inner_scan"], expect=[Q1D + TRACE, Q1D + OUTCOME, MD_1D, Q1D + ARGS_1D],
      covers=[f"{Q1D}: terminated by return", f"{Q1D}: closed at an established cut point"])
def scan_1d(I):
    """the one-motor scan body behind the private _rel_scan_1d (same shape as log_scan, linspace instead of logspace)"""
    w = I.w
    how = w.choose(["default", "custom"], "per_step")
    b, ref = new_bisim(I, Q1D, replay="scans.scan_1d")
    env = ScanEnv(I, b, False)
    motor = device("motor")
    dets = [device("det0"), device("det1")]
    start, stop, num = w.real("start"), w.real("stop"), w.int("num")
    w.add(num >= 0)
    seq = GenericSeq("positions", lambda k: w.real(f"position{k}"))
    calls = []

    def linspace(I_, a, k):
        calls.append((list(a), dict(k)))
        return seq.iterator()
    w.stubs["numpy.linspace"] = linspace
    Pi, Pr = gen_function_pair(b, "per_step")
    if how == "default":
        I.call_hooks[f"{MS}:one_1d_step"] = lambda I_, f, a, k: _ret(Pi(I_, a, k))
    b.extra = lambda: {"per_step": how, "predeclare": False, "points": len(seq.elements())}
    gi = I.call_value(I.get_function(Q1D), list(dets), motor, start, stop, num, per_step=None if how == "default" else Pi)
    b.current = b.ref
    gr = I.call_value(I.global_lookup(ref, "ref_scan_1d_points"), list(dets), motor, seq.iterator(), Pr, None)
    b.run(gi, gr)
    rec = env.rec
    if "md" in rec:
        m = rec["md"]
        ok = (isinstance(m, dict) and m.get("motors") == ["motor"] and m.get("detectors") == ["det0", "det1"]
              and len(rec.get("stage", ())) == 3 and all(x is y for x, y in zip(rec["stage"], dets + [motor]))
              and len(calls) == 1 and not calls[0][0] and set(calls[0][1]) == {"start", "stop", "num"})
        w.check(MD_1D, And(Eq(m.get("num_points"), num), Eq(calls[0][1]["start"], start), Eq(calls[0][1]["stop"], stop), Eq(calls[0][1]["num"], num)) if ok else False,
                b.info("metadata"))
        w.check(Q1D + ARGS_1D, one_motor_md_ok(I, m, dets, motor, start, stop, num, how == "default") if isinstance(m, dict) else False, {**b.info("metadata"), "clause": "args"})


# ------------------------------------------------------------------------------------------------ must-fail twins
@task("move_per_step.twin", PROP, twin="twin:move_per_step" + OUTCOME)
def twin_move(I):
    """a reference that moves EVERY motor of the point (no 'only those whose position changed') must be told apart -
    this also shows that the loop-head cut points of the generic motor loop do not close paths too early"""
    w = I.w
    b, _ = new_bisim(I, "twin:move_per_step")
    ref = reference_module(I.P, "verif_ref_c25_twin1", REF.replace("if not (pos_cache[motor] == pos):", "if True:"))
    seq, view = generic_step(w)
    shared = {}
    ci, cr = CacheView(shared, b.impl, w), CacheView(shared, b.ref, w)
    gi = I.call_value(I.get_function(QM), view(), ci.opaque())
    b.current = b.ref
    gr = I.call_value(I.global_lookup(ref, "ref_move_per_step"), view(), cr.opaque())
    b.run(gi, gr)


@task("scan_nd.twin", PROP, twin="twin:scan_nd" + TRACE)
def twin_scan_nd(I):
    """a reference that hands every point a FRESH position cache must be told apart (cache identity is in the call log)"""
    import collections
    w = I.w
    b, _ = new_bisim(I, "twin:scan_nd")
    ref = reference_module(I.P, "verif_ref_c25_twin2", REF.replace("yield from per_step(detectors, point, pos_cache)",
                                                                   "yield from per_step(detectors, point, dict(pos_cache))"))
    env = ScanEnv(I, b, False)
    w.stubs[("bluesky.utils", "groupby")] = native(lambda I_, a, k: _groupby(I_, a[0], a[1]))
    cyc, motors, N, seq = abstract_cycler(w, 1, False)
    dets = [device("det0"), device("det1")]
    Pi0, Pr0 = gen_function_pair(b, "per_step")

    def wrap(P, seen, side):
        descr = cache_descr(I, seen)

        def f(I_, a, k):
            g = P(I_, a, k)
            name, n, kind, payload = side.log[-1]
            side.log[-1] = (name, n, kind, descr(payload))
            return g
        f._canon_label = "per_step"
        return native(f)
    Pi, Pr = wrap(Pi0, [], b.impl), wrap(Pr0, [], b.ref)
    Pi._params = SIGS["nd"]
    gi = I.call_value(I.get_function(QS), list(dets), cyc, per_step=Pi)
    b.current = b.ref
    cache = collections.defaultdict(None)
    cache.default_factory = native(lambda I_, a, k: None)
    gr = I.call_value(I.global_lookup(ref, "ref_scan_points"), list(dets), seq.iterator(), Pr, cache, None)
    b.run(gi, gr)


@task("list_grid_scan.twin", PROP, twin="twin:list_grid_scan[extents are the first and the last position]")
def twin_extents(I):
    """claiming that the recorded extents are [first, last] position of the list must be refuted: the abstract position list
    does not make its first / last element its minimum / maximum (lists are not assumed ascending)"""
    w = I.w
    h = PlanHarness(I, QLGS, None, {}, name="twin:list_grid_scan")
    ax = list_axes(w, 1)
    pl = ax[0]["list"]
    h.check_name = "twin:list_grid_scan[extents are the first and the last position]"
    get = pl.spec["getitem"]
    h.run([list(h.dets), ax[0]["motor"], pl], {"per_step": h.per_step},
          lambda a, k: And(Eq(k["md"]["extents"][0][0], get(I, pl, 0)), Eq(k["md"]["extents"][0][1], get(I, pl, -1))))


@task("grid_scan.twin", PROP, twin="twin:grid_scan[snake flags as requested]")
def twin_grid(I):
    """claiming that snake_axes=True snakes NO axis must be refuted (the trajectory description carries the flags)"""
    w = I.w
    h = PlanHarness(I, QGS, None, {}, name="twin:grid_scan")
    ax, args = grid_args(w, 2, 1)
    want = grid_descr(ax, [False, False])
    h.check_name = "twin:grid_scan[snake flags as requested]"
    h.run([list(h.dets)] + args, {"per_step": h.per_step, "snake_axes": True}, lambda a, k: same_grid(I, descr_of(a[1]), want))
