"""C09 - a deferred pause takes effect exactly at the next checkpoint.

Carriers: RunEngine.request_pause / _request_pause_coro (defer branch), _checkpoint, _pause (Msg('pause', defer=True)), _run,
_rewind, deferred_pause_requested, _clear_call_cache - executed symbolically under the asyncio model with an arbitrary plan.

Clauses, from the statement:
  D1  once a deferred pause is pending and the plan yields a checkpoint, the engine pauses before any later message is executed
  D2  resuming from that pause replays nothing
  D3  with no later checkpoint the plan completes normally and the request stays reported as pending
  D4  ... until the next plan starts: starting the next plan clears it, and it does not pause that plan"""
import os

from .t2 import *
from .run_mon2 import c09_checks

PROP = "C09"
TRUSTED = TRUSTED_T2 + [
    "A-ENV: at most one request of another thread is in flight at a time; no new pause is requested while two or more plans are stacked",
    "D1 - D3 are stated for calls in which only deferred pauses are requested (no abort / stop / halt / immediate pause / suspension alongside)",
]
NOT_DECIDED = "the 0.5 s grace period of _checkpoint is a timer fired by the environment at an arbitrary moment; SIGINT counting is not modelled"
THOROUGH = os.environ.get("VERIF_TIER") == "thorough"

SCENARIOS = [
    ("custom,checkpoint", "pause_defer", {"second_call": ("checkpoint",)}),
    ("custom,checkpoint,pause_defer", "", {"second_call": ("checkpoint",)}),
    ("custom,null", "pause_defer", {"second_call": ("checkpoint",)}),
    ("custom_async,checkpoint", "pause_defer", {}),
    ("custom,checkpoint,rewindable_off,rewindable_on", "pause_defer", {}),
    # implicit checkpoints (stage ...) are not checkpoints for a deferred pause; a suspension in between does not cancel the request
    ("custom,stage,unstage,checkpoint", "pause_defer", {}),
    ("custom,checkpoint", "pause_defer,suspend", {} if THOROUGH else {"max_requests": 2}),
]
if THOROUGH:
    SCENARIOS += [
        ("custom,checkpoint,clear_checkpoint", "pause_defer", {}),
        ("open_run,close_run,custom,checkpoint", "pause_defer", {}),
        ("custom,checkpoint", "pause_defer,pause", {}),
    ]

D1 = f"{REQ}._checkpoint#ensures[with a deferred pause pending the engine pauses at the checkpoint, before any later message]"
t2_tasks(PROP, "deferred", SCENARIOS, [c09_checks, c08_checks])


def _twin(sc, tr):
    def check(kind, *a):
        if kind == "plan-yield" and a[0] is sc.plan and sc.I.getattr(sc.re, "_deferred_pause_requested") is True:
            sc.w.check("twin:no message is executed once a deferred pause is pending", False)
    tr.checks.append(check)


t2_tasks(PROP, "twin", [("custom,checkpoint", "pause_defer", {})], [_twin], twin="twin:no message is executed once a deferred pause is pending")
