"""C06 - devices are always left cleaned up when the RunEngine goes idle.

Carriers: RunEngine._run (epilogue: _stop_movable_objects, clear_monitors, backstop_collect, unstage leftovers, closing runs), _stage,
_unstage, _set, _kickoff, _collect, _monitor, _unmonitor, _subscribe, _close_run, _clear_call_cache, _stop_movable_objects - executed
symbolically under the asyncio model with an arbitrary plan over stage / unstage / set / kickoff / collect / monitor / unmonitor /
subscribe / open_run / close_run / checkpoints on abstract devices that report every call to a ledger, under every interruption
(pause, suspension, abort, stop, halt at every step), failure (commands and plans that raise) and post-pause decision.

Clauses at every return to idle, from the statement:
  D1  the staged device has been unstaged after its last stage (it is not left staged)
  D2  the device that was set has been told to stop after its last set
  D3  every kicked-off flyer has been collected or a collection attempted     (known finding: a flyer of a run the plan closes itself)
  D4  every monitor subscription a run installed has been removed
  D5  per-call subscriptions are removed from the dispatcher before the next call's plan starts (second call on the same engine)"""
import os

from .t2 import *
from .run_mon3 import c06_checks, KF_C06

PROP = "C06"
TRUSTED = TRUSTED_T2 + [
    "A-ENV: at most one request of another thread is in flight at a time; no new pause / suspension is requested while two or more plans are stacked",
    "devices are abstract: one Stageable, one Movable + Stoppable, one Flyable, one Subscribable; their methods never fail and report every call; "
    "status objects are not followed (A-STATUS); 'not left staged' is read as: the device's last stage-related call is unstage()",
    "RunBundler's flyer / monitor bookkeeping is its contract: kickoff remembers the flyer, collect / backstop_collect (attempt to) collect it, "
    "close_run and clear_monitors remove the run's monitor subscriptions (C41 proves the monitor part on the real bundler)",
]
NOT_DECIDED = ("cleanup methods of real devices that themselves fail or suspend (an asynchronous stop / unstage interrupted in turn); devices staged twice; "
               "several devices of one kind (the handlers treat them uniformly: sets / dicts keyed by device)")
THOROUGH = os.environ.get("VERIF_TIER") == "thorough"

SCENARIOS = [
    ("stage,unstage,custom,checkpoint", "pause", {"max_requests": 2}),
    ("stage,set,custom,checkpoint", "abort", {}),
    ("stage,set,custom", "halt", {}),
    ("stage,set,custom", "stop", {}),
    ("set,custom,checkpoint", "suspend", {"max_requests": 2}),
    ("set,clear_checkpoint,custom", "pause", {"max_requests": 2}),
    ("open_run,kickoff,collect,custom", "abort", {}),
    ("open_run,kickoff,close_run,custom", "", {}),
    ("open_run,monitor,unmonitor,close_run", "abort", {}),
    ("open_run,monitor,custom,checkpoint", "pause", {"max_requests": 1}),
    ("stage,set_async,custom", "abort", {}),
    ("stage,set_async,custom,checkpoint", "pause", {"max_requests": 2}),
    ("subscribe,custom", "", {"second_call": ("custom",)}),
    ("subscribe,stage,custom,checkpoint", "pause", {"second_call": ("custom",), "max_requests": 1}),
]
if THOROUGH:
    SCENARIOS += [
        ("stage,unstage,set,custom,checkpoint", "pause,abort", {"max_requests": 2}),
        ("open_run,kickoff,collect,monitor,close_run", "pause", {"max_requests": 2}),
        ("stage,set,custom_async,checkpoint", "suspend", {"max_requests": 2}),
        ("open_run,monitor,kickoff,custom", "halt", {}),
    ]

D1 = f"{REQ}._run#ensures[at idle every device staged during the call has been unstaged]"
D2 = f"{REQ}._run#ensures[at idle every device that was set has been told to stop after its last set]"
t2_tasks(PROP, "cleanup", SCENARIOS, [c06_checks], expect=[D1, D2])


def _twin(sc, tr):
    def check(kind, *a):
        if kind == "dev-unstage":
            sc.w.check("twin:the engine never unstages a device itself", sc.plan.last_msg is not None and sc.plan.last_msg.command == "unstage" and not sc.plan.done)
    tr.checks.append(check)


t2_tasks(PROP, "twin", [("stage,custom", "", {})], [_twin], twin="twin:the engine never unstages a device itself")
