"""C06 - devices are always left cleaned up when the RunEngine goes idle.

Carriers: RunEngine._run (epilogue: _stop_movable_objects, clear_monitors, backstop_collect, unstage leftovers, closing runs), _stage,
_unstage, _set, _kickoff, _collect, _monitor, _unmonitor, _subscribe, _close_run, _clear_call_cache, _stop_movable_objects - executed
symbolically under the asyncio model with an arbitrary plan over stage / unstage / set / kickoff / collect / monitor / unmonitor /
subscribe / open_run / close_run / checkpoints on abstract devices that report every call to a ledger, under every interruption
(pause, suspension, abort, stop, halt at every step), failure (commands and plans that raise) and post-pause decision.

Clauses at every return to idle, from the statement:
  D1  the staged device has been unstaged after its last stage (it is not left staged)
  D2  the device that was set has been told to stop after its last set
  D3  every kicked-off flyer has been collected or a collection attempted     (known finding: a flyer of a run the plan closes itself)
  D4  every monitor subscription a run installed has been removed
  D5  per-call subscriptions are removed from the dispatcher before the next call's plan starts (second call on the same engine)"""
import os

from .t2 import *
from .run_mon3 import c06_checks, KF_C06

PROP = "C06"
TRUSTED = TRUSTED_T2 + [
    "A-ENV: at most one request of another thread is in flight at a time; no new pause / suspension is requested while two or more plans are stacked",
    "devices are abstract: one Stageable, one Movable + Stoppable, one Flyable, one Subscribable; their methods never fail and report every call; "
    "status objects are not followed (A-STATUS); 'not left staged' is read as: the device's last stage-related call is unstage()",
    "RunBundler's flyer / monitor bookkeeping is its contract: kickoff remembers the flyer, collect / backstop_collect (attempt to) collect it, "
    "close_run and clear_monitors remove the run's monitor subscriptions (C41 proves the monitor part on the real bundler)",
]
NOT_DECIDED = ("cleanup methods of real devices that themselves fail or suspend (an asynchronous stop / unstage interrupted in turn); devices staged twice; "
               "several devices of one kind (the handlers treat them uniformly: sets / dicts keyed by device)")
THOROUGH = os.environ.get("VERIF_TIER") == "thorough"

SCENARIOS = [
    ("stage,unstage,custom,checkpoint", "pause", {"max_requests": 2}),
    ("stage,set,custom,checkpoint", "abort", {}),
    ("stage,set,custom", "halt", {}),
    ("stage,set,custom", "stop", {}),
    ("set,custom,checkpoint", "suspend", {"max_requests": 2}),
    ("set,clear_checkpoint,custom", "pause", {"max_requests": 2}),
    ("open_run,kickoff,collect,custom", "abort", {}),
    ("open_run,kickoff,close_run,custom", "", {}),
    ("open_run,monitor,unmonitor,close_run", "abort", {}),
    ("open_run,monitor,custom,checkpoint", "pause", {"max_requests": 1}),
    ("stage,set_async,custom", "abort", {}),
    ("stage,set_async,custom,checkpoint", "pause", {"max_requests": 2}),
    ("subscribe,custom", "", {"second_call": ("custom",)}),
    ("subscribe,stage,custom,checkpoint", "pause", {"second_call": ("custom",), "max_requests": 1}),
]
if THOROUGH:
    SCENARIOS += [
        ("stage,unstage,set,custom,checkpoint", "pause,abort", {"max_requests": 2}),
        ("open_run,kickoff,collect,monitor,close_run", "pause", {"max_requests": 2}),
        ("stage,set,custom_async,checkpoint", "suspend", {"max_requests": 2}),
        ("open_run,monitor,kickoff,custom", "halt", {}),
    ]

D1 = f"{REQ}._run#ensures[at idle every device staged during the call has been unstaged]"
D2 = f"{REQ}._run#ensures[at idle every device that was set has been told to stop after its last set]"
t2_tasks(PROP, "cleanup", SCENARIOS, [c06_checks], expect=[D1, D2])


def _twin(sc, tr):
    def check(kind, *a):
        if kind == "dev-unstage":
            sc.w.check("twin:the engine never unstages a device itself", sc.plan.last_msg is not None and sc.plan.last_msg.command == "unstage" and not sc.plan.done)
    tr.checks.append(check)


t2_tasks(PROP, "twin", [("stage,custom", "", {})], [_twin], twin="twin:the engine never unstages a device itself")


# ------------------------------------------------------------------------------------------------ T1: the real RunBundler's monitor bookkeeping
# The T2 tasks above use RunBundler's contract; this is the induction that establishes it on the real bundler, over arbitrary histories of
# monitor / unmonitor / suspend / restore / clear / close: INV = a monitored device holds exactly one subscription of the run's callback
# unless the monitors are suspended (then none), an unmonitored device none; every step re-establishes INV, restore always ends the
# suspension, and close_run / clear_monitors leave no subscription and no monitor behind.
from .C41 import monitored, bundler_setup, Q as QB, IMS   # noqa: E402
from .bundler_lib import call_async                       # noqa: E402
from .re_lib import make_re                               # noqa: E402
from .bundler_lib import Env, Ready                       # noqa: E402

M_INV = f"{QB}#invariant[a monitored device holds one subscription unless the run's monitors are suspended (then none); an unmonitored device none]"
M_RES = f"{QB}.restore_monitors#ensures[re-subscribes each monitor at most once and nothing that is not monitored; the book-keeping invariant holds afterwards]"
M_END = f"{QB}.close_run#ensures[no subscription and no monitor of the run is left (also via clear_monitors)]"


@task("bundler.monitor_histories", PROP, functions=[f"{QB}.monitor", f"{QB}.unmonitor", f"{QB}.suspend_monitors", f"{QB}.restore_monitors",
                                                    f"{QB}.clear_monitors", f"{QB}.close_run"], expect=[M_INV, M_RES, M_END])
def monitor_histories(I):
    w = I.w
    env, b = bundler_setup(I)
    d, st = monitored(I, w, b, "sig")
    d2, st2 = monitored(I, w, b, "sig2")
    rp = {"replay": "monitors.histories"}
    # an arbitrary reachable state (built by the real operations): sig monitored or not, monitors suspended or not
    hist = []
    if w.choose([True, False], "sig monitored"):
        call_async(I, I.getattr(b, "monitor"), MsgVal("monitor", d, (), {"name": "mon"}, None))
        hist.append("monitor sig")
    if w.choose([False, True], "suspended (engine paused / suspended)"):
        call_async(I, I.getattr(b, "suspend_monitors"))
        hist.append("suspend")
        if w.choose([False, True], "and restored again"):
            call_async(I, I.getattr(b, "restore_monitors"))
            hist.append("restore")

    def suspended():
        return bool(b.attrs.get("_monitors_suspended", False))

    def inv():
        ok = True
        for dev, s in ((d, st), (d2, st2)):
            want = (0 if suspended() else 1) if dev in b._monitor_params else 0
            ok = ok and s["subs"] == want
        return ok
    pre_ok = inv()
    op = w.choose(["monitor sig2", "unmonitor sig", "suspend", "restore", "clear_monitors", "close_run"], "operation")
    hist.append(op)
    info = dict(rp, history=list(hist))
    if op == "monitor sig2":
        # (also while suspended: a suspender's pre-plan may start a monitor; it must stay unsubscribed until the release)
        r = call_async(I, I.getattr(b, "monitor"), MsgVal("monitor", d2, (), {"name": "mon2"}, None))
        w.check(M_INV, pre_ok and r[0] == "ok" and inv() and d2 in b._monitor_params, info)
    elif op == "unmonitor sig":
        r = call_async(I, I.getattr(b, "unmonitor"), MsgVal("unmonitor", d, (), {}, None))
        if "monitor sig" in hist:
            w.check(M_INV, pre_ok and r[0] == "ok" and inv() and d not in b._monitor_params and st["subs"] == 0, info)
        else:
            w.check(M_INV, pre_ok and r[0] == "raise" and exc_is(I, r[1], IMS) and inv(), info)
    elif op == "suspend":
        call_async(I, I.getattr(b, "suspend_monitors"))
        w.check(M_INV, pre_ok and inv() and suspended() and st["subs"] == 0, info)
    elif op == "restore":
        call_async(I, I.getattr(b, "restore_monitors"))
        # (C06 needs: restore creates no subscription that the run's book-keeping does not account for; that it also ENDS the suspension - so that
        # monitors report again - is C41's clause and is checked there: contracts/C41.py bundler.restore_ends_suspension)
        w.check(M_RES, pre_ok and inv() and st["subs"] <= 1 and st2["subs"] == 0 and ("monitor sig" in hist or st["subs"] == 0), info)
    else:
        if op == "clear_monitors":
            call_method(I, b, "clear_monitors")
        else:
            r = call_async(I, I.getattr(b, "close_run"), MsgVal("close_run", None, (), {}, None))
            pre_ok = pre_ok and r[0] == "ok"
        left = len(b._monitor_params)
        call_async(I, I.getattr(b, "restore_monitors"))          # a late restore must not resurrect anything
        w.check(M_END, pre_ok and st["subs"] == 0 and st2["subs"] == 0 and left == 0 and len(b._monitor_params) == 0, info)


CR = f"{RE}._close_run#ensures[a run whose close fails stays registered, so the engine's clean-up still sees it (its monitors, its stop document)]"


@task("engine._close_run.failure", PROP, functions=[f"{RE}._close_run"], expect=[CR])
def close_run_failure(I):
    w = I.w
    env = Env(I)
    boom = Obj(BUILTIN_CLASSES["ValueError"], {"args": ("clear_sub failed",), "__cause__": None}, label="device_error")
    calls = []

    def close(I_, o, a, k):
        calls.append("close_run")
        return Ready(None, exc=boom)
    bad = Opaque("bundler[bad]", {"token": "bundler", "truth": True, "isinstance_default": False, "attrs": {"run_is_open": True, "bundling": False},
                                  "methods": {"close_run": close, "reset_checkpoint_state": lambda I_, o, a, k: None}})
    other = Opaque("bundler[other]", {"token": "bundler", "truth": True, "isinstance_default": False, "attrs": {"run_is_open": True, "bundling": False},
                                      "methods": {"reset_checkpoint_state": lambda I_, o, a, k: None}})
    key = w.choose([None, "a"], "run key")
    re_ = make_re(I, env, _run_bundlers={key: bad, "other": other}, _msg_cache=None)
    I.call_hooks[f"{RE}._close_run_trace"] = lambda I_, f, a, k: _ret_none()
    r = call_async(I, I.getattr(re_, "_close_run"), MsgVal("close_run", None, (), {}, key))
    reg = I.getattr(re_, "_run_bundlers")
    w.check(CR, r[0] == "raise" and r[1] is boom and key in reg and reg[key] is bad and "other" in reg and calls == ["close_run"],
            {"replay": "monitors.close_run_failure", "key": key})


def _ret_none():
    return None
    yield
